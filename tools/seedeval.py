#!/usr/bin/env python3
"""Confirms and evaluates seeded changes (mutants).

  seedeval.py confirm <Cxx> <mutN>   confirm the change in its scratch worktree: builds, suite passes, demo fails with / passes without
  seedeval.py keep <Cxx> <mutN>      copy patch, demo and meta into /verif/seeded/<id>/ (after confirm)
  seedeval.py run <seeded-id> [tier] [props...]  apply the kept patch to /repo, run the checks of its property (or the given ones), undo

Scratch worktrees live under /tmp/mut/<Cxx>/wt (outside /repo and /verif).
"""
import glob
import json
import os
import re
import shutil
import subprocess
import sys
import time

V = os.path.dirname(os.path.dirname(os.path.abspath(__file__)))
MUTBASE = os.environ.get("MUTBASE", "/tmp/mut")
IDPFX = os.environ.get("IDPFX", "")
ENV = dict(os.environ, GOFLAGS="-mod=mod", GOPROXY="off", GOSUMDB="off", GOTOOLCHAIN="local")


def sh(cmd, cwd=None, timeout=1800):
    p = subprocess.run(cmd, shell=True, cwd=cwd, env=ENV, stdout=subprocess.PIPE, stderr=subprocess.STDOUT, text=True, errors="replace", timeout=timeout)
    return p.returncode, p.stdout


def netns(cmd):
    # the repository's suite binds fixed loopback ports: isolate concurrent runs in a private network namespace
    return "unshare -rn sh -c 'ip link set lo up; %s'" % cmd.replace("'", "'\\''")


def confirm(prop, mut):
    base = "%s/%s" % (MUTBASE, prop)
    wt = base + "/wt"
    out = "%s/out/%s" % (base, mut)
    meta = json.load(open(out + "/meta.json"))
    res = dict(id="%s-%s%s" % (prop, IDPFX, mut), property=prop)
    sh("git checkout -- . && git clean -fdq", cwd=wt)
    rc, o = sh("git apply --check %s/patch.diff" % out, cwd=wt)
    res["applies"] = rc == 0
    if rc != 0:
        res["error"] = o[-500:]
        return res
    demo_place = (meta.get("demo_place") or "demo_test.go").split()[0].rstrip(",;")
    demo_src = None
    for cand in ("demo_test.go", "demo/main.go", "main.go"):
        if os.path.exists(os.path.join(out, cand)):
            demo_src = os.path.join(out, cand)
            break
    demo_cmd = meta.get("demo_cmd", "")
    demo_cmd = re.sub(r"^(?:\w+=\S+\s+)+", "", demo_cmd)  # env assignments are set by us
    dst = os.path.join(wt, demo_place)
    os.makedirs(os.path.dirname(dst), exist_ok=True)
    # without the change
    shutil.copy(demo_src, dst)
    rc0, o0 = sh(netns(demo_cmd), cwd=wt, timeout=600)
    res["demo_passes_without"] = rc0 == 0
    # with the change
    sh("git apply %s/patch.diff" % out, cwd=wt)
    rcb, ob = sh("go build ./... && go build -tags verif ./...", cwd=wt)
    res["builds"] = rcb == 0
    rc1, o1 = sh(netns(demo_cmd), cwd=wt, timeout=600)
    res["demo_fails_with"] = rc1 != 0
    res["demo_output_with"] = o1[-600:]
    os.remove(dst)
    fails = []
    ok_runs = 0
    for i in range(2):
        rcs, os_ = sh(netns("go test -vet=off -count=1 ./... 2>&1 | grep -E \"^(FAIL|---|panic|ok)\" | grep -v \"^ok\""), cwd=wt, timeout=1200)
        bad = [l for l in os_.splitlines() if l.startswith("--- FAIL") or l.startswith("FAIL") or l.startswith("panic")]
        bad = [l for l in bad if "TestNodeRoute" not in l]
        real = [l for l in bad if l.startswith("--- FAIL")]
        if not real and not any(l.startswith("panic") for l in bad):
            ok_runs += 1
        else:
            fails.append(bad[:5])
    res["suite_passes"] = ok_runs == 2
    res["suite_fail_lines"] = fails
    sh("git checkout -- . && git clean -fdq", cwd=wt)
    res["meta"] = meta
    res["confirmed"] = all(res.get(k) for k in ("applies", "builds", "suite_passes", "demo_fails_with", "demo_passes_without"))
    return res


def keep(prop, mut, res=None):
    out = "%s/%s/out/%s" % (MUTBASE, prop, mut)
    sid = "%s-%s%s" % (prop, IDPFX, mut)
    dst = os.path.join(V, "seeded", sid)
    os.makedirs(dst, exist_ok=True)
    shutil.copy(out + "/patch.diff", dst + "/patch.diff")
    for f in os.listdir(out):
        if f not in ("patch.diff", "meta.json") and os.path.isfile(os.path.join(out, f)):
            shutil.copy(os.path.join(out, f), os.path.join(dst, f + ".txt" if f.endswith(".go") else f))
    m = json.load(open(out + "/meta.json"))
    meta = dict(id=sid, breaks_property=prop, summary=m.get("summary"), needs_to_manifest=m.get("needs"), files=m.get("files"),
                demonstration=dict(file=[f for f in os.listdir(dst) if f.startswith("demo")], place=m.get("demo_place"), cmd=m.get("demo_cmd")),
                origin="written by an independent sub-agent given only the property text and a scratch worktree",
                confirmed=dict((k, res.get(k)) for k in ("applies", "builds", "suite_passes", "demo_fails_with", "demo_passes_without")) if res else None,
                what_i_ran="tools/seedeval.py confirm: git apply in a scratch worktree; go build ./... (and -tags verif); repository suite twice in a private network namespace; demonstration with and without the change",
                detection={})
    json.dump(meta, open(dst + "/meta.json", "w"), indent=1)
    return dst


def run(sid, tier="quick", props=None):
    d = os.path.join(V, "seeded", sid)
    meta = json.load(open(d + "/meta.json"))
    props = props or [meta["breaks_property"]]
    rc, o = sh("git -C /repo status --porcelain")
    if o.strip():
        print("refusing: /repo has local changes")
        sys.exit(2)
    rc, o = sh("git -C /repo apply %s/patch.diff" % d)
    if rc != 0:
        print("patch does not apply:", o)
        return None
    results = {}
    try:
        for p in props:
            t0 = time.time()
            rc, o = sh("./check %s --tier %s" % (p, tier), cwd=V, timeout=7200)
            keys = re.findall(r"^  key: (.*)$", o, re.M)
            results[p] = dict(exit=rc, detected=(rc == 1), keys=keys[:6], wall_s=round(time.time() - t0, 1), tail=o[-300:] if rc not in (0, 1) else "")
    finally:
        sh("git -C /repo checkout -- . && git -C /repo clean -fdq")
    meta.setdefault("detection", {})
    for p, r in results.items():
        meta["detection"]["%s:%s" % (p, tier)] = r
    json.dump(meta, open(d + "/meta.json", "w"), indent=1)
    return results


def run_scratch(sid, tier="quick", props=None):
    """Same as run, but on a scratch copy of /repo (VERIF_REPO / VERIF_OUT), so that several can run at once."""
    d = os.path.join(V, "seeded", sid)
    meta = json.load(open(d + "/meta.json"))
    props = props or [meta["breaks_property"]]
    root = "/var/tmp/se/" + sid
    shutil.rmtree(root, ignore_errors=True)
    os.makedirs(root)
    sh("rsync -a --exclude .git /repo/ %s/repo/" % root)
    rc, o = sh("git apply %s/patch.diff" % d, cwd=root + "/repo")
    if rc != 0:
        print("patch does not apply:", o)
        return None
    results = {}
    env = dict(ENV, VERIF_REPO=root + "/repo", VERIF_OUT=root + "/out")
    try:
        for p in props:
            t0 = time.time()
            pr = subprocess.run("./check %s --tier %s" % (p, tier), shell=True, cwd=V, env=env, stdout=subprocess.PIPE, stderr=subprocess.STDOUT, text=True, timeout=7200)
            rc, o = pr.returncode, pr.stdout
            keys = re.findall(r"^  key: (.*)$", o, re.M)
            results[p] = dict(exit=rc, detected=(rc == 1), keys=keys[:6], wall_s=round(time.time() - t0, 1), tail=o[-300:] if rc not in (0, 1) else "", scratch_copy=True)
    finally:
        shutil.rmtree(root, ignore_errors=True)
    meta.setdefault("detection", {})
    for p, r in results.items():
        meta["detection"]["%s:%s" % (p, tier)] = r
    json.dump(meta, open(d + "/meta.json", "w"), indent=1)
    return results


if __name__ == "__main__":
    cmd = sys.argv[1]
    if cmd == "confirm":
        r = confirm(sys.argv[2], sys.argv[3])
        json.dump(r, open("%s/%s/out/%s/confirm.json" % (MUTBASE, sys.argv[2], sys.argv[3]), "w"), indent=1)
        print(r["id"], "confirmed" if r.get("confirmed") else "NOT CONFIRMED", {k: r.get(k) for k in ("applies", "builds", "suite_passes", "demo_fails_with", "demo_passes_without")})
        if r.get("confirmed"):
            keep(sys.argv[2], sys.argv[3], r)
    elif cmd == "runs":
        tier = sys.argv[3] if len(sys.argv) > 3 else "quick"
        res = run_scratch(sys.argv[2], tier, sys.argv[4:] or None)
        print(sys.argv[2], json.dumps(res))
    elif cmd == "run":
        tier = sys.argv[3] if len(sys.argv) > 3 else "quick"
        res = run(sys.argv[2], tier, sys.argv[4:] or None)
        print(sys.argv[2], json.dumps(res))
