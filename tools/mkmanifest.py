#!/usr/bin/env python3
"""Regenerates /verif/MANIFEST.json from the table below (kept in one place so that it stays valid)."""
import json, os, subprocess
V = os.path.dirname(os.path.dirname(os.path.abspath(__file__)))

T = "Trusts harness/ref (independent reference model written from the MAVLink serialization and signing guides, anchored at setup by the CRC-16/MCRF4XX check value, upstream golden byte vectors and the published MAVLINK_MESSAGE_CRCS table)"
ALL = {
 # id: (level, technique, level text, level note, design ref)
 "C01": ("exploration", "reference-model differential monitor over generated and exhaustively swept frames",
   "Held on every frame executed: the real frame.Writer/Reader are run over one-at-a-time exhaustive sweeps of each header byte, every payload length 0..255, boundary ids/timestamps, random frames and multi-frame streams through one reader, and compared byte for byte / field for field with an independent serializer. Exploration, not proof: the joint field space is sampled, each single-field sub-space is exhausted.",
   T + "; frames violating their own invariants are out of scope.", "DESIGN.md §3 C01"),
 "C02": ("exploration", "exhaustive CRC step sweep against a bitwise reference + justified-delivery monitor under systematic frame damage",
   "All 2^24 (CRC state, byte) pairs of x25.X25 are executed against a bit-at-a-time reference (complete for the step function); the frame gate is observed on reference-built valid frames under every single-bit flip and other damage: every decoded delivery must be justified by a reference-valid frame in the stream, every undamaged frame must be delivered. Exploration over message types / values / damages.",
   T + "; CRC collisions are justified by the reference and counted, not flagged.", "DESIGN.md §3 C02"),
 "C03": ("exploration", "spec-derived layout reference over a complete enumeration of message definitions, per-field boundary probing",
   "Every message struct of the 19 shipped dialects plus 15 user-defined shapes is enumerated; CRC_EXTRA and sizes are compared with the spec derivation and the published table, and every field position is probed with boundary values one at a time against the reference encoder/decoder in v1 and v2. Complete over shipped definitions, sampled over values.",
   T + ".", "DESIGN.md §3 C03"),
 "C04": ("exploration", "canonical-form reference differential, truncation sweeps, canary monitor around the caller's buffer",
   "decode(encode(v)) is compared with the reference canonical form for generated values of every shipped type in both versions; every truncation amount, appended zeros/unknown tails and arbitrary payloads of every length are decoded by the real and the reference decoder; every decode runs on a slice with spare capacity inside a 0xA5 backing array. Exploration.",
   T + "; panics are recovered per case and reported as violations.", "DESIGN.md §3 C04"),
 "C05": ("exploration", "byte-accounting monitor on the reader, bounded-exhaustive streams, all segmentations, fault at every offset",
   "Bounded-exhaustive byte streams (small alphabets containing the frame markers, long enough for complete frames) plus grammar-based streams are read under whole / 1-byte / random chunkings and all 2^(n-1) segmentations of short streams, with byte accounting around every call; a transport error is injected at every byte offset. Exhaustive up to the stated length bounds, sampled beyond.",
   T + "; consumed = delivered - BufByteReader.Buffered().", "DESIGN.md §3 C05"),
 "C06": ("exploration", "wire-image SHA-256 reference, every single-bit tamper, justified-delivery monitor; clock sandwich on writers",
   "Keyed readers are observed on reference-signed frames and on every single-bit flip / forgery / wrong-key variant placed after a valid frame on the same reader; every delivery must be justified by a reference-signed frame. Writers (frame.Writer, streamwriter, Node) are observed on the wire: flag, link id, timestamp sandwich, signature by the reference formula.",
   T + "; crypto/sha256 is the trusted base.", "DESIGN.md §3 C06"),
 "C07": ("exploration", "sequential window model over bounded-exhaustive timestamp histories; clock sandwich on outgoing timestamps",
   "Every accept/refuse decision of a keyed reader is compared with a sequential model over all histories of a 12-value boundary alphabet to depth 4-5 on fresh readers and over long random histories relative to the running maximum; outgoing timestamps of three writer APIs are checked against a before/after reading of the harness clock and for monotonicity per link.",
   "Wall clock is not stepped backwards (not injected). " + T, "DESIGN.md §3 C07"),
 "C08": ("exploration", "multi-hop forwarding monitor: reference checksum + next-hop acceptance, Node router with edit/FixFrame",
   "Frames are forwarded over 1-4 hops of real reader->writer pairs and through a real Node router; without dialect bytes must be identical, with dialect (canonical and non-canonical encodings of many message types) the forwarded frame must keep its header, carry the reference checksum of the bytes sent and decode identically at a next-hop reader; edited frames fixed with FixFrame must validate at a next hop with dialect and key.",
   T + "; signature survival of dialect-re-encoded frames is not demanded (statement promises checksum validity).", "DESIGN.md §3 C08"),
 "C09": ("exploration", "reference parse of outgoing streams, per-link sequence automaton",
   "Write histories over version x ids x key configurations through streamwriter, frame.Writer.WriteMessage and Nodes with 1-6 channels (application writes, heartbeats and stream requests on the same counter) are parsed by the reference; identity, flags, checksum, v1 base size and a sequence automaton are asserted per link; initialization refusals enumerated.",
   T + "; a sequence number consumed by a refused write is tolerated and counted.", "DESIGN.md §3 C09"),
 "C10": ("exploration", "per-channel event automaton + unique-id sequence comparison under hook-perturbed schedules",
   "Seeded scenarios (custom, TCP, UDP, fake serial channels; valid / bad-checksum / bad-signature / junk input; sessions ending and reopening; slow and bursty consumers; concurrent writers) are run with schedule perturbation at the hook points; the consumer runs an INIT->OPEN->CLOSED automaton per channel and the delivered unique-id sequence is compared with what was fed.",
   "Histories recorded at the client boundary (Events(), transports). Liveness judged with the no-progress criterion, otherwise inconclusive.", "DESIGN.md §3 C10"),
 "C11": ("exploration", "offline exactly-once / isolation / FIFO checker over unique-id write histories with flow control",
   "Every Write* call and every transport Write is logged with unique ids; per-channel captures are tokenised by the reference and checked offline for torn frames, duplicates, leaks (To/Except/closed/foreign), losses on channels open for the whole call, and per-goroutine FIFO, under hook-perturbed schedules with flow control keeping the backlog below 64.",
   "Quiescence decided with VerifBacklog()==0 and unchanged counters; " + T, "DESIGN.md §3 C11"),
 "C12": ("fault_enumeration", "Close injected at every hook point x occurrence; deadlock / goroutine-leak / port / close-count monitors",
   "For scripted scenarios over every endpoint kind, Node.Close is placed at each reached hook point and occurrence (holding that goroutine), with running or stopped consumers and concurrent writers; monitors check that Close returns (no-progress + goroutine-dump criterion), no library goroutine survives, ports can be re-bound, custom transports closed exactly once, the event channel ends, writes return without panic, failed Initialize leaves nothing behind.",
   "Fault model: transports unblock on Close. Hook points are the enumerated placement sites.", "DESIGN.md §3 C12"),
 "C13": ("fault_enumeration", "blocked / failing / unencodable writes at every position; isolation and recover-or-close oracle",
   "Transport writes are blocked or failed at the j-th call and unencodable items inserted at every position of write histories; other channels must still satisfy the fan-out conditions and keep delivering events, the stalled channel's backlog is bounded and order-preserving, and after a failure the channel is either closed with a close event or keeps emitting later valid writes.",
   "Custom and TCP endpoints; quiescence by no-progress criterion.", "DESIGN.md §3 C13"),
 "C14": ("fault_enumeration", "fault sequences per endpoint kind; lifecycle automaton; deadline recorder on timednetconn",
   "Read errors, EOF, resets and refused connects are injected at the j-th operation for TCP/UDP servers and clients, serial (fake opener) and custom endpoints, singly and in sequences; close events must carry the cause, client endpoints must reconnect after the delay and never hold two channels, servers keep accepting, idle channels are closed and active ones are not, and every Read/Write of timednetconn is preceded by a freshly armed deadline.",
   "Reconnect period shortened through the verif hook; idle verdicts only when the harness's own send gaps stayed small, otherwise inconclusive.", "DESIGN.md §3 C14"),
 "C15": ("exploration", "Go race detector over node workloads and an API mix",
   "All node workloads plus a dedicated API mix (six Write* flavours from several goroutines, forwarding from the consumer, FixFrame, fast heartbeats, stream requests from several channels, channels opening and closing, Close racing with everything) run under -race with several GOMAXPROCS values; any report touching library code is a violation.",
   "Absence of reports on the schedules run is not absence of races; halt_on_error=0, reports de-duplicated by outermost library entry points.", "DESIGN.md §3 C15"),
 "C16": ("exploration", "wire-capture counters and content checks; tick upper bound and median spacing",
   "Per-channel wire captures are parsed by the reference: heartbeat fields, a sound upper bound on their number (a ticker never fires early), median spacing, every open channel served, zero when disabled / dialect lacks the standard message; stream requests: exactly the seven streams at the configured rate to the sender on its channel, one event, no repeat, nothing for other autopilots or messages.",
   "Spacing judged on the median with a re-run at a larger period before a violation is declared.", "DESIGN.md §3 C16"),
 "C17": ("exploration", "complete enumeration of shipped dialects + generated identity/constant probe program",
   "All 19 dialect packages are enumerated: Initialize, id uniqueness, GetMessage over a large id range (thorough: every 24-bit id), size limit, published CRC_EXTRA table, cross-dialect value passing; a probe program generated from a source scan asserts Go type identity of every alias and one value per constant name; malformed / duplicate user dialects (also through re-initialisation) must be rejected.",
   T + "; the source scan only enumerates declarations, every assertion is executed.", "DESIGN.md §3 C17"),
 "C18": ("translation_validation", "generate -> build -> run probe vs XML-derived reference (translation validation by execution)",
   "Seeded valid dialect XML (with include graphs) is fed to the real cmd/dialect-import built from the tree; the generated packages are compiled into a generated probe program whose ids, field counts, CRC_EXTRA, v1/v2 payloads of sample values, enum constants and dialect version are compared with an independent derivation from the XML; a second generation must be byte-identical; inexpressible definitions must not initialize.",
   "Reference derivation ref.LayoutFromXML independent of pkg/conversion and pkg/message; link mode and URL definitions not exercised.", "DESIGN.md §3 C18"),
 "C19": ("exploration", "generated probe program over every shipped and freshly generated enum type",
   "Every enum type defined in the shipped dialect packages and every enum of freshly generated dialects is round-tripped through MarshalText/UnmarshalText/String over all constants, boundary values, random values and flag combinations, and rejection of malformed texts is checked.",
   "The source scan only enumerates enum types and constant names; every assertion is executed against the compiled packages.", "DESIGN.md §3 C19"),
 "C20": ("fault_enumeration", "reference log image; every cut offset; k-th write failure; unencodable entry at every position",
   "Write histories are compared byte for byte with a reference log image after every entry, read back, cut at every offset (crash points), written through a writer failing at every k-th call, and interleaved with unencodable entries at every position; the reader must return exactly the complete entries then errors forever.",
   T + "; long logs (> 4 KiB) included to cross the reader's buffer.", "DESIGN.md §3 C20"),
}
BUILT_IDS = sorted(ALL)
BUILT = {k: ALL[k] for k in BUILT_IDS}

NOT_YET = {}

def main():
    props = [json.loads(l) for l in open(os.path.join(V, "properties.jsonl"))]
    checks = []
    na = []
    for p in props:
        pid = p["id"]
        if pid in BUILT:
            level, tech, text, note, ref = BUILT[pid]
            checks.append(dict(
                property_id=pid,
                quick_cmd="./check %s --tier quick" % pid,
                thorough_cmd="./check %s --tier thorough" % pid,
                evidence_file="/verif/evidence/%s.json" % pid,
                replay_cmd_template="./check %s --replay {path}" % pid,
                engine="gomavlib-runtime-monitors",
                level_claimed=dict(category=level, text=text, design_ref=ref),
                level_note=note,
                technique=tech))
        else:
            na.append(dict(property_id=pid, reason=NOT_YET.get(pid, "monitor under construction in this session (designed in DESIGN.md §3; not yet registered, so not claimed)")))
    hooks_commits = subprocess.run(["git", "-C", "/repo", "log", "--format=%H", "--grep=^verif:"], capture_output=True, text=True).stdout.split()
    m = dict(
        version=1,
        setup_cmd="./setup.sh",
        hooks=dict(
            guard="verif",
            enable="go build tag: checks build /repo through the harness module (replace => /repo) with `go test -c -tags verif`",
            baseline_off_cmd="cd /repo && GOFLAGS=-mod=mod GOPROXY=off GOSUMDB=off GOTOOLCHAIN=local go test -json -vet=off -count=1 -timeout 25m ./...",
            source_commits=hooks_commits,
            add_only=True),
        engines=[dict(name="gomavlib-runtime-monitors", path="/verif/harness",
                      serves_properties=sorted(BUILT),
                      kind_free_text="Go test binaries (module verifharness, replace gomavlib => /repo, tag verif) run as child processes by /verif/check: reference-model differential monitors, event-stream automata, offline history checkers, fault-injecting transports, Go race detector")],
        checks=checks,
        notes="All checks: ./check <id> [--tier quick|thorough]; VERIF_SEED seeds every random choice; evidence in /verif/evidence/<id>.json; witnesses in /verif/replay/. Known findings: /verif/KNOWN_FINDINGS.json.",
        not_applicable=na)
    json.dump(m, open(os.path.join(V, "MANIFEST.json"), "w"), indent=1)
    print("checks:", len(checks), "not_applicable:", len(na))

main()
