#!/usr/bin/env python3
"""Regenerates /verif/MANIFEST.json from the table below (kept in one place so that it stays valid)."""
import json, os, subprocess
V = os.path.dirname(os.path.dirname(os.path.abspath(__file__)))

BUILT = {
 # id: (level, technique, level text, level note, design ref)
 "C01": ("exploration", "reference-model differential monitor over generated and exhaustively swept frames",
   "Held on every frame executed: the real frame.Writer/Reader are run over one-at-a-time exhaustive sweeps of each header byte, every payload length 0..255, boundary ids/timestamps, random frames and multi-frame streams, and compared byte for byte / field for field with an independent serializer. Exploration, not proof: the joint field space is sampled, each single-field sub-space is exhausted.",
   "Trusts harness/ref (written from the serialization guide, anchored by upstream golden vectors) and crypto/sha256; frames violating their own invariants are out of scope.", "DESIGN.md §3 C01"),
}

NOT_YET = {}

def main():
    props = [json.loads(l) for l in open(os.path.join(V, "properties.jsonl"))]
    checks = []
    na = []
    for p in props:
        pid = p["id"]
        if pid in BUILT:
            level, tech, text, note, ref = BUILT[pid]
            checks.append(dict(
                property_id=pid,
                quick_cmd="./check %s --tier quick" % pid,
                thorough_cmd="./check %s --tier thorough" % pid,
                evidence_file="/verif/evidence/%s.json" % pid,
                replay_cmd_template="./check %s --replay {path}" % pid,
                engine="gomavlib-runtime-monitors",
                level_claimed=dict(category=level, text=text, design_ref=ref),
                level_note=note,
                technique=tech))
        else:
            na.append(dict(property_id=pid, reason=NOT_YET.get(pid, "monitor under construction in this session (designed in DESIGN.md §3; not yet registered, so not claimed)")))
    hooks_commits = subprocess.run(["git", "-C", "/repo", "log", "--format=%H", "--grep=^verif:"], capture_output=True, text=True).stdout.split()
    m = dict(
        version=1,
        setup_cmd="./setup.sh",
        hooks=dict(
            guard="verif",
            enable="go build tag: checks build /repo through the harness module (replace => /repo) with `go test -c -tags verif`",
            baseline_off_cmd="cd /repo && GOFLAGS=-mod=mod GOPROXY=off GOSUMDB=off GOTOOLCHAIN=local go test -json -vet=off -count=1 -timeout 25m ./...",
            source_commits=hooks_commits,
            add_only=True),
        engines=[dict(name="gomavlib-runtime-monitors", path="/verif/harness",
                      serves_properties=sorted(BUILT),
                      kind_free_text="Go test binaries (module verifharness, replace gomavlib => /repo, tag verif) run as child processes by /verif/check: reference-model differential monitors, event-stream automata, offline history checkers, fault-injecting transports, Go race detector")],
        checks=checks,
        notes="All checks: ./check <id> [--tier quick|thorough]; VERIF_SEED seeds every random choice; evidence in /verif/evidence/<id>.json; witnesses in /verif/replay/. Known findings: /verif/KNOWN_FINDINGS.json.",
        not_applicable=na)
    json.dump(m, open(os.path.join(V, "MANIFEST.json"), "w"), indent=1)
    print("checks:", len(checks), "not_applicable:", len(na))

main()
