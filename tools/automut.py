#!/usr/bin/env python3
"""Automatic operator mutations of the library, run against the quick checks on scratch copies.

  automut.py plan                      list the mutants (file, line, operator)
  automut.py run [-j N] [--only FILE]  run them (N scratch copies in parallel), results in /var/tmp/am/results.jsonl
  automut.py report                    survivors by file

/repo itself is never touched: every mutant lives in a scratch copy under /var/tmp/am (VERIF_REPO / VERIF_OUT).
A surviving mutant is either an equivalent mutant or a blind spot of the checks; survivors are triaged by hand
(DESIGN.md §7).
"""
import json
import os
import re
import shutil
import subprocess
import sys
import concurrent.futures as cf

V = os.path.dirname(os.path.dirname(os.path.abspath(__file__)))
AM = "/var/tmp/am"
ENV = dict(os.environ, GOFLAGS="-mod=mod", GOPROXY="off", GOSUMDB="off", GOTOOLCHAIN="local")

# library file -> checks that cover it
FILES = {
    "pkg/x25/x25.go": ["C02"],
    "pkg/frame/v1_frame.go": ["C01", "C02", "C05"],
    "pkg/frame/v2_frame.go": ["C01", "C02", "C05", "C06"],
    "pkg/frame/reader.go": ["C02", "C05", "C06", "C07", "C08"],
    "pkg/frame/writer.go": ["C01", "C08", "C09", "C06"],
    "pkg/frame/readwriter.go": ["C09"],
    "pkg/message/readwriter.go": ["C03", "C04", "C17"],
    "pkg/dialect/readwriter.go": ["C17"],
    "pkg/streamwriter/writer.go": ["C09", "C06", "C07"],
    "pkg/tlog/reader.go": ["C20"],
    "pkg/tlog/writer.go": ["C20"],
    "pkg/timednetconn/conn.go": ["C14"],
    "pkg/conversion/conversion.go": ["C18", "C19"],
    "pkg/conversion/definition.go": ["C18"],
    "node.go": ["C10", "C11", "C12", "C08", "C09", "C16"],
    "channel.go": ["C10", "C11", "C12", "C13", "C14", "C16", "C09"],
    "channel_provider.go": ["C12", "C14", "C10"],
    "endpoint_client.go": ["C14", "C12", "C10", "C11"],
    "endpoint_serial.go": ["C14", "C12", "C10", "C11"],
    "endpoint_server.go": ["C14", "C12", "C10"],
    "endpoint_custom.go": ["C12", "C10"],
    "endpoint_broadcast.go": ["C12", "C14", "C10", "C11"],
    "node_heartbeat.go": ["C16", "C12"],
    "node_stream_request.go": ["C16", "C12", "C15", "C10"],
}

OPS = [
    (r"(?<![<>=!])<(?![<=-])", "<="), (r"<=", "<"), (r"(?<![<>=!-])>(?![>=])", ">="), (r">=", ">"),
    (r"==", "!="), (r"!=", "=="), (r"&&", "||"), (r"\|\|", "&&"),
    (r"\+ 1\b", "+ 2"), (r"- 1\b", "- 2"), (r"\b0xFF\b", "0x7F"), (r"\b255\b", "254"), (r"\b0\b", "1"), (r"\b1\b", "2"), (r"\b2\b", "3"),
    (r"\b8\b", "7"), (r"\b16\b", "15"), (r"\b13\b", "12"), (r"\b9\b", "8"), (r"\b5\b", "4"), (r"\b6\b", "5"), (r"\b3\b", "4"),
    (r"\btrue\b", "false"), (r"\bfalse\b", "true"),
    (r"\+\+", "--"), (r"<<", ">>"), (r">>", "<<"), (r"\|=", "&="), (r"&\^", "&"),
]


def plan(only=None):
    out = []
    for f in FILES:
        if only and only not in f:
            continue
        lines = open(os.path.join("/repo", f)).read().split("\n")
        in_block_comment = False
        for ln, line in enumerate(lines):
            st = line.strip()
            if st.startswith("//") or st.startswith("verifPoint(") or not st or st.startswith("import") or st.startswith('"') or "Deprecated" in st:
                continue
            if "fmt.Errorf" in st or "newError(" in st or st.startswith("package") or st.startswith("`"):
                continue
            code = line.split("//")[0]
            # statement deletion (simple statements only)
            if re.match(r"^\s*[\w.\[\]\(\)\*]+(\s*[\+\-\|&]?=\s*.+|\+\+|--|\(.*\))$", code) and not st.startswith(("return", "defer", "go ", "var ", "case", "if", "for", "func", "type", "}")):
                out.append(dict(file=f, line=ln + 1, op="delete", before=st, after=""))
            for pat, rep in OPS:
                for m in re.finditer(pat, code):
                    # skip string literals
                    if code.count('"', 0, m.start()) % 2 == 1 or code.count("`", 0, m.start()) % 2 == 1:
                        continue
                    new = code[:m.start()] + rep + code[m.end():] + line[len(code):]
                    out.append(dict(file=f, line=ln + 1, op="%s->%s" % (m.group(0), rep), col=m.start(), before=st, after=new.strip(), after_full=new))
            # drop a select case on terminate / Done
            if re.match(r"^\s*case <-[\w.()]*(terminate|Done\(\)|done|writerTerminate):", code):
                out.append(dict(file=f, line=ln + 1, op="drop-case", before=st, after=""))
    return out


def apply(root, m):
    p = os.path.join(root, m["file"])
    lines = open(p).read().split("\n")
    i = m["line"] - 1
    if m["op"] == "delete":
        lines[i] = ""
    elif m["op"] == "drop-case":
        # remove the case line and its body up to the next case / closing brace at the same indent
        indent = re.match(r"^\s*", lines[i]).group(0)
        j = i + 1
        while j < len(lines) and not (lines[j].startswith(indent + "case ") or lines[j].startswith(indent + "default:") or lines[j].startswith(indent + "}")):
            j += 1
        del lines[i:j]
    else:
        lines[i] = m["after_full"]
    open(p, "w").write("\n".join(lines))


def run_one(slot, idx, m):
    root = os.path.join(AM, "slot%d" % slot)
    repo = os.path.join(root, "repo")
    out = os.path.join(root, "out")
    shutil.rmtree(root, ignore_errors=True)
    os.makedirs(root)
    subprocess.run(["rsync", "-a", "--exclude", ".git", "/repo/", repo + "/"], check=True)
    res = dict(m, idx=idx)
    try:
        apply(repo, m)
    except Exception as e:  # noqa
        res["status"] = "apply-error"
        res["error"] = str(e)[:200]
        return res
    b = subprocess.run("go build ./... && go build -tags verif ./...", shell=True, cwd=repo, env=ENV, stdout=subprocess.PIPE, stderr=subprocess.STDOUT, text=True)
    if b.returncode != 0:
        res["status"] = "no-build"
        shutil.rmtree(root, ignore_errors=True)
        return res
    env = dict(ENV, VERIF_REPO=repo, VERIF_OUT=out)
    killed_by = None
    tails = {}
    for chk in FILES[m["file"]]:
        try:
            p = subprocess.run(["./check", chk, "--tier", "quick"], cwd=V, env=env, stdout=subprocess.PIPE, stderr=subprocess.STDOUT, text=True, timeout=1500)
        except subprocess.TimeoutExpired:
            killed_by = chk + ":timeout"
            break
        if p.returncode == 1:
            keys = re.findall(r"^  key: (.*)$", p.stdout, re.M)
            killed_by = chk
            res["keys"] = keys[:3]
            break
        if p.returncode == 2:
            # the check could not even complete on this tree: an alarm, but not a localised violation report
            tails[chk] = p.stdout[-300:]
            killed_by = chk + ":harness-error"
            break
    res["status"] = "killed" if killed_by else "survived"
    res["killed_by"] = killed_by
    if tails:
        res["tails"] = tails
    shutil.rmtree(root, ignore_errors=True)
    return res


def main():
    cmd = sys.argv[1]
    only = None
    jobs = 4
    args = sys.argv[2:]
    sample = None
    while args:
        a = args.pop(0)
        if a == "-j":
            jobs = int(args.pop(0))
        elif a == "--only":
            only = args.pop(0)
        elif a == "--sample":
            sample = int(args.pop(0))
    muts = plan(only)
    if cmd == "plan":
        for i, m in enumerate(muts):
            print(i, m["file"], m["line"], m["op"], "|", m["before"][:70])
        print(len(muts), "mutants")
        return
    if cmd == "run":
        os.makedirs(AM, exist_ok=True)
        done = set()
        rp = os.path.join(AM, "results.jsonl")
        if os.path.exists(rp):
            for l in open(rp):
                r = json.loads(l)
                done.add((r["file"], r["line"], r["op"], r.get("col")))
        todo = [(i, m) for i, m in enumerate(muts) if (m["file"], m["line"], m["op"], m.get("col")) not in done]
        if sample:
            import random
            random.Random(7).shuffle(todo)
            todo = todo[:sample]
        print(len(todo), "to run")
        with cf.ThreadPoolExecutor(max_workers=jobs) as ex, open(rp, "a") as f:
            futs = {}
            slots = list(range(jobs))
            it = iter(todo)
            running = {}

            def submit(slot):
                try:
                    i, m = next(it)
                except StopIteration:
                    return
                fut = ex.submit(run_one, slot, i, m)
                running[fut] = slot
            for s in slots:
                submit(s)
            while running:
                for fut in cf.as_completed(list(running)):
                    slot = running.pop(fut)
                    r = fut.result()
                    f.write(json.dumps(r) + "\n")
                    f.flush()
                    print(r["idx"], r["file"], r["line"], r["op"], r["status"], r.get("killed_by"))
                    submit(slot)
                    break
        return
    if cmd == "rerun":
        # run the survivors again (after the checks were strengthened); results replace the old entries
        rp = os.path.join(AM, "results.jsonl")
        rs = [json.loads(l) for l in open(rp)]
        key = lambda r: (r["file"], r["line"], r["op"], r.get("col"))
        surv = {key(r) for r in rs if r["status"] == "survived"}
        todo = [(i, m) for i, m in enumerate(muts) if key(m) in surv]
        print(len(todo), "survivors to run again")
        out = os.path.join(AM, "rerun.jsonl")
        with cf.ThreadPoolExecutor(max_workers=jobs) as ex, open(out, "a") as f:
            # slots must not be shared between concurrent runs: hand them out one by one
            import queue
            q = queue.Queue()
            for s_ in range(jobs):
                q.put(100 + s_)

            def job(i, m):
                s_ = q.get()
                try:
                    return run_one(s_, i, m)
                finally:
                    q.put(s_)
            for fut in cf.as_completed([ex.submit(job, i, m) for i, m in todo]):
                r = fut.result()
                f.write(json.dumps(r) + "\n")
                f.flush()
                print(r["idx"], r["file"], r["line"], r["op"], r["status"], r.get("killed_by"))
        return
    if cmd == "report":
        rs = [json.loads(l) for l in open(os.path.join(AM, "results.jsonl"))]
        rr = os.path.join(AM, "rerun.jsonl")
        if os.path.exists(rr):
            again = {(r["file"], r["line"], r["op"], r.get("col")): r for r in map(json.loads, open(rr))}
            rs = [again.get((r["file"], r["line"], r["op"], r.get("col")), r) for r in rs]
        from collections import Counter
        c = Counter(r["status"] for r in rs)
        print(dict(c))
        for r in rs:
            if r["status"] == "survived":
                print("SURVIVED", r["file"], r["line"], r["op"], "|", r["before"][:90])


if __name__ == "__main__":
    main()
