#!/bin/sh
# Offline setup: prepares the harness module and validates the reference model.
set -e
cd "$(dirname "$0")/harness"
export GOFLAGS=-mod=mod GOPROXY=off GOSUMDB=off GOTOOLCHAIN=local
cp /repo/go.sum go.sum
# the reference model must stand on its external anchors before any check is believed
go test -count=1 ./ref/
# warm the build cache for the monitors (hooks on)
go test -c -tags verif -vet=off -o /dev/null ./codec/
for p in nodeprops genprops; do
  if [ -d "$p" ]; then go test -c -tags verif -vet=off -o /dev/null ./$p/; fi
done
echo "setup ok"
