#!/bin/sh
# Offline setup: prepares the harness module and validates the reference model.
set -e
cd "$(dirname "$0")/harness"
export GOFLAGS=-mod=mod GOPROXY=off GOSUMDB=off GOTOOLCHAIN=local
cp /repo/go.sum go.sum
# the reference model must stand on its external anchors before any check is believed
go test -count=1 ./ref/
# warm the build cache for the monitors (hooks on); failures here are reported by the checks themselves
for p in codec genprops nodeprops; do
  if ls "$p"/*_test.go >/dev/null 2>&1; then
    go test -c -tags verif -vet=off -o /dev/null "./$p/" || echo "warning: monitor package $p does not build"
  fi
done
(go test -c -race -tags verif -vet=off -o /dev/null ./nodeprops/ || true) 2>/dev/null
echo "setup ok"
