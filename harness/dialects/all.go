// Package dialects enumerates every dialect shipped with gomavlib.
package dialects

import (
	"reflect"
	"sort"

	"github.com/bluenviron/gomavlib/v3/pkg/dialect"
	d_all "github.com/bluenviron/gomavlib/v3/pkg/dialects/all"
	d_ardupilotmega "github.com/bluenviron/gomavlib/v3/pkg/dialects/ardupilotmega"
	d_asluav "github.com/bluenviron/gomavlib/v3/pkg/dialects/asluav"
	d_avssuas "github.com/bluenviron/gomavlib/v3/pkg/dialects/avssuas"
	d_common "github.com/bluenviron/gomavlib/v3/pkg/dialects/common"
	d_csairlink "github.com/bluenviron/gomavlib/v3/pkg/dialects/csairlink"
	d_cubepilot "github.com/bluenviron/gomavlib/v3/pkg/dialects/cubepilot"
	d_development "github.com/bluenviron/gomavlib/v3/pkg/dialects/development"
	d_icarous "github.com/bluenviron/gomavlib/v3/pkg/dialects/icarous"
	d_loweheiser "github.com/bluenviron/gomavlib/v3/pkg/dialects/loweheiser"
	d_matrixpilot "github.com/bluenviron/gomavlib/v3/pkg/dialects/matrixpilot"
	d_minimal "github.com/bluenviron/gomavlib/v3/pkg/dialects/minimal"
	d_paparazzi "github.com/bluenviron/gomavlib/v3/pkg/dialects/paparazzi"
	d_pythonarraytest "github.com/bluenviron/gomavlib/v3/pkg/dialects/pythonarraytest"
	d_standard "github.com/bluenviron/gomavlib/v3/pkg/dialects/standard"
	d_storm32 "github.com/bluenviron/gomavlib/v3/pkg/dialects/storm32"
	d_test "github.com/bluenviron/gomavlib/v3/pkg/dialects/test"
	d_ualberta "github.com/bluenviron/gomavlib/v3/pkg/dialects/ualberta"
	d_uavionix "github.com/bluenviron/gomavlib/v3/pkg/dialects/uavionix"
	"github.com/bluenviron/gomavlib/v3/pkg/message"
)

// Named is a shipped dialect with its package name.
type Named struct {
	Name    string
	Dialect *dialect.Dialect
}

// All returns the 19 shipped dialects in alphabetical order.
func All() []Named {
	return []Named{
		{"all", d_all.Dialect},
		{"ardupilotmega", d_ardupilotmega.Dialect},
		{"asluav", d_asluav.Dialect},
		{"avssuas", d_avssuas.Dialect},
		{"common", d_common.Dialect},
		{"csairlink", d_csairlink.Dialect},
		{"cubepilot", d_cubepilot.Dialect},
		{"development", d_development.Dialect},
		{"icarous", d_icarous.Dialect},
		{"loweheiser", d_loweheiser.Dialect},
		{"matrixpilot", d_matrixpilot.Dialect},
		{"minimal", d_minimal.Dialect},
		{"paparazzi", d_paparazzi.Dialect},
		{"pythonarraytest", d_pythonarraytest.Dialect},
		{"standard", d_standard.Dialect},
		{"storm32", d_storm32.Dialect},
		{"test", d_test.Dialect},
		{"ualberta", d_ualberta.Dialect},
		{"uavionix", d_uavionix.Dialect},
	}
}

// TypeName returns "pkg.Type" of a message.
func TypeName(m message.Message) string {
	t := reflect.TypeOf(m).Elem()
	p := t.PkgPath()
	for i := len(p) - 1; i >= 0; i-- {
		if p[i] == '/' {
			p = p[i+1:]
			break
		}
	}
	return p + "." + t.Name()
}

// UniqueMessages returns one instance of every distinct message struct type
// of all shipped dialects, sorted by type name.
func UniqueMessages() []message.Message {
	seen := map[reflect.Type]message.Message{}
	for _, d := range All() {
		for _, m := range d.Dialect.Messages {
			t := reflect.TypeOf(m).Elem()
			if _, ok := seen[t]; !ok {
				seen[t] = m
			}
		}
	}
	out := make([]message.Message, 0, len(seen))
	for _, m := range seen {
		out = append(out, m)
	}
	sort.Slice(out, func(i, j int) bool { return TypeName(out[i]) < TypeName(out[j]) })
	return out
}
