package ref

import (
	"crypto/sha256"
)

// FrameSpec is a MAVLink frame as flat values.
type FrameSpec struct {
	Version   int // 1 or 2
	Incompat  byte
	Compat    byte
	Seq       byte
	Sys       byte
	Comp      byte
	MsgID     uint32
	Payload   []byte
	Checksum  uint16
	Signed    bool // v2 only: signature block present (incompat bit 0)
	LinkID    byte
	Timestamp uint64 // 48 bit
	Signature [6]byte
}

// WireLen returns the number of bytes Serialize produces.
func (f *FrameSpec) WireLen() int {
	if f.Version == 1 {
		return 6 + len(f.Payload) + 2
	}
	n := 10 + len(f.Payload) + 2
	if f.Signed {
		n += 13
	}
	return n
}

// Serialize lays the frame out as the serialization guide describes.
//
//	v1: FE len seq sys comp id payload ckL ckH
//	v2: FD len incompat compat seq sys comp id0 id1 id2 payload ckL ckH [link ts0..ts5 sig0..sig5]
func Serialize(f *FrameSpec) []byte {
	out := make([]byte, 0, f.WireLen())
	if f.Version == 1 {
		out = append(out, 0xFE, byte(len(f.Payload)), f.Seq, f.Sys, f.Comp, byte(f.MsgID))
	} else {
		out = append(out, 0xFD, byte(len(f.Payload)), f.Incompat, f.Compat, f.Seq, f.Sys, f.Comp,
			byte(f.MsgID&0xFF), byte((f.MsgID>>8)&0xFF), byte((f.MsgID>>16)&0xFF))
	}
	out = append(out, f.Payload...)
	out = append(out, byte(f.Checksum&0xFF), byte(f.Checksum>>8))
	if f.Version == 2 && f.Signed {
		out = append(out, f.LinkID)
		for i := 0; i < 6; i++ {
			out = append(out, byte((f.Timestamp>>(8*uint(i)))&0xFF))
		}
		out = append(out, f.Signature[:]...)
	}
	return out
}

// ParseStatus is the outcome of ParseAt.
type ParseStatus int

// Parse outcomes.
const (
	ParseOK         ParseStatus = iota
	ParseNoMarker               // byte at off is neither 0xFE nor 0xFD
	ParseIncomplete             // marker present but the buffer ends before the frame does
	ParseBadFlags               // v2 incompat flags other than 0 / signed
)

// ParseAt reads one frame structurally at buf[off:], without validating checksum or signature.
func ParseAt(buf []byte, off int) (*FrameSpec, int, ParseStatus) {
	if off >= len(buf) {
		return nil, 0, ParseIncomplete
	}
	rest := buf[off:]
	switch rest[0] {
	case 0xFE:
		if len(rest) < 6 {
			return nil, 0, ParseIncomplete
		}
		plen := int(rest[1])
		total := 6 + plen + 2
		if len(rest) < total {
			return nil, 0, ParseIncomplete
		}
		f := &FrameSpec{Version: 1, Seq: rest[2], Sys: rest[3], Comp: rest[4], MsgID: uint32(rest[5])}
		f.Payload = append([]byte(nil), rest[6:6+plen]...)
		f.Checksum = uint16(rest[6+plen]) | uint16(rest[7+plen])<<8
		return f, total, ParseOK
	case 0xFD:
		if len(rest) < 10 {
			return nil, 0, ParseIncomplete
		}
		plen := int(rest[1])
		inc := rest[2]
		if inc != 0 && inc != 1 {
			return nil, 0, ParseBadFlags
		}
		total := 10 + plen + 2
		if inc&1 != 0 {
			total += 13
		}
		if len(rest) < total {
			return nil, 0, ParseIncomplete
		}
		f := &FrameSpec{
			Version: 2, Incompat: inc, Compat: rest[3], Seq: rest[4], Sys: rest[5], Comp: rest[6],
			MsgID: uint32(rest[7]) | uint32(rest[8])<<8 | uint32(rest[9])<<16,
		}
		f.Payload = append([]byte(nil), rest[10:10+plen]...)
		f.Checksum = uint16(rest[10+plen]) | uint16(rest[11+plen])<<8
		if inc&1 != 0 {
			f.Signed = true
			s := rest[12+plen:]
			f.LinkID = s[0]
			for i := 0; i < 6; i++ {
				f.Timestamp |= uint64(s[1+i]) << (8 * uint(i))
			}
			copy(f.Signature[:], s[7:13])
		}
		return f, total, ParseOK
	}
	return nil, 0, ParseNoMarker
}

// ChecksumOfWire computes the frame checksum from the wire image of one whole
// frame: CRC over wire[1 : headerLen+payloadLen] followed by crcExtra.
func ChecksumOfWire(wire []byte, crcExtra byte) uint16 {
	var end int
	if wire[0] == 0xFE {
		end = 6 + int(wire[1])
	} else {
		end = 10 + int(wire[1])
	}
	c := CRC16(wire[1:end])
	return CRC16Update(c, []byte{crcExtra})
}

// SignatureOfWire computes the 6-byte signature of a signed v2 frame from its
// wire image: first 48 bits of SHA-256(key | frame bytes up to and including the timestamp).
func SignatureOfWire(key []byte, wire []byte) [6]byte {
	h := sha256.New()
	h.Write(key)
	h.Write(wire[:len(wire)-6])
	var out [6]byte
	copy(out[:], h.Sum(nil)[:6])
	return out
}

// Seal fills checksum (with crcExtra) and, if Signed, the signature with key.
func Seal(f *FrameSpec, crcExtra byte, key []byte) {
	if f.Version == 2 && f.Signed {
		f.Incompat |= 1
	}
	w := Serialize(f)
	f.Checksum = ChecksumOfWire(w, crcExtra)
	if f.Version == 2 && f.Signed {
		w = Serialize(f)
		f.Signature = SignatureOfWire(key, w)
	}
}
