package ref

import (
	"fmt"
	"sort"
	"strings"
)

// XField is a <field> of a dialect definition.
type XField struct {
	Type     string // uint8_t, int16_t, float, double, char, uint8_t_mavlink_version
	ArrayLen int    // 0: scalar; n: type[n]
	Name     string
	Enum     string
	Ext      bool
}

// XMessage is a <message>.
type XMessage struct {
	ID     uint32
	Name   string
	Fields []XField
}

// XEnumEntry is an <entry>.
type XEnumEntry struct {
	Name      string
	ValueText string // as written in the XML (decimal, 0x.., 0b.., a**b)
	Value     uint64
}

// XEnum is an <enum>.
type XEnum struct {
	Name    string
	Bitmask bool
	Entries []XEnumEntry
}

// XDialect is one definition file.
type XDialect struct {
	File     string // e.g. "vfd_3.xml"
	Version  string // "" = absent
	Includes []string
	Enums    []XEnum
	Messages []XMessage
}

var xmlTypeSize = map[string]int{
	"double": 8, "uint64_t": 8, "int64_t": 8, "float": 4, "uint32_t": 4, "int32_t": 4,
	"uint16_t": 2, "int16_t": 2, "uint8_t": 1, "int8_t": 1, "char": 1, "uint8_t_mavlink_version": 1,
}

// XLayoutField is a field placed in the wire layout.
type XLayoutField struct {
	DeclIndex int
	XField
	ElemSize int
	Count    int
	Offset   int
}

// XLayout is the spec layout of an XML message.
type XLayout struct {
	Fields   []XLayoutField
	SizeBase int
	SizeExt  int
	CRCExtra byte
}

// LayoutFromXML derives wire order, sizes and CRC_EXTRA from the XML definition of a message,
// as the MAVLink serialization guide and mavgen do.
func LayoutFromXML(m *XMessage) (*XLayout, error) {
	var base, ext []XLayoutField
	for i, f := range m.Fields {
		sz, ok := xmlTypeSize[f.Type]
		if !ok {
			return nil, fmt.Errorf("unknown type %q", f.Type)
		}
		lf := XLayoutField{DeclIndex: i, XField: f, ElemSize: sz, Count: 1}
		if f.ArrayLen > 0 {
			lf.Count = f.ArrayLen
		}
		if f.Ext {
			ext = append(ext, lf)
		} else {
			base = append(base, lf)
		}
	}
	sort.SliceStable(base, func(i, j int) bool { return base[i].ElemSize > base[j].ElemSize })
	l := &XLayout{}
	off := 0
	for i := range base {
		base[i].Offset = off
		off += base[i].ElemSize * base[i].Count
	}
	l.SizeBase = off
	for i := range ext {
		ext[i].Offset = off
		off += ext[i].ElemSize * ext[i].Count
	}
	l.SizeExt = off
	l.Fields = append(base, ext...)
	seed := []byte(m.Name + " ")
	for _, f := range base {
		t := f.Type
		if t == "uint8_t_mavlink_version" {
			t = "uint8_t"
		}
		seed = append(seed, []byte(t+" ")...)
		seed = append(seed, []byte(f.Name+" ")...)
		if f.ArrayLen > 0 {
			seed = append(seed, byte(f.ArrayLen))
		}
	}
	c := CRC16(seed)
	l.CRCExtra = byte(c&0xFF) ^ byte(c>>8)
	return l, nil
}

// EncodeXML encodes sample values given per (declaration index, element) bit patterns / strings.
func (l *XLayout) EncodeXML(v2 bool, bits func(decl, elem int) uint64, str func(decl int) string) []byte {
	size := l.SizeBase
	if v2 {
		size = l.SizeExt
	}
	out := make([]byte, size)
	for _, f := range l.Fields {
		if f.Ext && !v2 {
			continue
		}
		if f.Type == "char" {
			s := str(f.DeclIndex)
			for k := 0; k < f.Count && k < len(s); k++ {
				out[f.Offset+k] = s[k]
			}
			continue
		}
		for k := 0; k < f.Count; k++ {
			putLE(out[f.Offset+k*f.ElemSize:], bits(f.DeclIndex, k), f.ElemSize)
		}
	}
	if v2 {
		return Truncate(out)
	}
	return out
}

// RenderXML writes the definition as MAVLink XML.
func RenderXML(d *XDialect) string {
	var sb strings.Builder
	sb.WriteString("<?xml version=\"1.0\"?>\n<mavlink>\n")
	for _, inc := range d.Includes {
		fmt.Fprintf(&sb, "  <include>%s</include>\n", inc)
	}
	if d.Version != "" {
		fmt.Fprintf(&sb, "  <version>%s</version>\n", d.Version)
	}
	sb.WriteString("  <dialect>0</dialect>\n")
	if len(d.Enums) > 0 {
		sb.WriteString("  <enums>\n")
		for _, e := range d.Enums {
			bm := ""
			if e.Bitmask {
				bm = ` bitmask="true"`
			}
			fmt.Fprintf(&sb, "    <enum name=%q%s>\n      <description>enum %s.</description>\n", e.Name, bm, e.Name)
			for _, en := range e.Entries {
				fmt.Fprintf(&sb, "      <entry value=%q name=%q>\n        <description>entry.</description>\n      </entry>\n", en.ValueText, en.Name)
			}
			sb.WriteString("    </enum>\n")
		}
		sb.WriteString("  </enums>\n")
	}
	sb.WriteString("  <messages>\n")
	for _, m := range d.Messages {
		fmt.Fprintf(&sb, "    <message id=\"%d\" name=%q>\n      <description>message %s.</description>\n", m.ID, m.Name, m.Name)
		ext := false
		for _, f := range m.Fields {
			if f.Ext && !ext {
				ext = true
				sb.WriteString("      <extensions/>\n")
			}
			t := f.Type
			if f.ArrayLen > 0 {
				t = fmt.Sprintf("%s[%d]", f.Type, f.ArrayLen)
			}
			en := ""
			if f.Enum != "" {
				en = fmt.Sprintf(" enum=%q", f.Enum)
			}
			fmt.Fprintf(&sb, "      <field type=%q name=%q%s>field %s</field>\n", t, f.Name, en, f.Name)
		}
		sb.WriteString("    </message>\n")
	}
	sb.WriteString("  </messages>\n</mavlink>\n")
	return sb.String()
}
