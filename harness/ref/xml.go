package ref

import (
	"fmt"
	"sort"
	"strings"
)

// XField is a <field> of a dialect definition.
type XField struct {
	Type     string // uint8_t, int16_t, float, double, char, uint8_t_mavlink_version
	ArrayLen int    // 0: scalar; n: type[n]
	Name     string
	Enum     string
	Ext      bool
}

// XMessage is a <message>.
type XMessage struct {
	ID     uint32
	Name   string
	Fields []XField
}

// XEnumEntry is an <entry>.
type XEnumEntry struct {
	Name      string
	ValueText string // as written in the XML (decimal, 0x.., 0b.., a**b)
	Value     uint64
}

// XEnum is an <enum>.
type XEnum struct {
	Name    string
	Bitmask bool
	Entries []XEnumEntry
}

// XDialect is one definition file.
type XDialect struct {
	Noise    uint64 // != 0: decorate the XML with the optional attributes / elements real definitions carry
	File     string // e.g. "vfd_3.xml"
	Version  string // "" = absent
	Includes []string
	Enums    []XEnum
	Messages []XMessage
}

var xmlTypeSize = map[string]int{
	"double": 8, "uint64_t": 8, "int64_t": 8, "float": 4, "uint32_t": 4, "int32_t": 4,
	"uint16_t": 2, "int16_t": 2, "uint8_t": 1, "int8_t": 1, "char": 1, "uint8_t_mavlink_version": 1,
}

// XLayoutField is a field placed in the wire layout.
type XLayoutField struct {
	DeclIndex int
	XField
	ElemSize int
	Count    int
	Offset   int
}

// XLayout is the spec layout of an XML message.
type XLayout struct {
	Fields   []XLayoutField
	SizeBase int
	SizeExt  int
	CRCExtra byte
}

// LayoutFromXML derives wire order, sizes and CRC_EXTRA from the XML definition of a message,
// as the MAVLink serialization guide and mavgen do.
func LayoutFromXML(m *XMessage) (*XLayout, error) {
	var base, ext []XLayoutField
	for i, f := range m.Fields {
		sz, ok := xmlTypeSize[f.Type]
		if !ok {
			return nil, fmt.Errorf("unknown type %q", f.Type)
		}
		lf := XLayoutField{DeclIndex: i, XField: f, ElemSize: sz, Count: 1}
		if f.ArrayLen > 0 {
			lf.Count = f.ArrayLen
		}
		if f.Ext {
			ext = append(ext, lf)
		} else {
			base = append(base, lf)
		}
	}
	sort.SliceStable(base, func(i, j int) bool { return base[i].ElemSize > base[j].ElemSize })
	l := &XLayout{}
	off := 0
	for i := range base {
		base[i].Offset = off
		off += base[i].ElemSize * base[i].Count
	}
	l.SizeBase = off
	for i := range ext {
		ext[i].Offset = off
		off += ext[i].ElemSize * ext[i].Count
	}
	l.SizeExt = off
	l.Fields = append(base, ext...)
	seed := []byte(m.Name + " ")
	for _, f := range base {
		t := f.Type
		if t == "uint8_t_mavlink_version" {
			t = "uint8_t"
		}
		seed = append(seed, []byte(t+" ")...)
		seed = append(seed, []byte(f.Name+" ")...)
		if f.ArrayLen > 0 {
			seed = append(seed, byte(f.ArrayLen))
		}
	}
	c := CRC16(seed)
	l.CRCExtra = byte(c&0xFF) ^ byte(c>>8)
	return l, nil
}

// EncodeXML encodes sample values given per (declaration index, element) bit patterns / strings.
func (l *XLayout) EncodeXML(v2 bool, bits func(decl, elem int) uint64, str func(decl int) string) []byte {
	size := l.SizeBase
	if v2 {
		size = l.SizeExt
	}
	out := make([]byte, size)
	for _, f := range l.Fields {
		if f.Ext && !v2 {
			continue
		}
		if f.Type == "char" {
			s := str(f.DeclIndex)
			for k := 0; k < f.Count && k < len(s); k++ {
				out[f.Offset+k] = s[k]
			}
			continue
		}
		for k := 0; k < f.Count; k++ {
			putLE(out[f.Offset+k*f.ElemSize:], bits(f.DeclIndex, k), f.ElemSize)
		}
	}
	if v2 {
		return Truncate(out)
	}
	return out
}

// RenderXML writes the definition as MAVLink XML. With d.Noise != 0 the output carries the optional
// attributes and elements of real-world definitions (units, instance, display, print_format, invalid,
// multi-line descriptions, <deprecated>, <wip/>, <param> inside entries, comments), none of which
// changes what the definition means.
func RenderXML(d *XDialect) string {
	var sb strings.Builder
	ns := d.Noise
	noise := func(n uint64) bool {
		if d.Noise == 0 {
			return false
		}
		ns = ns*6364136223846793005 + 1442695040888963407
		return (ns>>33)%n == 0
	}
	sb.WriteString("<?xml version=\"1.0\"?>\n<mavlink>\n")
	if noise(2) {
		sb.WriteString("  <!-- generated definition: comments must be ignored -->\n")
	}
	for _, inc := range d.Includes {
		fmt.Fprintf(&sb, "  <include>%s</include>\n", inc)
	}
	if d.Version != "" {
		fmt.Fprintf(&sb, "  <version>%s</version>\n", d.Version)
	}
	sb.WriteString("  <dialect>0</dialect>\n")
	if len(d.Enums) > 0 {
		sb.WriteString("  <enums>\n")
		for _, e := range d.Enums {
			// the attribute is an xs:boolean: "true" / "1" and "false" / "0" (or absent) are the same declarations
			bm := ""
			if e.Bitmask {
				bm = ` bitmask="true"`
				if noise(2) {
					bm = ` bitmask="1"`
				}
			} else if noise(3) {
				bm = ` bitmask="false"`
				if noise(2) {
					bm = ` bitmask="0"`
				}
			}
			fmt.Fprintf(&sb, "    <enum name=%q%s>\n      <description>enum %s.</description>\n", e.Name, bm, e.Name)
			if noise(4) {
				sb.WriteString("      <deprecated since=\"2020-01\" replaced_by=\"NOTHING\">old enum</deprecated>\n")
			}
			for _, en := range e.Entries {
				switch {
				case noise(4):
					fmt.Fprintf(&sb, "      <entry value=%q name=%q hasLocation=\"false\" isDestination=\"false\">\n        <description>entry with params.\n          second line.</description>\n        <param index=\"1\" label=\"P1\" units=\"s\" minValue=\"0\">first parameter</param>\n        <param index=\"2\">Empty</param>\n      </entry>\n", en.ValueText, en.Name)
				case noise(5):
					fmt.Fprintf(&sb, "      <entry value=%q name=%q/>\n", en.ValueText, en.Name)
				case noise(6):
					fmt.Fprintf(&sb, "      <entry name=%q value=%q>\n        <wip/>\n        <description>work in progress &amp; more.</description>\n      </entry>\n", en.Name, en.ValueText)
				default:
					fmt.Fprintf(&sb, "      <entry value=%q name=%q>\n        <description>entry.</description>\n      </entry>\n", en.ValueText, en.Name)
				}
			}
			sb.WriteString("    </enum>\n")
		}
		sb.WriteString("  </enums>\n")
	}
	sb.WriteString("  <messages>\n")
	for _, m := range d.Messages {
		if noise(5) {
			fmt.Fprintf(&sb, "    <!-- %s -->\n", m.Name)
		}
		fmt.Fprintf(&sb, "    <message id=\"%d\" name=%q>\n", m.ID, m.Name)
		if noise(5) {
			sb.WriteString("      <wip/>\n")
		}
		if noise(6) {
			sb.WriteString("      <deprecated since=\"2019-04\" replaced_by=\"OTHER\"/>\n")
		}
		if noise(3) {
			fmt.Fprintf(&sb, "      <description>message %s.\n        A second line with &lt;markup&gt; and \"quotes\".\n      </description>\n", m.Name)
		} else {
			fmt.Fprintf(&sb, "      <description>message %s.</description>\n", m.Name)
		}
		ext := false
		for fi, f := range m.Fields {
			if noise(7) {
				// a retired field / an old extensions marker kept as a comment, text that looks like markup inside CDATA: none of
				// it is part of the definition
				switch fi % 3 {
				case 0:
					sb.WriteString("      <!-- <field type=\"uint8_t\" name=\"retired\">no longer sent</field> -->\n")
				case 1:
					sb.WriteString("      <!-- <extensions/> used to be here -->\n")
				case 2:
					sb.WriteString("      <!-- <field type=\"uint32_t[4]\" name=\"old_a\">a</field>\n           <field type=\"float\" name=\"old_b\">b</field> -->\n")
				}
			}
			if f.Ext && !ext {
				ext = true
				switch {
				case noise(4):
					sb.WriteString("      <extensions></extensions>\n")
				case noise(4):
					sb.WriteString("      <extensions />\n")
				default:
					sb.WriteString("      <extensions/>\n")
				}
			}
			t := f.Type
			if f.ArrayLen > 0 {
				t = fmt.Sprintf("%s[%d]", f.Type, f.ArrayLen)
			}
			en := ""
			if f.Enum != "" {
				en = fmt.Sprintf(" enum=%q", f.Enum)
			}
			attrs := ""
			if noise(3) {
				attrs += " units=\"m/s\""
			}
			if noise(6) {
				attrs += " instance=\"true\""
			}
			if noise(6) {
				attrs += " invalid=\"UINT16_MAX\""
			}
			if noise(8) {
				attrs += " print_format=\"0x%04x\" display=\"bitmask\""
			}
			if noise(8) {
				attrs += " minValue=\"0\" maxValue=\"100\" increment=\"1\" default=\"0\" multiplier=\"1E-2\""
			}
			desc := "field " + f.Name
			if noise(5) {
				desc = "field " + f.Name + " (see <a href=\"x\">doc</a>),\n        continued on a second line"
			} else if noise(5) {
				// character references, a line break among them: still nothing but a description
				desc = "field " + f.Name + " &#8211; first line&#10;Reserved [4]uint8&#xA;&amp; a third &lt;line&gt;&#13;&#10;end"
			}
			if noise(2) {
				fmt.Fprintf(&sb, "      <field type=%q name=%q%s%s>%s</field>\n", t, f.Name, en, attrs, desc)
			} else {
				fmt.Fprintf(&sb, "      <field%s name=%q type=%q%s>%s</field>\n", attrs, f.Name, t, en, desc)
			}
		}
		sb.WriteString("    </message>\n")
	}
	sb.WriteString("  </messages>\n</mavlink>\n")
	return sb.String()
}
