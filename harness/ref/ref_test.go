package ref_test

import (
	"bytes"
	"encoding/hex"
	"reflect"
	"sort"
	"testing"

	"github.com/bluenviron/gomavlib/v3/pkg/dialects/common"
	"github.com/bluenviron/gomavlib/v3/pkg/dialects/test"

	"verifharness/ref"
)

// The reference model must stand on anchors outside gomavlib. A broken reference
// has to fail here (at setup), not show up as alarms.

func TestCRCCheckValue(t *testing.T) {
	// CRC-16/MCRF4XX check value from the CRC catalogue
	if got := ref.CRC16([]byte("123456789")); got != 0x6F91 {
		t.Fatalf("check value: got %04x", got)
	}
	if got := ref.CRC16(nil); got != 0xFFFF {
		t.Fatalf("empty: got %04x", got)
	}
	// bijection of 2-byte prefixes onto states (used by the exhaustive C02 sweep)
	seen := make([]bool, 65536)
	for a := 0; a < 256; a++ {
		for b := 0; b < 256; b++ {
			seen[ref.CRC16([]byte{byte(a), byte(b)})] = true
		}
	}
	for s, ok := range seen {
		if !ok {
			t.Fatalf("state %04x not reached by a 2-byte prefix", s)
		}
	}
}

type MessageHeartbeat struct {
	Type           uint64 `mavenum:"uint8"`
	Autopilot      uint64 `mavenum:"uint8"`
	BaseMode       uint64 `mavenum:"uint8"`
	CustomMode     uint32
	SystemStatus   uint64 `mavenum:"uint8"`
	MavlinkVersion uint8
}

func (*MessageHeartbeat) GetID() uint32 { return 0 }

type MessageOpticalFlow struct {
	TimeUsec       uint64
	SensorId       uint8
	FlowX          int16
	FlowY          int16
	FlowCompMX     float32
	FlowCompMY     float32
	Quality        uint8
	GroundDistance float32
	FlowRateX      float32 `mavext:"true"`
	FlowRateY      float32 `mavext:"true"`
}

func (*MessageOpticalFlow) GetID() uint32 { return 100 }

func TestGoldenFrames(t *testing.T) {
	// byte vectors of the upstream suite (pkg/frame/reader_test.go casesReadWrite)
	key := bytes.Repeat([]byte{0x4F}, 32)

	// v2 signed heartbeat
	wire, _ := hex.DecodeString("fd09010000000000" + "0000040000000102" + "030503d9d1010200" + "000000000e47040cef9b")
	f, n, st := ref.ParseAt(wire, 0)
	if st != ref.ParseOK || n != len(wire) {
		t.Fatalf("parse: %v %d", st, n)
	}
	if !f.Signed || f.LinkID != 1 || f.Timestamp != 2 || f.MsgID != 0 || f.Checksum != 0xd1d9 {
		t.Fatalf("fields: %+v", f)
	}
	if !bytes.Equal(ref.Serialize(f), wire) {
		t.Fatalf("serialize mismatch")
	}
	if got := ref.ChecksumOfWire(wire, 50); got != 0xd1d9 {
		t.Fatalf("checksum: %04x", got)
	}
	if got := ref.SignatureOfWire(key, wire); got != [6]byte{0x0e, 0x47, 0x04, 0x0c, 0xef, 0x9b} {
		t.Fatalf("signature: %x", got)
	}
	l, err := ref.LayoutOf(reflect.TypeOf(MessageHeartbeat{}))
	if err != nil || l.CRCExtra != 50 || l.SizeBase != 9 {
		t.Fatalf("heartbeat layout: %v %+v", err, l)
	}
	hb := &MessageHeartbeat{Type: 1, Autopilot: 2, BaseMode: 3, CustomMode: 4, SystemStatus: 5, MavlinkVersion: 3}
	if got := l.Encode(reflect.ValueOf(hb), true); !bytes.Equal(got, f.Payload) {
		t.Fatalf("heartbeat payload: %x vs %x", got, f.Payload)
	}
	dec, err := l.Decode(f.Payload, true)
	if err != nil || !reflect.DeepEqual(dec.Interface(), hb) {
		t.Fatalf("heartbeat decode: %v %+v", err, dec.Interface())
	}

	// v1 frame, raw
	wire1, _ := hex.DecodeString("fe05270102081010101010fac7")
	f1, n1, st1 := ref.ParseAt(wire1, 0)
	if st1 != ref.ParseOK || n1 != len(wire1) || f1.Version != 1 || f1.Seq != 0x27 || f1.Sys != 1 || f1.Comp != 2 ||
		f1.MsgID != 8 || f1.Checksum != 0xc7fa || !bytes.Equal(ref.Serialize(f1), wire1) {
		t.Fatalf("v1: %+v", f1)
	}

	// optical flow (extensions, truncation): layout anchored by published CRC_EXTRA 175
	lo, err := ref.LayoutOf(reflect.TypeOf(MessageOpticalFlow{}))
	if err != nil || lo.CRCExtra != 175 || lo.SizeBase != 26 || lo.SizeExt != 34 {
		t.Fatalf("optical flow layout: %v %+v", err, lo)
	}
	of := &MessageOpticalFlow{TimeUsec: 1, SensorId: 2, FlowX: 3, FlowY: 4, FlowCompMX: 5, FlowCompMY: 6, Quality: 7, GroundDistance: 8, FlowRateY: 1}
	want, _ := hex.DecodeString("0100000000000000" + "0000a040" + "0000c040" + "00000041" + "0300" + "0400" + "02" + "07" + "00000000" + "0000803f")
	if got := lo.Encode(reflect.ValueOf(of), true); !bytes.Equal(got, want) {
		t.Fatalf("optical flow payload: %x", got)
	}
}

func TestGoldenCRCExtra(t *testing.T) {
	// every entry of the published table must be reproduced by the reference layout
	// derivation applied to the shipped `common` definitions.
	byID := map[uint32]reflect.Type{}
	for _, m := range common.Dialect.Messages {
		byID[m.GetID()] = reflect.TypeOf(m).Elem()
	}
	var missing, wrong []uint32
	for id, want := range ref.GoldenCRCExtra {
		typ, ok := byID[id]
		if !ok {
			missing = append(missing, id)
			continue
		}
		l, err := ref.LayoutOf(typ)
		if err != nil {
			t.Fatalf("layout of %v: %v", typ, err)
		}
		if l.CRCExtra != want {
			wrong = append(wrong, id)
			t.Logf("id %d (%s): reference %d, table %d", id, l.Name, l.CRCExtra, want)
		}
	}
	sort.Slice(wrong, func(i, j int) bool { return wrong[i] < wrong[j] })
	sort.Slice(missing, func(i, j int) bool { return missing[i] < missing[j] })
	if len(wrong) > 0 {
		t.Fatalf("reference disagrees with the published table for ids %v", wrong)
	}
	if len(missing) > 0 {
		t.Fatalf("table ids not in shipped common: %v", missing)
	}
	if len(ref.GoldenCRCExtra) < 150 {
		t.Fatalf("golden table too small: %d", len(ref.GoldenCRCExtra))
	}
	// TEST_TYPES: published 103 (scalar char hashes no length byte)
	l, err := ref.LayoutOf(reflect.TypeOf(test.MessageTestTypes{}))
	if err != nil || l.CRCExtra != ref.GoldenTestTypesCRCExtra {
		t.Fatalf("TEST_TYPES: %v %d", err, l.CRCExtra)
	}
}

func TestNames(t *testing.T) {
	for goName, want := range map[string]string{
		"Heartbeat": "HEARTBEAT", "Gps2Raw": "GPS2_RAW", "EscTelemetry_1To_4": "ESC_TELEMETRY_1_TO_4",
		"V2Extension": "V2_EXTENSION", "AMessage": "A_MESSAGE",
	} {
		if got := ref.GoMessageToWire(goName); got != want {
			t.Errorf("%s: got %s want %s", goName, got, want)
		}
	}
	for goName, want := range map[string]string{"TimeUsec": "time_usec", "Q1": "q1", "Vx": "vx", "Param_1": "param_1", "SensorId": "sensor_id"} {
		if got := ref.GoFieldToWire(goName); got != want {
			t.Errorf("%s: got %s want %s", goName, got, want)
		}
	}
}
