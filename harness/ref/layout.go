package ref

import (
	"fmt"
	"math"
	"reflect"
	"sort"
	"strconv"
	"strings"
	"unicode"
)

// Field is one message field in the reference layout.
type Field struct {
	GoIndex  int
	GoName   string
	WireName string // name used in the XML definition
	WireType string // uint8_t, int16_t, float, double, char, ...
	ElemSize int    // size of the primitive type
	Count    int    // number of elements on the wire (array length, string length, 1 for scalars)
	IsArray  bool   // Go array
	IsString bool   // Go string (char / char[n])
	HasLen   bool   // contributes a length byte to CRC_EXTRA (arrays and char[n], not scalar char)
	IsEnum   bool
	Ext      bool
	Offset   int // offset in the untruncated v2 payload
}

// Size returns the number of payload bytes of the field.
func (f *Field) Size() int { return f.ElemSize * f.Count }

// Layout is the wire layout of a message derived from its definition.
type Layout struct {
	Name     string // MAVLink message name (upper snake)
	Type     reflect.Type
	Fields   []Field // in wire order: sorted base fields, then extensions
	SizeBase int
	SizeExt  int
	CRCExtra byte
}

var primitive = map[string]struct {
	wire string
	size int
}{
	"float64": {"double", 8},
	"uint64":  {"uint64_t", 8},
	"int64":   {"int64_t", 8},
	"float32": {"float", 4},
	"uint32":  {"uint32_t", 4},
	"int32":   {"int32_t", 4},
	"uint16":  {"uint16_t", 2},
	"int16":   {"int16_t", 2},
	"uint8":   {"uint8_t", 1},
	"int8":    {"int8_t", 1},
	"string":  {"char", 1},
}

// GoFieldToWire inverts the generator's snake_case -> CamelCase field naming.
func GoFieldToWire(goName string) string {
	var sb strings.Builder
	for i, r := range goName {
		if unicode.IsUpper(r) {
			if i != 0 {
				sb.WriteByte('_')
			}
			sb.WriteRune(unicode.ToLower(r))
		} else {
			sb.WriteRune(r)
		}
	}
	return sb.String()
}

// GoMessageToWire inverts the generator's UPPER_SNAKE -> CamelCase message naming
// (the argument is the struct name without the "Message" prefix).
func GoMessageToWire(goName string) string {
	var sb strings.Builder
	for i, r := range goName {
		if unicode.IsUpper(r) && i != 0 {
			sb.WriteByte('_')
		}
		sb.WriteRune(unicode.ToUpper(r))
	}
	return sb.String()
}

// LayoutOf derives the layout of a message struct type (not pointer).
func LayoutOf(t reflect.Type) (*Layout, error) {
	if t.Kind() == reflect.Ptr {
		t = t.Elem()
	}
	if t.Kind() != reflect.Struct {
		return nil, fmt.Errorf("not a struct: %v", t)
	}
	if !strings.HasPrefix(t.Name(), "Message") {
		return nil, fmt.Errorf("struct name %q does not begin with Message", t.Name())
	}
	l := &Layout{Name: GoMessageToWire(t.Name()[len("Message"):]), Type: t}

	var base, ext []Field
	for i := 0; i < t.NumField(); i++ {
		sf := t.Field(i)
		f := Field{GoIndex: i, GoName: sf.Name, Count: 1}
		if n := sf.Tag.Get("mavname"); n != "" {
			f.WireName = n
		} else {
			f.WireName = GoFieldToWire(sf.Name)
		}
		gt := sf.Type
		if gt.Kind() == reflect.Array {
			f.IsArray = true
			f.HasLen = true
			f.Count = gt.Len()
			gt = gt.Elem()
		}
		if en := sf.Tag.Get("mavenum"); en != "" {
			if gt.Kind() != reflect.Uint64 {
				return nil, fmt.Errorf("field %s: enum must be uint64", sf.Name)
			}
			p, ok := primitive[en]
			if !ok {
				return nil, fmt.Errorf("field %s: unknown enum wire type %q", sf.Name, en)
			}
			switch en {
			case "uint8", "int8", "uint16", "int16", "uint32", "int32", "uint64", "int64":
				// (the spec lets any integer field carry an enum; whether the library accepts all of them is its business)
			default:
				return nil, fmt.Errorf("field %s: type %q cannot carry an enum", sf.Name, en)
			}
			f.IsEnum = true
			f.WireType, f.ElemSize = p.wire, p.size
		} else {
			p, ok := primitive[gt.Name()]
			if gt.PkgPath() != "" {
				// a defined type over a primitive (type Celsius float32; an enum type without its mavenum tag): whether the library
				// accepts such a field is its business (C17 says it must not); IF it does, the field is a field of the underlying
				// primitive type and has that type's place in the layout
				p, ok = primitive[gt.Kind().String()]
			}
			if !ok {
				return nil, fmt.Errorf("field %s: unsupported Go type %v", sf.Name, gt)
			}
			f.WireType, f.ElemSize = p.wire, p.size
			if gt.Kind() == reflect.String {
				if f.IsArray {
					return nil, fmt.Errorf("field %s: array of strings is not a MAVLink type", sf.Name)
				}
				f.IsString = true
				if ls := sf.Tag.Get("mavlen"); ls != "" {
					n, err := strconv.Atoi(ls)
					if err != nil || n <= 0 {
						return nil, fmt.Errorf("field %s: bad mavlen %q", sf.Name, ls)
					}
					f.Count = n
					f.HasLen = true
				}
			}
		}
		if sf.Tag.Get("mavext") == "true" {
			f.Ext = true
			ext = append(ext, f)
		} else {
			base = append(base, f)
		}
	}

	// base fields: descending primitive size, declaration order kept among equals
	sort.SliceStable(base, func(i, j int) bool { return base[i].ElemSize > base[j].ElemSize })

	off := 0
	for i := range base {
		base[i].Offset = off
		off += base[i].Size()
	}
	l.SizeBase = off
	for i := range ext {
		ext[i].Offset = off
		off += ext[i].Size()
	}
	l.SizeExt = off
	l.Fields = append(base, ext...)

	// CRC_EXTRA: "NAME " then for every base field "type name " [+ length byte for arrays]
	seed := []byte(l.Name + " ")
	for _, f := range base {
		seed = append(seed, []byte(f.WireType+" ")...)
		seed = append(seed, []byte(f.WireName+" ")...)
		if f.HasLen {
			seed = append(seed, byte(f.Count))
		}
	}
	c := CRC16(seed)
	l.CRCExtra = byte(c&0xFF) ^ byte(c>>8)
	return l, nil
}

func putLE(dst []byte, v uint64, size int) {
	for i := 0; i < size; i++ {
		dst[i] = byte(v >> (8 * uint(i)))
	}
}

func getLE(src []byte, size int) uint64 {
	var v uint64
	for i := 0; i < size; i++ {
		v |= uint64(src[i]) << (8 * uint(i))
	}
	return v
}

func elemBits(v reflect.Value, f *Field) uint64 {
	if f.IsEnum {
		return v.Uint()
	}
	switch v.Kind() {
	case reflect.Float32:
		return uint64(math.Float32bits(float32(v.Float())))
	case reflect.Float64:
		return math.Float64bits(v.Float())
	case reflect.Int8, reflect.Int16, reflect.Int32, reflect.Int64:
		return uint64(v.Int())
	default:
		return v.Uint()
	}
}

func setElemBits(v reflect.Value, f *Field, bits uint64) {
	if f.IsEnum {
		v.SetUint(bits)
		return
	}
	switch v.Kind() {
	case reflect.Float32:
		// keep NaN payloads: go through bits, not through float64 conversion of a signalling NaN
		p := (*float32)(v.Addr().UnsafePointer()) // (also for defined types over float32)
		*p = math.Float32frombits(uint32(bits))
	case reflect.Float64:
		v.SetFloat(math.Float64frombits(bits))
	case reflect.Int8:
		v.SetInt(int64(int8(bits)))
	case reflect.Int16:
		v.SetInt(int64(int16(bits)))
	case reflect.Int32:
		v.SetInt(int64(int32(bits)))
	case reflect.Int64:
		v.SetInt(int64(bits))
	default:
		v.SetUint(bits)
	}
}

// float32Bits reads a float32 field exactly (reflect's Float() widens and may quiet a signalling NaN).
func float32Bits(v reflect.Value) uint64 {
	if v.CanAddr() {
		return uint64(math.Float32bits(*(*float32)(v.Addr().UnsafePointer())))
	}
	return uint64(math.Float32bits(float32(v.Float())))
}

// EncodeFull returns the untruncated payload: base fields only for v1, all fields for v2.
// msg is a pointer to (or value of) the message struct.
func (l *Layout) EncodeFull(msg reflect.Value, v2 bool) []byte {
	if msg.Kind() == reflect.Ptr {
		msg = msg.Elem()
	}
	size := l.SizeBase
	if v2 {
		size = l.SizeExt
	}
	out := make([]byte, size)
	for i := range l.Fields {
		f := &l.Fields[i]
		if f.Ext && !v2 {
			continue
		}
		fv := msg.Field(f.GoIndex)
		dst := out[f.Offset : f.Offset+f.Size()]
		switch {
		case f.IsString:
			s := fv.String()
			for k := 0; k < f.Count && k < len(s); k++ {
				dst[k] = s[k]
			}
		case f.IsArray:
			for k := 0; k < f.Count; k++ {
				ev := fv.Index(k)
				bits := elemBits(ev, f)
				if !f.IsEnum && ev.Kind() == reflect.Float32 {
					bits = float32Bits(ev)
				}
				putLE(dst[k*f.ElemSize:], bits, f.ElemSize)
			}
		default:
			bits := elemBits(fv, f)
			if !f.IsEnum && fv.Kind() == reflect.Float32 {
				bits = float32Bits(fv)
			}
			putLE(dst, bits, f.ElemSize)
		}
	}
	return out
}

// Truncate applies MAVLink 2 payload truncation: trailing zero bytes are removed,
// but the payload never gets shorter than one byte.
func Truncate(p []byte) []byte {
	n := len(p)
	for n > 1 && p[n-1] == 0 {
		n--
	}
	return p[:n]
}

// Encode returns the payload as it goes on the wire.
func (l *Layout) Encode(msg reflect.Value, v2 bool) []byte {
	full := l.EncodeFull(msg, v2)
	if v2 {
		return Truncate(full)
	}
	return full
}

// Decode decodes a payload into a new message (pointer to struct).
func (l *Layout) Decode(payload []byte, v2 bool) (reflect.Value, error) {
	var buf []byte
	if v2 {
		buf = make([]byte, l.SizeExt)
		copy(buf, payload) // shorter: zero-extended; longer: unknown tail ignored
	} else {
		if len(payload) != l.SizeBase {
			return reflect.Value{}, fmt.Errorf("v1 payload length %d != %d", len(payload), l.SizeBase)
		}
		buf = payload
	}
	out := reflect.New(l.Type)
	for i := range l.Fields {
		f := &l.Fields[i]
		if f.Ext && !v2 {
			continue
		}
		fv := out.Elem().Field(f.GoIndex)
		src := buf[f.Offset : f.Offset+f.Size()]
		switch {
		case f.IsString:
			n := 0
			for n < f.Count && src[n] != 0 {
				n++
			}
			fv.SetString(string(src[:n]))
		case f.IsArray:
			for k := 0; k < f.Count; k++ {
				setElemBits(fv.Index(k), f, getLE(src[k*f.ElemSize:], f.ElemSize))
			}
		default:
			setElemBits(fv, f, getLE(src, f.ElemSize))
		}
	}
	return out, nil
}

// Canonical returns the value in the form the wire imposes.
func (l *Layout) Canonical(msg reflect.Value, v2 bool) reflect.Value {
	out, err := l.Decode(l.EncodeFull(msg, v2), v2)
	if err != nil {
		panic(err)
	}
	return out
}

// BitEqual compares two message structs field by field, floats by bit pattern.
func (l *Layout) BitEqual(a, b reflect.Value) (bool, string) {
	if a.Kind() == reflect.Ptr {
		a = a.Elem()
	}
	if b.Kind() == reflect.Ptr {
		b = b.Elem()
	}
	if a.Type() != b.Type() {
		return false, fmt.Sprintf("type %v vs %v", a.Type(), b.Type())
	}
	for i := range l.Fields {
		f := &l.Fields[i]
		x, y := a.Field(f.GoIndex), b.Field(f.GoIndex)
		switch {
		case f.IsString:
			if x.String() != y.String() {
				return false, f.GoName
			}
		case f.IsArray:
			for k := 0; k < f.Count; k++ {
				if !elemEq(x.Index(k), y.Index(k), f) {
					return false, fmt.Sprintf("%s[%d]", f.GoName, k)
				}
			}
		default:
			if !elemEq(x, y, f) {
				return false, f.GoName
			}
		}
	}
	return true, ""
}

func elemEq(x, y reflect.Value, f *Field) bool {
	if !f.IsEnum && x.Kind() == reflect.Float32 {
		return float32Bits(x) == float32Bits(y)
	}
	return elemBits(x, f) == elemBits(y, f)
}
