// Package ref is an independent executable reference model of the MAVLink wire
// format, written from the MAVLink serialization and message-signing guides.
// It shares no code with gomavlib and is structured around flat wire offsets.
package ref

// CRC16 is CRC-16/MCRF4XX (reflected polynomial 0x1021 = 0x8408, init 0xFFFF,
// no final xor), computed one bit at a time.
func CRC16(data []byte) uint16 {
	return CRC16Update(0xFFFF, data)
}

// CRC16Update continues a CRC from a given state.
func CRC16Update(state uint16, data []byte) uint16 {
	crc := state
	for _, b := range data {
		crc ^= uint16(b)
		for i := 0; i < 8; i++ {
			if crc&1 != 0 {
				crc = (crc >> 1) ^ 0x8408
			} else {
				crc >>= 1
			}
		}
	}
	return crc
}
