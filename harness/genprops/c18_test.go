package genprops

import (
	"bytes"
	"encoding/hex"
	"fmt"
	"path/filepath"
	"sort"
	"strings"
	"testing"

	"verifharness/probe"
	"verifharness/ref"
	"verifharness/vh"
)

// C18 — dialect generator: generated Go means what the XML says (translation validation by execution).

func shapeOf(m *ref.XMessage) string {
	var tags []string
	has := map[string]bool{}
	for _, f := range m.Fields {
		switch {
		case f.Type == "char" && f.ArrayLen == 0:
			has["scalar-char"] = true
		case f.ArrayLen == 1:
			has["array1"] = true
		}
		if f.Enum != "" && f.ArrayLen > 0 {
			has["enum-array"] = true
		} else if f.Enum != "" {
			has["enum"] = true
		}
		if f.Ext {
			has["ext"] = true
		}
		if f.Name != strings.ToLower(f.Name) {
			has["mavname"] = true
		}
		if f.Type == "uint8_t_mavlink_version" {
			has["mavlink-version"] = true
		}
	}
	for _, k := range []string{"scalar-char", "array1", "enum-array", "enum", "ext", "mavname", "mavlink-version"} {
		if has[k] {
			tags = append(tags, k)
		}
	}
	if len(tags) == 0 {
		return "plain"
	}
	return tags[0]
}

type c18stats struct {
	programs, comparisons int
}

// compareDialect checks one generated dialect against the XML-derived expectation.
func compareDialect(rep *vh.Report, b *xmlBatch, top string, g *genOutcome, pr *probeRun, st *c18stats) {
	exp := b.expect(top)
	st.programs++
	rep.Count("programs", 1)
	wit := func(extra map[string]interface{}) interface{} {
		m := map[string]interface{}{"top": top, "xml": ref.RenderXML(b.Files[top]), "includes": b.Files[top].Includes}
		for k, v := range extra {
			m[k] = v
		}
		return m
	}
	if g.GenErr != "" {
		rep.Violation("what=gen-fail", "the generator failed on a valid definition: "+truncate(g.GenErr, 300), wit(nil))
		return
	}
	if e, bad := pr.BuildErr[g.PkgName]; bad {
		rep.Violation("what=build-fail", "the generated package does not compile: "+truncate(e, 400), wit(nil))
		return
	}
	dump := pr.Dumps[g.PkgName]
	if dump == nil {
		rep.HarnessError("no dump for " + g.PkgName)
		return
	}
	if dump.InitErr != "" {
		rep.Violation("what=init-fail", "the generated dialect does not initialize: "+dump.InitErr, wit(nil))
		return
	}
	st.comparisons++
	if dump.Version != exp.Version {
		rep.Violation("what=version", fmt.Sprintf("dialect version %d, the XML (with includes) says %d", dump.Version, exp.Version), wit(nil))
	}
	byID := map[uint32]*probe.MsgDump{}
	for i := range dump.Msgs {
		byID[dump.Msgs[i].ID] = &dump.Msgs[i]
	}
	st.comparisons++
	if len(dump.Msgs) != len(exp.Messages) {
		rep.Violation("what=id", fmt.Sprintf("generated dialect has %d messages, the definition (with includes) has %d", len(dump.Msgs), len(exp.Messages)), wit(nil))
	}
	for mi, xm := range exp.Messages {
		md := byID[xm.ID]
		shape := shapeOf(xm)
		st.comparisons++
		rep.Count("messages", 1)
		rep.Distinct(top, xm.Name)
		if md == nil {
			rep.Violation("what=id shape="+shape, fmt.Sprintf("message %s (id %d) is missing from the generated dialect", xm.Name, xm.ID), wit(nil))
			continue
		}
		if mi < len(dump.Msgs) && dump.Msgs[mi].ID != xm.ID {
			rep.Observe("generated Messages slice is not in definition order")
		}
		if md.Err != "" {
			rep.Violation("what=init-fail shape="+shape, "message "+xm.Name+": "+md.Err, wit(nil))
			continue
		}
		l, err := ref.LayoutFromXML(xm)
		if err != nil {
			rep.HarnessError(err.Error())
			continue
		}
		mw := func(extra map[string]interface{}) interface{} {
			x := map[string]interface{}{"message": xm.Name, "id": xm.ID, "fields": xm.Fields, "go_name": md.GoName}
			for k, v := range extra {
				x[k] = v
			}
			return wit(x)
		}
		st.comparisons++
		if md.NumFields != len(xm.Fields) {
			rep.Violation("what=size shape="+shape, fmt.Sprintf("message %s has %d struct fields for %d XML fields", xm.Name, md.NumFields, len(xm.Fields)), mw(nil))
			continue
		}
		st.comparisons++
		if md.CRC != int(l.CRCExtra) {
			rep.Violation("what=crc shape="+shape, fmt.Sprintf("message %s: CRC_EXTRA %d, the spec assigns %d to the XML definition", xm.Name, md.CRC, l.CRCExtra), mw(nil))
		}
		for variant := 0; variant < probe.NVariants; variant++ {
			bits := func(decl, elem int) uint64 { return probe.SampleBits(xm.ID, decl, elem, variant) }
			str := func(decl int) string {
				n := xm.Fields[decl].ArrayLen
				if n == 0 {
					n = 1
				}
				return probe.SampleString(xm.ID, decl, n, variant)
			}
			for _, v2 := range []bool{false, true} {
				want := hex.EncodeToString(l.EncodeXML(v2, bits, str))
				got := md.V1[variant]
				if v2 {
					got = md.V2[variant]
				}
				st.comparisons++
				if got != want {
					what := "enc"
					if len(got) != len(want) && variant == 0 {
						what = "size"
					}
					rep.Violation("what="+what+" shape="+shape,
						fmt.Sprintf("message %s: payload of sample value %d (v2=%v) differs from the layout the spec assigns to the XML definition", xm.Name, variant, v2),
						mw(map[string]interface{}{"got": got, "want": want, "size_base": l.SizeBase, "size_ext": l.SizeExt}))
					break
				}
			}
		}
	}
	// enum constants
	consts := map[string]uint64{}
	for _, c := range pr.Output.Consts {
		if c.Pkg == g.PkgName {
			consts[c.Enum+"."+c.Name] = c.Value
		}
	}
	for _, en := range exp.EnumOrder {
		xe := exp.Enums[en]
		for _, ent := range xe.Entries {
			st.comparisons++
			rep.Count("enum_constants", 1)
			v, ok := consts[en+"."+ent.Name]
			if !ok {
				rep.Violation("what=enumval", fmt.Sprintf("enum constant %s.%s is missing from the generated package", en, ent.Name), wit(nil))
				continue
			}
			if v != ent.Value {
				rep.Violation("what=enumval", fmt.Sprintf("enum constant %s = %d, the XML says %s (= %d)", ent.Name, v, ent.ValueText, ent.Value), wit(nil))
			}
		}
	}
}

func runBatch(rep *vh.Report, r *vh.RNG, name string, nDialects int, st *c18stats, enumRes *probe.EnumResult, compare bool) {
	runBatchOf(rep, genBatch(r, name, nDialects), name, st, enumRes, compare)
}

func runBatchOf(rep *vh.Report, b *xmlBatch, name string, st *c18stats, enumRes *probe.EnumResult, compare bool) {
	base, err := scratchDir(name)
	if err != nil {
		rep.HarnessError(err.Error())
		return
	}
	genA, err := generate(b, filepath.Join(base, "a"), b.Tops)
	if err != nil {
		rep.HarnessError(err.Error())
		return
	}
	genB, err := generate(b, filepath.Join(base, "b"), b.Tops)
	if err != nil {
		rep.HarnessError(err.Error())
		return
	}
	var gens []*genOutcome
	for _, top := range b.Tops {
		a, bb := genA[top], genB[top]
		gens = append(gens, a)
		st.comparisons++
		if a.GenErr == "" && bb.GenErr == "" {
			same := len(a.Files) == len(bb.Files)
			var diffFile string
			for n, d := range a.Files {
				if !bytes.Equal(d, bb.Files[n]) {
					same = false
					diffFile = n
				}
			}
			if !same {
				rep.Violation("what=nondeterministic", "generating twice gives different files ("+diffFile+")",
					map[string]interface{}{"top": top, "xml": ref.RenderXML(b.Files[top]), "includes": b.Files[top].Includes})
			}
			rep.Count("generated_twice_identical", 1)
		}
	}
	kinds := map[string]bool{}
	for i, top := range b.Tops {
		for name, xe := range b.expect(top).Enums {
			kinds[gens[i].PkgName+"."+name] = xe.Bitmask
		}
	}
	pr, err := buildAndProbe(filepath.Join(base, "mod"), gens, vh.Seed(), vh.Pick(60, 1500), kinds)
	if err != nil {
		rep.HarnessError(err.Error())
		return
	}
	for _, km := range pr.KindMismatch {
		rep.Violation("what=enum-kind", "an enum is generated as the other kind (bitmask / ordinary) than its definition (all files of the include closure taken together) declares", km)
	}
	for i, top := range b.Tops {
		if compare {
			compareDialect(rep, b, top, gens[i], pr, st)
		} else if gens[i].GenErr != "" || pr.BuildErr[gens[i].PkgName] != "" {
			rep.Inconclusive("a generated dialect could not be built, its enums were not probed (see property C18)")
		}
	}
	if enumRes != nil {
		enumRes.Enums += pr.Output.Enums.Enums
		enumRes.Bitmask += pr.Output.Enums.Bitmask
		enumRes.Values += pr.Output.Enums.Values
		enumRes.Rejections += pr.Output.Enums.Rejections
		enumRes.Findings = append(enumRes.Findings, pr.Output.Enums.Findings...)
		enumRes.Observations = append(enumRes.Observations, pr.Output.Enums.Observations...)
		enumRes.Samples = append(enumRes.Samples, pr.Output.Enums.Samples...)
	}
	if compare && strings.HasSuffix(name, "0") {
		top := b.Tops[len(b.Tops)-1]
		rep.Sample(map[string]interface{}{"top": top, "includes": b.Files[top].Includes, "xml": truncate(ref.RenderXML(b.Files[top]), 1500)})
	}
}

// negative programs: definitions the generator / codec cannot express.
func negativeCases() map[string]*ref.XDialect {
	mk := func(f ref.XField, enums ...ref.XEnum) *ref.XDialect {
		return &ref.XDialect{Version: "3", Enums: enums,
			Messages: []ref.XMessage{{ID: 4242, Name: "VNEG_MSG", Fields: []ref.XField{{Type: "uint8_t", Name: "a"}, f}}}}
	}
	en := func(vals ...string) ref.XEnum {
		e := ref.XEnum{Name: "VNEG_ENUM"}
		for i, v := range vals {
			e.Entries = append(e.Entries, ref.XEnumEntry{Name: fmt.Sprintf("VNEG_ENUM_E%d", i), ValueText: v})
		}
		return e
	}
	out := map[string]*ref.XDialect{
		"unknown-type":       mk(ref.XField{Type: "uint128_t", Name: "b"}),
		"unknown-array-type": mk(ref.XField{Type: "foo", ArrayLen: 3, Name: "b"}),
		"enum-value-text":    mk(ref.XField{Type: "uint8_t", Name: "b", Enum: "VNEG_ENUM"}, en("1", "abc")),
		"enum-value-hex":     mk(ref.XField{Type: "uint8_t", Name: "b", Enum: "VNEG_ENUM"}, en("0xZZ")),
		"enum-value-pow":     mk(ref.XField{Type: "uint8_t", Name: "b", Enum: "VNEG_ENUM"}, en("2**x")),
		"enum-value-neg":     mk(ref.XField{Type: "uint8_t", Name: "b", Enum: "VNEG_ENUM"}, en("-1")),
		"enum-on-float":      mk(ref.XField{Type: "float", Name: "b", Enum: "VNEG_ENUM"}, en("1", "2")),
		"enum-on-double":     mk(ref.XField{Type: "double", Name: "b", Enum: "VNEG_ENUM"}, en("1", "2")),
		"enum-on-int16":      mk(ref.XField{Type: "int16_t", Name: "b", Enum: "VNEG_ENUM"}, en("1", "2")),
		"enum-on-int64":      mk(ref.XField{Type: "int64_t", Name: "b", Enum: "VNEG_ENUM"}, en("1", "2")),
		"enum-on-char":       mk(ref.XField{Type: "char", ArrayLen: 4, Name: "b", Enum: "VNEG_ENUM"}, en("1", "2")),
	}
	lower := mk(ref.XField{Type: "uint8_t", Name: "b"})
	lower.Messages[0].Name = "lower_case_name"
	out["message-name-lowercase"] = lower
	dash := mk(ref.XField{Type: "uint8_t", Name: "b"})
	dash.Messages[0].Name = "BAD-NAME"
	out["message-name-dash"] = dash
	return out
}

func TestC18(t *testing.T) {
	rep := vh.NewReport("C18")
	defer rep.Finish(t)
	rep.Rule("seeded grammar of valid dialect XML (1-12 messages, 1-20 fields, all 11 scalar types, arrays 1..32, char[n], scalar char, uint8_t_mavlink_version, enum-typed scalars and arrays " +
		"on the six carrier types, <extensions/> at every position, snake / camel / capitalised / digit field names, message names with digits and _<digit> groups, ids over 0..2^24-1, enum values " +
		"decimal / 0x / 0b / a**b up to 2^63, dense and sparse bitmasks, enums merged across includes; include chains, diamonds, shared includes, version overrides) -> the real cmd/dialect-import " +
		"binary (built from the tree) -> generated packages compiled into a generated probe program -> per message: id, field count, CRC_EXTRA, v1 and v2 payloads of 5 sample values compared with " +
		"the spec derivation from the XML; enum constants; dialect version; second generation byte-identical; negative definitions must not initialize; the same for trees fetched by URL from a loopback web server (nested relative includes in sub-directories). " +
		"programs = top-level dialects generated; disagreements_checked = individual comparisons; distinct = (dialect, message)")
	rep.RuleAdd("Rounds 12-15: definitions fetched by URL with nested relative includes, link mode, initialisms, 63/64-field messages, lower-case entry names, merged bitmask fixtures.")
	rep.RuleAdd("Rounds 16-17: version 0 over a versioned include; message names with an underscore before a digit.")
	rep.Assume("reference derivation harness/ref.LayoutFromXML (independent of pkg/conversion and of pkg/message)")
	rep.Assume("link mode is exercised with one fixture whose generated package refers to nothing outside itself (the merged enum moves into it); remote (URL) definitions are fetched from a web server on the loopback interface")
	seed := vh.Seed()
	st := &c18stats{}
	enumRes := &probe.EnumResult{}
	nBatches := vh.Pick(2, 40)
	perBatch := vh.Pick(22, 40)
	for bi := 0; bi < nBatches; bi++ {
		runBatch(rep, vh.Sub(seed, fmt.Sprintf("c18-batch-%d", bi)), fmt.Sprintf("vf%d", bi), perBatch, st, enumRes, true)
	}
	// definitions fetched by URL: a published tree with sub-directories whose files have relative includes of their own
	for ri := 0; ri < vh.Pick(1, 6); ri++ {
		rb := genRemoteBatch(vh.Sub(seed, fmt.Sprintf("c18-remote-%d", ri)), fmt.Sprintf("vr%d", ri))
		runBatchOf(rep, rb, fmt.Sprintf("vr%d", ri), st, enumRes, true)
		rep.Count("remote_dialects", len(rb.Tops))
	}
	// link mode (--link): the include is named like a shipped dialect and is not generated; what the generated package
	// defines itself (its message, its enum, the enum merged with the include's) follows the XML all the same
	runBatchOf(rep, genLinkBatch(vh.Sub(seed, "c18-link"), "vk"), "vk", st, enumRes, true)
	rep.Count("link_mode_dialects", 1)
	// negative definitions
	neg := negativeCases()
	var names []string
	for n := range neg {
		names = append(names, n)
	}
	sort.Strings(names)
	nb := &xmlBatch{Files: map[string]*ref.XDialect{}}
	for i, n := range names {
		f := fmt.Sprintf("vneg%d.xml", i)
		neg[n].File = f
		nb.Files[f] = neg[n]
		nb.Tops = append(nb.Tops, f)
	}
	base, err := scratchDir("neg")
	if err != nil {
		t.Fatal(err)
	}
	gens, err := generate(nb, filepath.Join(base, "a"), nb.Tops)
	if err != nil {
		rep.HarnessError(err.Error())
	} else {
		var list []*genOutcome
		for _, top := range nb.Tops {
			list = append(list, gens[top])
		}
		pr, err := buildAndProbe(filepath.Join(base, "mod"), list, seed, 10)
		if err != nil {
			rep.HarnessError(err.Error())
		} else {
			for i, n := range names {
				g := list[i]
				rep.Count("negative_definitions", 1)
				st.comparisons++
				outcome := ""
				switch {
				case g.GenErr != "":
					outcome = "generator error"
				case pr.BuildErr[g.PkgName] != "":
					outcome = "generated code does not compile"
				case pr.Dumps[g.PkgName] != nil && pr.Dumps[g.PkgName].InitErr != "":
					outcome = "Initialize error"
				}
				if outcome == "" {
					rep.Violation("what=accepts-invalid case="+n, "a definition the generator cannot express ("+n+") produced a package that initializes as a dialect",
						map[string]interface{}{"case": n, "xml": ref.RenderXML(neg[n])})
				} else {
					rep.Count("negative_"+strings.ReplaceAll(outcome, " ", "_"), 1)
				}
			}
		}
	}
	rep.Count("disagreements_checked", st.comparisons)
	rep.Count("generated_enum_types_probed", enumRes.Enums)
	rep.Set("programs", st.programs)
	rep.Set("disagreements_checked", st.comparisons)
	rep.Eval(st.comparisons)
	if len(enumRes.Findings) > 0 {
		rep.Observe(fmt.Sprintf("%d enum text round-trip findings in generated enums (property C19: run ./check C19), first: %s", len(enumRes.Findings), enumRes.Findings[0].Key))
	}
	rep.Floor("programs", 20)
	rep.Floor("messages", 100)
	rep.Floor("negative_definitions", 10)
}
