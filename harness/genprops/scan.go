package genprops

import (
	"fmt"
	"go/ast"
	"go/parser"
	"go/token"
	"os"
	"path/filepath"
	"sort"
	"strings"
)

// scanned describes one dialect package found on disk. The scan only ENUMERATES
// declarations (enum types, constant names, message aliases); every assertion about
// them is executed by a generated probe program built against the real packages.
type scannedEnum struct {
	Name    string
	Alias   bool // type X = other.X
	Bitmask bool // defining file imports "strings" (bitmask template)
	Consts  []string
}

type scannedPkg struct {
	Dir         string
	Name        string // package name
	Enums       []*scannedEnum
	MsgStructs  []string // MessageX defined here
	MsgAliases  []string // MessageX = other.MessageX
	AliasTarget map[string]string
}

func scanPackage(dir string) (*scannedPkg, error) {
	fset := token.NewFileSet()
	entries, err := os.ReadDir(dir)
	if err != nil {
		return nil, err
	}
	p := &scannedPkg{Dir: dir, AliasTarget: map[string]string{}}
	enums := map[string]*scannedEnum{}
	for _, e := range entries {
		n := e.Name()
		if e.IsDir() || !strings.HasSuffix(n, ".go") || strings.HasSuffix(n, "_test.go") {
			continue
		}
		f, err := parser.ParseFile(fset, filepath.Join(dir, n), nil, 0)
		if err != nil {
			return nil, fmt.Errorf("%s: %w", n, err)
		}
		p.Name = f.Name.Name
		importsStrings := false
		for _, im := range f.Imports {
			if im.Path.Value == `"strings"` {
				importsStrings = true
			}
		}
		for _, d := range f.Decls {
			gd, ok := d.(*ast.GenDecl)
			if !ok {
				continue
			}
			switch gd.Tok {
			case token.TYPE:
				for _, sp := range gd.Specs {
					ts := sp.(*ast.TypeSpec)
					name := ts.Name.Name
					if strings.HasPrefix(name, "Message") && strings.HasPrefix(n, "message_") {
						if ts.Assign != 0 {
							p.MsgAliases = append(p.MsgAliases, name)
							if se, ok := ts.Type.(*ast.SelectorExpr); ok {
								p.AliasTarget[name] = se.X.(*ast.Ident).Name
							}
						} else if _, ok := ts.Type.(*ast.StructType); ok {
							p.MsgStructs = append(p.MsgStructs, name)
						}
						continue
					}
					if strings.HasPrefix(n, "enum_") {
						en := enums[name]
						if en == nil {
							en = &scannedEnum{Name: name}
							enums[name] = en
						}
						if ts.Assign != 0 {
							en.Alias = true
							if se, ok := ts.Type.(*ast.SelectorExpr); ok {
								p.AliasTarget[name] = se.X.(*ast.Ident).Name
							}
						} else {
							en.Bitmask = importsStrings
						}
					}
				}
			case token.CONST:
				if !strings.HasPrefix(n, "enum_") {
					continue
				}
				for _, sp := range gd.Specs {
					vs := sp.(*ast.ValueSpec)
					id, ok := vs.Type.(*ast.Ident)
					if !ok {
						continue
					}
					en := enums[id.Name]
					if en == nil {
						en = &scannedEnum{Name: id.Name}
						enums[id.Name] = en
					}
					for _, nm := range vs.Names {
						en.Consts = append(en.Consts, nm.Name)
					}
				}
			}
		}
	}
	for _, en := range enums {
		p.Enums = append(p.Enums, en)
	}
	sort.Slice(p.Enums, func(i, j int) bool { return p.Enums[i].Name < p.Enums[j].Name })
	sort.Strings(p.MsgStructs)
	sort.Strings(p.MsgAliases)
	return p, nil
}

// scanShipped scans every shipped dialect package of the repository.
func scanShipped(repo string) ([]*scannedPkg, error) {
	root := filepath.Join(repo, "pkg", "dialects")
	entries, err := os.ReadDir(root)
	if err != nil {
		return nil, err
	}
	var out []*scannedPkg
	for _, e := range entries {
		if !e.IsDir() {
			continue
		}
		p, err := scanPackage(filepath.Join(root, e.Name()))
		if err != nil {
			return nil, err
		}
		if p.Name == "" {
			continue
		}
		out = append(out, p)
	}
	return out, nil
}
