package genprops

import (
	"fmt"
	"testing"

	"verifharness/probe"
	"verifharness/vh"
)

// C19 — enum values survive conversion to text and back.

func TestC19(t *testing.T) {
	rep := vh.NewReport("C19")
	defer rep.Finish(t)
	rep.Rule("every enum type defined in a shipped dialect package (source scan enumerates types and constant names; a generated probe program executes every assertion against the compiled packages) " +
		"and every enum of freshly generated dialects (seeded XML grammar -> real generator): all defined constants and their neighbours, zero, 2^31, 2^32, 2^63-1, 2^63, 2^64-1, N random 64-bit values " +
		"for ordinary enums; zero, every defined flag, the OR of all, pairs and N random combinations of defined flags for bitmask enums: UnmarshalText(MarshalText(v)) == v, names rendered as the " +
		"statement says, String() agrees; rejection of texts that are neither a name, a combination nor a number. distinct = enum types; evaluations = values round-tripped + texts rejected")
	rep.RuleAdd("Rounds 12-15: merged bitmask enums (extension with and without the attribute, lower flags, non-ascending order), link-mode MAV_MODE_FLAG extension, lower-case entry names read through the enum's own parser.")
	rep.RuleAdd("Rounds 16-17: overlapping multi-bit flags; an ordinary enum whose extension carries the bitmask attribute.")
	rep.Assume("values >= 2^63 of ordinary enums may render as negative decimals as long as they parse back (observation, not violation)")
	seed := vh.Seed()
	nRandom := vh.Pick(200, 10000)

	out, pkgs, err := probeShipped(seed, nRandom, true)
	if err != nil {
		t.Fatal(err)
	}
	for _, km := range shippedKindMismatch {
		rep.Violation("enum="+km+" what=kind", "a shipped enum that the MAVLink definitions declare as a bitmask is generated as an ordinary enum (or the other way round): combinations of its flags cannot be rendered as names", km)
	}
	npk := 0
	for _, p := range pkgs {
		if len(p.Enums) > 0 {
			npk++
		}
	}
	collect := func(res *probe.EnumResult, origin string) {
		rep.Eval(int(res.Values + res.Rejections))
		rep.DistinctN(res.Enums)
		rep.Count("enum_types_"+origin, res.Enums)
		rep.Count("bitmask_enum_types_"+origin, res.Bitmask)
		rep.Count("values_round_tripped", int(res.Values))
		rep.Count("texts_rejected", int(res.Rejections))
		for _, f := range res.Findings {
			rep.Violation(f.Key, f.What, map[string]interface{}{"origin": origin, "witness": f.Witness})
		}
		for _, o := range res.Observations {
			rep.Observe(o)
		}
		for _, s := range res.Samples {
			rep.Sample(s)
		}
	}
	collect(&out.Enums, "shipped")
	rep.Set("shipped_packages_with_enums", npk)

	// generated dialects: enum-heavy batches through the real generator
	gen := &probe.EnumResult{}
	st := &c18stats{}
	for bi := 0; bi < vh.Pick(1, 12); bi++ {
		runBatch(rep, vh.Sub(seed, fmt.Sprintf("c19-batch-%d", bi)), fmt.Sprintf("ve%d", bi), vh.Pick(25, 40), st, gen, false)
	}
	// link mode: the included definition (named like a shipped dialect) is referred to, the enum it shares with the generated
	// dialect is merged into the generated package
	runBatchOf(rep, genLinkBatch(vh.Sub(seed, "c19-link"), "vl"), "vl", st, gen, false)
	rep.Count("link_mode_dialects", 1)
	collect(gen, "generated")
	rep.Floor("enum_types_shipped", 200)
	rep.Floor("bitmask_enum_types_shipped", 40)
	rep.Floor("enum_types_generated", 20)
}
