package genprops

import (
	"bytes"
	"encoding/json"
	"fmt"
	"os"
	"path/filepath"
	"time"

	"verifharness/probe"
	"verifharness/ref"
)

// probeShipped generates, builds and runs the probe program over every shipped dialect package.
// shippedKindMismatch: shipped enums generated as the other kind than the golden list says.
var shippedKindMismatch []string

func probeShipped(seed uint64, nRandom int, withEnumChecks bool) (*probe.Output, []*scannedPkg, error) {
	pkgs, err := scanShipped(repoDir())
	if err != nil {
		return nil, nil, err
	}
	// the kind of a shipped enum comes from the golden list, not from the shape of the generated code
	for _, p := range pkgs {
		for _, en := range p.Enums {
			if !en.Alias && ref.GoldenBitmaskEnums[en.Name] != en.Bitmask {
				shippedKindMismatch = append(shippedKindMismatch, p.Name+"."+en.Name)
				en.Bitmask = ref.GoldenBitmaskEnums[en.Name]
			}
		}
	}
	dir, err := scratchDir("shipped")
	if err != nil {
		return nil, nil, err
	}
	if err := writeProbeModule(dir); err != nil {
		return nil, nil, err
	}
	src := genEnumProbeSource(pkgs, func(p *scannedPkg) string {
		return "github.com/bluenviron/gomavlib/v3/pkg/dialects/" + filepath.Base(p.Dir)
	}, withEnumChecks)
	if err := os.WriteFile(filepath.Join(dir, "main.go"), []byte(src), 0o644); err != nil {
		return nil, nil, err
	}
	bin := filepath.Join(dir, "probe.bin")
	if out, err := runCmd(dir, 15*time.Minute, "go", "build", "-o", bin, "."); err != nil {
		return nil, nil, fmt.Errorf("building the probe over the shipped dialects: %v\n%s", err, truncate(out, 4000))
	}
	stdout, stderr, err := runCmdSplit(dir, 15*time.Minute, bin, fmt.Sprint(seed), fmt.Sprint(nRandom))
	if err != nil {
		return nil, nil, fmt.Errorf("running the probe: %v\n%s", err, truncate(stderr, 3000))
	}
	var out probe.Output
	if err := json.NewDecoder(bytes.NewReader([]byte(stdout))).Decode(&out); err != nil {
		return nil, nil, err
	}
	return &out, pkgs, nil
}
