package genprops

import (
	"fmt"
	"path"
	"strings"

	"verifharness/ref"
	"verifharness/vh"
)

// A seeded grammar of valid-by-construction dialect definitions (MAVLink naming and schema
// rules: unique ids, unique message names, unique enum entry names and values, enums defined
// in the include closure, payload <= 255 bytes).

type xmlBatch struct {
	Files map[string]*ref.XDialect // by file name
	Tops  []string                 // files to run the generator on
	// Remote: the definitions are fetched by URL; an include is then an address relative to the file that includes it
	// (local mode: relative to the directory the generator runs in)
	Remote bool
	// Link: the generator runs in link mode (--link): included definitions are referred to, not copied
	Link bool
}

var scalarTypes = []string{"double", "uint64_t", "int64_t", "float", "uint32_t", "int32_t", "uint16_t", "int16_t", "uint8_t", "int8_t", "char"}
var enumBaseTypes = []string{"uint8_t", "int8_t", "uint16_t", "uint32_t", "int32_t", "uint64_t"}

var typeSize = map[string]int{"double": 8, "uint64_t": 8, "int64_t": 8, "float": 4, "uint32_t": 4, "int32_t": 4,
	"uint16_t": 2, "int16_t": 2, "uint8_t": 1, "int8_t": 1, "char": 1, "uint8_t_mavlink_version": 1}

type nameSpace struct {
	used map[string]bool
}

func (n *nameSpace) take(s string) bool {
	k := strings.ToLower(strings.ReplaceAll(s, "_", ""))
	if n.used[k] || n.used[strings.ToLower(s)] {
		return false
	}
	n.used[k] = true
	n.used[strings.ToLower(s)] = true
	return true
}

var fieldWords = []string{"alt", "lat", "lon", "vx", "vy", "q", "param", "time", "usec", "boot", "ms", "target", "system", "component", "seq",
	"type", "mode", "flags", "rate", "id", "count", "data", "len", "temp", "volt", "cur", "x", "y", "z", "roll", "pitch", "yaw", "gps", "raw", "chan", "rssi", "msl", "id", "uid", "uuid", "uri", "url", "cpu", "ram", "ip", "api", "http"}

func genFieldName(r *vh.RNG, ns *nameSpace) string {
	for {
		var s string
		n := 1 + r.Intn(3)
		parts := make([]string, n)
		for i := range parts {
			parts[i] = fieldWords[r.Intn(len(fieldWords))]
		}
		switch r.Intn(10) {
		case 0: // camelCase
			s = parts[0]
			for _, p := range parts[1:] {
				s += strings.ToUpper(p[:1]) + p[1:]
			}
			if n == 1 {
				s += "Val"
			}
		case 1: // capitals inside
			s = strings.Join(parts, "_")
			s = strings.ToUpper(s[:1]) + s[1:]
		case 2: // trailing digit group
			s = strings.Join(parts, "_") + fmt.Sprintf("_%d", 1+r.Intn(9))
		case 3: // digit glued
			s = strings.Join(parts, "_") + fmt.Sprintf("%d", r.Intn(10))
		case 4: // digit then word
			s = parts[0] + fmt.Sprintf("%d", 1+r.Intn(4))
			if n > 1 {
				s += "_" + strings.Join(parts[1:], "_")
			}
		case 5: // upper-case acronym part
			s = strings.Join(parts, "_") + "_MSL"
		default:
			s = strings.Join(parts, "_")
		}
		if ns.take(s) {
			return s
		}
	}
}

var msgWords = []string{"VF", "STATUS", "RAW", "GPS", "IMU", "SCALED", "ATTITUDE", "TARGET", "ESC", "TELEMETRY", "PARAM", "VALUE", "CMD", "ACK", "INFO", "EXT", "DATA", "HIL", "RC", "NAV",
	// words that Go style guides write as initialisms (ID, URL, ...): in a MAVLink name they are words like any other
	"ID", "UID", "UUID", "URI", "URL", "CPU", "RAM", "TCP", "UDP", "HTTP", "API", "IP", "OK", "EOF", "ASCII", "JSON", "XML", "TLS", "VM", "DNS"}

func genMsgName(r *vh.RNG, ns *nameSpace) string {
	for {
		n := 1 + r.Intn(3)
		parts := make([]string, n)
		for i := range parts {
			parts[i] = msgWords[r.Intn(len(msgWords))]
		}
		s := strings.Join(parts, "_")
		switch r.Intn(6) {
		case 0:
			s += fmt.Sprintf("%d", 2+r.Intn(8)) // GPS2
		case 1:
			s += fmt.Sprintf("_%d_TO_%d", 1+r.Intn(4), 5+r.Intn(4)) // ESC_1_TO_4
		case 2:
			s = parts[0] + fmt.Sprintf("%d_", 2+r.Intn(3)) + strings.Join(parts[1:], "_")
			s = strings.TrimSuffix(s, "_")
		}
		s = "V" + s // keep away from real message names
		if ns.take(s) {
			return s
		}
	}
}

func genEnumValues(r *vh.RNG, n int, bitmask bool, taken map[uint64]bool) []ref.XEnumEntry {
	var out []ref.XEnumEntry
	render := func(v uint64) string {
		switch r.Intn(4) {
		case 0:
			return fmt.Sprintf("0x%X", v)
		case 1:
			if v < 1<<40 {
				return fmt.Sprintf("0b%b", v)
			}
		case 2:
			if v != 0 && v&(v-1) == 0 { // power of two
				e := 0
				for x := v; x > 1; x >>= 1 {
					e++
				}
				return fmt.Sprintf("2**%d", e)
			}
		}
		if r.Chance(1, 6) && v < 100000 {
			return fmt.Sprintf("%0*d", 3+r.Intn(4), v) // decimal with leading zeros (still decimal: "010" is ten)
		}
		return fmt.Sprintf("%d", v)
	}
	powText := map[uint64]string{}
	for len(out) < n {
		var v uint64
		if !bitmask && r.Chance(1, 8) {
			// an exact power of a base other than two, up to just below 2**64 (most of them need more than 53 bits)
			base := []uint64{3, 5, 6, 7, 10, 11, 15}[r.Intn(7)]
			v = 1
			e := 0
			for want := 1 + r.Intn(40); e < want && v <= (1<<64-1)/base; e++ {
				v *= base
			}
			if !taken[v] {
				powText[v] = fmt.Sprintf("%d**%d", base, e)
			}
		} else if bitmask {
			switch r.Intn(10) {
			case 0: // sparse high bit
				v = 1 << uint(r.Intn(64))
			case 1: // multi-bit combination entry
				v = 1<<uint(r.Intn(8)) | 1<<uint(8+r.Intn(8))
			case 2, 3: // a composite entry: the union of two flags declared before it (further flags follow it)
				if len(out) >= 2 {
					v = out[r.Intn(len(out))].Value | out[r.Intn(len(out))].Value
				} else {
					v = 1 << uint(len(out))
				}
			default:
				v = 1 << uint(len(out)+r.Intn(3))
			}
		} else {
			switch r.Intn(8) {
			case 0:
				v = r.U64() >> uint(r.Intn(64))
			case 1:
				v = 1 << 63
			case 2:
				v = uint64(r.Intn(70000))
			default:
				v = uint64(len(out) + r.Intn(4))
			}
		}
		if taken[v] {
			continue
		}
		taken[v] = true
		if t, ok := powText[v]; ok {
			out = append(out, ref.XEnumEntry{Value: v, ValueText: t})
			continue
		}
		out = append(out, ref.XEnumEntry{Value: v, ValueText: render(v)})
	}
	return out
}

// genBatch builds nDialects definition files with an include graph.
func genBatch(r *vh.RNG, prefix string, nDialects int) *xmlBatch {
	b := &xmlBatch{Files: map[string]*ref.XDialect{}}
	ns := &nameSpace{used: map[string]bool{}} // one name space per batch: any closure is collision-free
	ids := map[uint32]bool{}
	type enumInfo struct {
		name    string
		bitmask bool
		taken   map[uint64]bool
		file    string
	}
	var enums []*enumInfo
	var files []string
	closure := map[string]map[string]bool{} // file -> files reachable (incl. itself)
	for d := 0; d < nDialects; d++ {
		file := fmt.Sprintf("%sd%d.xml", prefix, d)
		if r.Chance(1, 4) {
			file = fmt.Sprintf("%s_d%d.xml", prefix, d) // underscore is dropped from the package name
		}
		x := &ref.XDialect{File: file}
		if r.Chance(2, 3) {
			x.Noise = r.U64() | 1
		}
		closure[file] = map[string]bool{file: true}
		// includes: earlier files (chains, diamonds, shared includes)
		if d > 0 && r.Chance(2, 3) {
			ninc := 1 + r.Intn(3)
			for k := 0; k < ninc; k++ {
				inc := files[r.Intn(len(files))]
				dup := false
				for _, e := range x.Includes {
					dup = dup || e == inc
				}
				if dup {
					continue
				}
				x.Includes = append(x.Includes, inc)
				for f := range closure[inc] {
					closure[file][f] = true
				}
			}
		}
		if r.Chance(3, 4) {
			x.Version = fmt.Sprintf("%d", r.Intn(256))
			if r.Chance(1, 4) {
				x.Version = "0" // an explicit version 0 is a version like any other (it overrides what the includes say)
			}
		}
		// enums
		nen := r.Intn(5)
		for k := 0; k < nen; k++ {
			var ei *enumInfo
			// sometimes extend an enum of an included file (merged across includes, disjoint entries)
			if len(x.Includes) > 0 && r.Chance(1, 4) {
				var cands []*enumInfo
				for _, e := range enums {
					if closure[file][e.file] && e.file != file {
						cands = append(cands, e)
					}
				}
				if len(cands) > 0 {
					ei = cands[r.Intn(len(cands))]
					already := false
					for _, xe := range x.Enums {
						already = already || xe.Name == ei.name
					}
					if already {
						ei = nil
					}
				}
			}
			if ei == nil {
				var name string
				for {
					name = fmt.Sprintf("VF_%s_%s", msgWords[r.Intn(len(msgWords))], []string{"TYPE", "FLAGS", "MODE", "STATE", "KIND"}[r.Intn(5)])
					if r.Chance(1, 3) {
						name += fmt.Sprintf("%d", r.Intn(10))
					}
					if ns.take(name) {
						break
					}
				}
				ei = &enumInfo{name: name, bitmask: r.Chance(2, 5), taken: map[uint64]bool{}, file: file}
				enums = append(enums, ei)
			}
			xe := ref.XEnum{Name: ei.name, Bitmask: ei.bitmask}
			lowerNames := r.Chance(1, 6)
			for _, en := range genEnumValues(r, 1+r.Intn(8), ei.bitmask, ei.taken) {
				for {
					en.Name = fmt.Sprintf("%s_%s%d", ei.name, msgWords[r.Intn(len(msgWords))], r.Intn(1000))
					if lowerNames {
						// entry names that do not begin with a capital (the schema does not demand one): the text of a value is the
						// XML name, whatever the generator calls the Go constant
						en.Name = strings.ToLower(en.Name[:1]) + en.Name[1:]
						if r.Chance(1, 2) {
							en.Name = strings.ToLower(en.Name)
						}
					}
					if ns.take(en.Name) {
						break
					}
				}
				xe.Entries = append(xe.Entries, en)
			}
			x.Enums = append(x.Enums, xe)
		}
		// messages
		nmsg := 1 + r.Intn(12)
		for k := 0; k < nmsg; k++ {
			m := ref.XMessage{Name: genMsgName(r, ns)}
			for {
				switch r.Intn(4) {
				case 0:
					m.ID = uint32(r.Intn(256))
				case 1:
					m.ID = uint32(256 + r.Intn(65280))
				case 2:
					m.ID = uint32(r.Intn(1 << 24))
				default:
					m.ID = []uint32{0xFFFFFF, 0x10000, 0xFFFF, 0x100, 255, 0x800000}[r.Intn(6)]
				}
				if !ids[m.ID] {
					ids[m.ID] = true
					break
				}
			}
			fns := &nameSpace{used: map[string]bool{}}
			nf := 1 + r.Intn(20)
			wide := k == 0 && d%4 == 1
			if wide {
				nf = 64 - r.Intn(2) // the largest number of fields a message may have (64), and one below
			}
			extFrom := nf // index of the first extension field
			if r.Chance(1, 2) {
				extFrom = 1 + r.Intn(nf)
			}
			size := 0
			for i := 0; i < nf; i++ {
				f := ref.XField{Name: genFieldName(r, fns), Ext: i >= extFrom}
				f.Type = scalarTypes[r.Intn(len(scalarTypes))]
				if wide {
					// small scalars only, so that all of them fit into 255 bytes
					f.Type = []string{"uint8_t", "int8_t", "uint16_t", "char", "uint8_t", "int16_t"}[r.Intn(6)]
					if size+(nf-i)*2 > 250 {
						f.Type = "uint8_t"
					}
				}
				if r.Chance(1, 25) && !wide {
					f.Type = "uint8_t_mavlink_version"
				}
				// enum-typed field on a base type that can carry one
				var usable []*enumInfo
				for _, e := range enums {
					if closure[file][e.file] {
						usable = append(usable, e)
					}
				}
				if len(usable) > 0 && r.Chance(1, 5) {
					f.Type = enumBaseTypes[r.Intn(len(enumBaseTypes))]
					f.Enum = usable[r.Intn(len(usable))].name
				}
				if f.Type != "uint8_t_mavlink_version" && r.Chance(1, 3) && !wide {
					f.ArrayLen = 1 + r.Intn(32)
					if r.Chance(1, 6) {
						f.ArrayLen = 1
					}
				}
				if f.Type == "char" && r.Chance(2, 3) && f.ArrayLen == 0 && !wide {
					f.ArrayLen = 1 + r.Intn(50)
				}
				cnt := f.ArrayLen
				if cnt == 0 {
					cnt = 1
				}
				if size+typeSize[f.Type]*cnt > 255 {
					// shrink to what fits
					f.ArrayLen = 0
					if size+typeSize[f.Type] > 255 {
						break
					}
					cnt = 1
				}
				size += typeSize[f.Type] * cnt
				m.Fields = append(m.Fields, f)
			}
			if len(m.Fields) == 0 || m.Fields[0].Ext {
				continue
			}
			x.Messages = append(x.Messages, m)
		}
		if len(x.Messages) == 0 {
			x.Messages = append(x.Messages, ref.XMessage{ID: func() uint32 {
				for {
					id := uint32(r.Intn(1 << 24))
					if !ids[id] {
						ids[id] = true
						return id
					}
				}
			}(), Name: genMsgName(r, ns), Fields: []ref.XField{{Type: "uint8_t", Name: "only"}}})
		}
		b.Files[file] = x
		files = append(files, file)
		b.Tops = append(b.Tops, file)
	}
	// two include-only definitions whose file names differ only by an underscore / letter case (both normalise to the
	// same package-name string) and one top-level dialect including both: they are different files and both count
	if nDialects >= 4 {
		mk := func(file string, tag string) *ref.XDialect {
			x := &ref.XDialect{File: file}
			var id uint32
			for {
				id = uint32(r.Intn(1 << 24))
				if !ids[id] {
					ids[id] = true
					break
				}
			}
			x.Messages = []ref.XMessage{{ID: id, Name: genMsgName(r, ns), Fields: []ref.XField{{Type: "uint16_t", Name: "v_" + tag}, {Type: "uint8_t", Name: "w_" + tag}}}}
			return x
		}
		a := mk(prefix+"_sensor_pod.xml", "a")
		c := mk(prefix+"_sensorpod.xml", "c")
		b.Files[a.File], b.Files[c.File] = a, c
		// two more include-only definitions with one and the same file name in two directories (two vendors' "sensors.xml")
		va := mk("vendor_a/"+prefix+"_sensors.xml", "va")
		vb := mk("vendor_b/"+prefix+"_sensors.xml", "vb")
		b.Files[va.File], b.Files[vb.File] = va, vb
		top := &ref.XDialect{File: prefix + "twin.xml", Version: "4", Includes: []string{a.File, c.File, va.File, vb.File},
			Messages: []ref.XMessage{{ID: func() uint32 {
				for {
					id := uint32(r.Intn(1 << 24))
					if !ids[id] {
						ids[id] = true
						return id
					}
				}
			}(), Name: genMsgName(r, ns), Fields: []ref.XField{{Type: "uint32_t", Name: "t"}}}}}
		b.Files[top.File] = top
		b.Tops = append(b.Tops, top.File)
		// bitmask enums that are merged from an include-only base definition and an extension in the dialect that includes it:
		// base ascending with a high flag and the extension adding LOWER flags; base descending; extension between the base's
		// flags; a composite of base and extension flags
		up := strings.ToUpper(strings.Trim(prefix, "_"))
		base := &ref.XDialect{File: prefix + "_mergebase.xml", Enums: []ref.XEnum{
			{Name: "VF_" + up + "_MERGE_UP", Bitmask: true, Entries: []ref.XEnumEntry{{Name: "VF_" + up + "_MU_A", Value: 1, ValueText: "1"}, {Name: "VF_" + up + "_MU_B", Value: 2, ValueText: "2"}, {Name: "VF_" + up + "_MU_HIGH", Value: 0x8000, ValueText: "0x8000"}}},
			{Name: "VF_" + up + "_MERGE_DOWN", Bitmask: true, Entries: []ref.XEnumEntry{{Name: "VF_" + up + "_MD_A", Value: 128, ValueText: "128"}, {Name: "VF_" + up + "_MD_B", Value: 16, ValueText: "16"}, {Name: "VF_" + up + "_MD_C", Value: 2, ValueText: "2"}}},
			{Name: "VF_" + up + "_MERGE_PLAIN", Bitmask: true, Entries: []ref.XEnumEntry{{Name: "VF_" + up + "_MP_A", Value: 4, ValueText: "4"}, {Name: "VF_" + up + "_MP_B", Value: 32, ValueText: "32"}, {Name: "VF_" + up + "_MP_C", Value: 0x4000, ValueText: "0x4000"}}},
			// an ORDINARY enum whose extension carries bitmask="true": the first definition decides, it stays ordinary (3 is the
			// name of its own entry, not "1 | 2"; 0 has a name; 4, 8 and 2^40 are entries)
			{Name: "VF_" + up + "_MERGE_ORD", Entries: []ref.XEnumEntry{{Name: "VF_" + up + "_MO_IDLE", Value: 0, ValueText: "0"}, {Name: "VF_" + up + "_MO_RUN", Value: 1, ValueText: "1"}, {Name: "VF_" + up + "_MO_BOOST", Value: 2, ValueText: "2"}, {Name: "VF_" + up + "_MO_BOTH", Value: 3, ValueText: "3"}}},
			// flags of several bits that overlap: 3 and 6 (7 is "both"), 8 and 24 without a flag 16
			{Name: "VF_" + up + "_OVERLAP", Bitmask: true, Entries: []ref.XEnumEntry{{Name: "VF_" + up + "_OV_X", Value: 3, ValueText: "3"}, {Name: "VF_" + up + "_OV_Y", Value: 6, ValueText: "6"}, {Name: "VF_" + up + "_OV_W", Value: 8, ValueText: "8"}, {Name: "VF_" + up + "_OV_V", Value: 24, ValueText: "24"}, {Name: "VF_" + up + "_OV_U", Value: 0x60, ValueText: "0x60"}, {Name: "VF_" + up + "_OV_T", Value: 0x30, ValueText: "0x30"}}},
		}}
		ext := &ref.XDialect{File: prefix + "_mergetop.xml", Version: "2", Includes: []string{base.File}, Enums: []ref.XEnum{
			{Name: "VF_" + up + "_MERGE_UP", Bitmask: true, Entries: []ref.XEnumEntry{{Name: "VF_" + up + "_MU_C", Value: 4, ValueText: "4"}, {Name: "VF_" + up + "_MU_D", Value: 8, ValueText: "0b1000"}, {Name: "VF_" + up + "_MU_AD", Value: 9, ValueText: "9"}}},
			{Name: "VF_" + up + "_MERGE_DOWN", Bitmask: true, Entries: []ref.XEnumEntry{{Name: "VF_" + up + "_MD_D", Value: 64, ValueText: "64"}, {Name: "VF_" + up + "_MD_E", Value: 1, ValueText: "1"}, {Name: "VF_" + up + "_MD_F", Value: 256, ValueText: "2**8"}}},
			// (the extension does not repeat the bitmask attribute, as extensions in the upstream dialects usually do not: the
			// enum is the bitmask its first definition declared)
			{Name: "VF_" + up + "_MERGE_PLAIN", Entries: []ref.XEnumEntry{{Name: "VF_" + up + "_MP_D", Value: 1, ValueText: "1"}, {Name: "VF_" + up + "_MP_E", Value: 2048, ValueText: "2048"}, {Name: "VF_" + up + "_MP_F", Value: 8, ValueText: "8"}}},
			{Name: "VF_" + up + "_MERGE_ORD", Bitmask: true, Entries: []ref.XEnumEntry{{Name: "VF_" + up + "_MO_FOUR", Value: 4, ValueText: "4"}, {Name: "VF_" + up + "_MO_EIGHT", Value: 8, ValueText: "8"}, {Name: "VF_" + up + "_MO_FAR", Value: 1 << 40, ValueText: "2**40"}, {Name: "VF_" + up + "_MO_FIVE", Value: 5, ValueText: "5"}}},
		}, Messages: []ref.XMessage{{ID: func() uint32 {
			for {
				id := uint32(r.Intn(1 << 24))
				if !ids[id] {
					ids[id] = true
					return id
				}
			}
		}(), Name: genMsgName(r, ns), Fields: []ref.XField{{Type: "uint16_t", Name: "m"}}}}}
		b.Files[base.File], b.Files[ext.File] = base, ext
		b.Tops = append(b.Tops, ext.File)
		// a dialect that says <version>0</version> over an include with version 3: its version is 0
		vinc := &ref.XDialect{File: prefix + "_verinc.xml", Version: "3", Messages: []ref.XMessage{{ID: 44001, Name: "VF_" + up + "_VERINC_ARRAY_TEST_0", Fields: []ref.XField{{Type: "uint8_t", Name: "a"}}}}}
		vtop := &ref.XDialect{File: prefix + "_verzero.xml", Version: "0", Includes: []string{vinc.File}, Messages: []ref.XMessage{{ID: 44002, Name: "VF_" + up + "_OBSTACLE_3D_1_TO_4", Fields: []ref.XField{{Type: "uint16_t", Name: "d"}}}}}
		b.Files[vinc.File], b.Files[vtop.File] = vinc, vtop
		b.Tops = append(b.Tops, vtop.File)
	}
	return b
}

// genLinkBatch: link mode. The included definition is named like a shipped dialect ("minimal.xml", a subset of the real one:
// the bitmask enum MAV_MODE_FLAG with its eight flags) and is NOT generated; the dialect that includes it extends that
// enum with two more flags, so the merged enum belongs to the generated package - still a bitmask, with all ten flags.
func genLinkBatch(r *vh.RNG, prefix string) *xmlBatch {
	b := &xmlBatch{Files: map[string]*ref.XDialect{}, Link: true}
	ns := &nameSpace{used: map[string]bool{}}
	flag := func(name string, v uint64) ref.XEnumEntry {
		return ref.XEnumEntry{Name: name, Value: v, ValueText: fmt.Sprintf("%d", v)}
	}
	b.Files["minimal.xml"] = &ref.XDialect{File: "minimal.xml", Version: "3", Enums: []ref.XEnum{{Name: "MAV_MODE_FLAG", Bitmask: true, Entries: []ref.XEnumEntry{
		flag("MAV_MODE_FLAG_SAFETY_ARMED", 128), flag("MAV_MODE_FLAG_MANUAL_INPUT_ENABLED", 64), flag("MAV_MODE_FLAG_HIL_ENABLED", 32), flag("MAV_MODE_FLAG_STABILIZE_ENABLED", 16),
		flag("MAV_MODE_FLAG_GUIDED_ENABLED", 8), flag("MAV_MODE_FLAG_AUTO_ENABLED", 4), flag("MAV_MODE_FLAG_TEST_ENABLED", 2), flag("MAV_MODE_FLAG_CUSTOM_MODE_ENABLED", 1)}}}}
	up := strings.ToUpper(strings.Trim(prefix, "_"))
	top := &ref.XDialect{File: prefix + "linked.xml", Version: "3", Includes: []string{"minimal.xml"}, Enums: []ref.XEnum{
		{Name: "MAV_MODE_FLAG", Bitmask: true, Entries: []ref.XEnumEntry{flag("VF_"+up+"_MODE_FLAG_X", 256), flag("VF_"+up+"_MODE_FLAG_Y", 1<<20)}},
		{Name: "VF_" + up + "_LINK_KIND", Entries: []ref.XEnumEntry{flag("VF_"+up+"_LINK_KIND_A", 0), flag("VF_"+up+"_LINK_KIND_B", 7)}},
	}, Messages: []ref.XMessage{{ID: uint32(40000 + r.Intn(10000)), Name: genMsgName(r, ns), Fields: []ref.XField{{Type: "uint32_t", Name: "mode", Enum: "MAV_MODE_FLAG"}, {Type: "uint8_t", Name: "kind", Enum: "VF_" + up + "_LINK_KIND"}}}}}
	b.Files[top.File] = top
	b.Tops = []string{top.File}
	return b
}

// genRemoteBatch: a definition tree as it is published on a web server, with a sub-directory whose file has a relative
// include of its own: root -> vendor/ext.xml -> base.xml (= vendor/base.xml), and root -> base.xml (another document of
// the same name in the root directory); a second root in a sub-directory including "../" + a root-level file.
func genRemoteBatch(r *vh.RNG, prefix string) *xmlBatch {
	b := &xmlBatch{Files: map[string]*ref.XDialect{}, Remote: true}
	ns := &nameSpace{used: map[string]bool{}}
	ids := map[uint32]bool{}
	mk := func(file string, tag string, includes ...string) *ref.XDialect {
		x := &ref.XDialect{File: file, Includes: includes}
		var id uint32
		for {
			id = uint32(r.Intn(1 << 24))
			if !ids[id] {
				ids[id] = true
				break
			}
		}
		x.Messages = []ref.XMessage{{ID: id, Name: genMsgName(r, ns), Fields: []ref.XField{{Type: "uint16_t", Name: "v_" + tag}, {Type: "uint32_t", Name: "w_" + tag}}}}
		b.Files[file] = x
		return x
	}
	sub := prefix + "vendor"
	mk(prefix+"base.xml", "rootbase")
	mk(sub+"/"+prefix+"base.xml", "vendorbase")
	mk(sub+"/"+prefix+"ext.xml", "ext", prefix+"base.xml")
	mk(sub+"/deep/"+prefix+"leaf.xml", "leaf", "../"+prefix+"ext.xml")
	root := mk(prefix+"root.xml", "root", sub+"/"+prefix+"ext.xml", prefix+"base.xml")
	root.Version = "3"
	flat := mk(prefix+"flat.xml", "flat", prefix+"base.xml")
	flat.Version = "2"
	deep := mk(prefix+"deeproot.xml", "deeproot", sub+"/deep/"+prefix+"leaf.xml")
	deep.Version = "5"
	b.Tops = []string{root.File, flat.File, deep.File}
	return b
}

// expected describes what the generator must produce for a top-level file.
type expectedDialect struct {
	PkgName   string
	Version   int
	Messages  []*ref.XMessage // in processing order
	Enums     map[string]*ref.XEnum
	EnumOrder []string
}

func pkgNameOf(file string) string {
	s := strings.TrimSuffix(file, ".xml")
	return strings.ToLower(strings.ReplaceAll(s, "_", ""))
}

// expect walks the include closure the way the definition semantics prescribe: includes first
// (depth first, each file once), then the file itself; the version of the latest processed file
// that has one wins; same-named enums are merged in processing order.
func (b *xmlBatch) expect(top string) *expectedDialect {
	e := &expectedDialect{PkgName: pkgNameOf(top), Enums: map[string]*ref.XEnum{}}
	seen := map[string]bool{}
	version := ""
	var walk func(f string)
	walk = func(f string) {
		if seen[f] {
			return
		}
		seen[f] = true
		x := b.Files[f]
		for _, inc := range x.Includes {
			if b.Remote {
				inc = path.Join(path.Dir(f), inc)
			}
			walk(inc)
		}
		if x.Version != "" {
			version = x.Version
		}
		for i := range x.Enums {
			xe := &x.Enums[i]
			if cur, ok := e.Enums[xe.Name]; ok {
				cur.Entries = append(cur.Entries, xe.Entries...)
			} else {
				cp := *xe
				cp.Entries = append([]ref.XEnumEntry(nil), xe.Entries...)
				e.Enums[xe.Name] = &cp
				e.EnumOrder = append(e.EnumOrder, xe.Name)
			}
		}
		for i := range x.Messages {
			e.Messages = append(e.Messages, &x.Messages[i])
		}
	}
	walk(top)
	fmt.Sscanf(version, "%d", &e.Version)
	return e
}
