package genprops

import (
	"bytes"
	"fmt"
	"reflect"
	"sync"
	"sync/atomic"
	"testing"

	"github.com/bluenviron/gomavlib/v3/pkg/dialect"
	"github.com/bluenviron/gomavlib/v3/pkg/dialects/common"
	"github.com/bluenviron/gomavlib/v3/pkg/message"

	"verifharness/dialects"
	"verifharness/ref"
	twincommon "verifharness/twin/common"
	"verifharness/vh"
)

// C17 — shipped dialects are well-formed and mutually consistent.

// malformed message structs (the malformations the library documents as errors)
type BadName struct{ A uint8 }

func (*BadName) GetID() uint32 { return 60001 }

type MessageBadFieldType struct {
	A uint8
	B int
}

func (*MessageBadFieldType) GetID() uint32 { return 60002 }

type MessageBadFieldBool struct{ A bool }

func (*MessageBadFieldBool) GetID() uint32 { return 60003 }

type MessageBadFieldSlice struct{ A []byte }

func (*MessageBadFieldSlice) GetID() uint32 { return 60004 }

type MessageBadEnumGoType struct {
	A uint8 `mavenum:"uint8"`
}

func (*MessageBadEnumGoType) GetID() uint32 { return 60005 }

type MessageBadEnumWire struct {
	A uint64 `mavenum:"float32"`
}

func (*MessageBadEnumWire) GetID() uint32 { return 60006 }

type MessageBadEnumUnknown struct {
	A uint64 `mavenum:"foo"`
}

func (*MessageBadEnumUnknown) GetID() uint32 { return 60007 }

type MessageBadMavlen struct {
	A string `mavlen:"abc"`
}

func (*MessageBadMavlen) GetID() uint32 { return 60008 }

type MessageBadEnumInt16 struct {
	A uint64 `mavenum:"int16"`
}

func (*MessageBadEnumInt16) GetID() uint32 { return 60009 }

// fields of defined types whose underlying kind the codec knows, without the enum tag (e.g. the tag was forgotten)
type (
	vfNamedU8  uint8
	vfNamedStr string
	vfNamedF32 float32
)

type MessageBadNamedEnum struct {
	A common.MAV_MODE
}

func (*MessageBadNamedEnum) GetID() uint32 { return 60010 }

type MessageBadNamedU8 struct {
	A uint16
	B vfNamedU8
}

func (*MessageBadNamedU8) GetID() uint32 { return 60011 }

type MessageBadNamedString struct {
	A vfNamedStr `mavlen:"5"`
}

func (*MessageBadNamedString) GetID() uint32 { return 60012 }

type MessageBadNamedFloat struct {
	A [3]vfNamedF32
}

func (*MessageBadNamedFloat) GetID() uint32 { return 60013 }

type MessageBadPointer struct {
	A *uint8
}

func (*MessageBadPointer) GetID() uint32 { return 60014 }

type MessageBadNested struct {
	A struct{ X uint8 }
}

func (*MessageBadNested) GetID() uint32 { return 60015 }

type vfI8 int8

type MessageBadEnumArrayElem struct {
	A [4]vfI8 `mavenum:"int8"`
}

func (*MessageBadEnumArrayElem) GetID() uint32 { return 60016 }

// user messages around the one-byte / two-byte / three-byte id boundaries
type MessageVfId254 struct{ A uint8 }

func (*MessageVfId254) GetID() uint32 { return 254 }

type MessageVfId255 struct{ A uint16 }

func (*MessageVfId255) GetID() uint32 { return 255 }

type MessageVfId255Dup struct{ B uint32 }

func (*MessageVfId255Dup) GetID() uint32 { return 255 }

type MessageVfId256 struct{ A uint32 }

func (*MessageVfId256) GetID() uint32 { return 256 }

type MessageVfId65535 struct{ A uint8 }

func (*MessageVfId65535) GetID() uint32 { return 65535 }

type MessageVfId65536 struct{ A uint16 }

func (*MessageVfId65536) GetID() uint32 { return 65536 }

type MessageVfId16777215 struct{ A uint32 }

func (*MessageVfId16777215) GetID() uint32 { return 16777215 }

type MessageFine struct {
	A uint16
	B string `mavlen:"4"`
}

func (*MessageFine) GetID() uint32 { return 60100 }

// enums of other integer kinds than uint64, with every wire type (signed ones included)
type (
	vfI64 int64
	vfI32 int32
	vfU32 uint32
)

type MessageBadEnumInt64Kind struct {
	A vfI64 `mavenum:"int32"`
}

func (*MessageBadEnumInt64Kind) GetID() uint32 { return 60017 }

type MessageBadEnumInt64KindInt8 struct {
	A uint8
	B [2]vfI64 `mavenum:"int8"`
}

func (*MessageBadEnumInt64KindInt8) GetID() uint32 { return 60018 }

type MessageBadEnumInt32Kind struct {
	A vfI32 `mavenum:"int32"`
}

func (*MessageBadEnumInt32Kind) GetID() uint32 { return 60019 }

type MessageBadEnumUint32Kind struct {
	A vfU32 `mavenum:"uint32"`
}

func (*MessageBadEnumUint32Kind) GetID() uint32 { return 60020 }

type MessageFineDup struct{ Z uint8 }

func (*MessageFineDup) GetID() uint32 { return 60100 }

func malformed() map[string]message.Message {
	return map[string]message.Message{
		"name-not-Message": &BadName{}, "field-int": &MessageBadFieldType{}, "field-bool": &MessageBadFieldBool{}, "field-slice": &MessageBadFieldSlice{},
		"enum-not-uint64": &MessageBadEnumGoType{}, "enum-on-float": &MessageBadEnumWire{}, "enum-unknown-type": &MessageBadEnumUnknown{},
		"enum-on-int16": &MessageBadEnumInt16{}, "mavlen-not-a-number": &MessageBadMavlen{},
		"field-named-enum-untagged": &MessageBadNamedEnum{}, "field-named-uint8": &MessageBadNamedU8{}, "field-named-string": &MessageBadNamedString{},
		"field-named-float-array": &MessageBadNamedFloat{}, "field-pointer": &MessageBadPointer{}, "field-nested-struct": &MessageBadNested{},
		"enum-array-of-non-uint64": &MessageBadEnumArrayElem{},
		"enum-int64-kind-on-int32": &MessageBadEnumInt64Kind{}, "enum-int64-kind-array-on-int8": &MessageBadEnumInt64KindInt8{},
		"enum-int32-kind-on-int32": &MessageBadEnumInt32Kind{}, "enum-uint32-kind-on-uint32": &MessageBadEnumUint32Kind{},
	}
}

// c17boundaryIDs: a user dialect whose ids sit on the 8/16/24-bit boundaries: every id is found, its neighbours are not,
// a second message with one of these ids is refused.
func c17boundaryIDs(rep *vh.Report) {
	msgs := []message.Message{&MessageVfId254{}, &MessageVfId255{}, &MessageVfId256{}, &MessageVfId65535{}, &MessageVfId65536{}, &MessageVfId16777215{}, &common.MessageHeartbeat{}}
	rw := &dialect.ReadWriter{Dialect: &dialect.Dialect{Version: 1, Messages: msgs}}
	if err, p := safeInit(rw); err != nil || p != nil {
		rep.Violation("dialect=user what=init", fmt.Sprintf("a well-formed user dialect with ids on the byte boundaries was refused: %v %v", err, p), nil)
		return
	}
	present := map[uint32]message.Message{}
	for _, m := range msgs {
		present[m.GetID()] = m
	}
	for _, id := range []uint32{0, 1, 253, 254, 255, 256, 257, 511, 65534, 65535, 65536, 65537, 16777214, 16777215, 16777216, 1<<32 - 1} {
		rep.Eval(1)
		rep.Count("boundary_id_lookups", 1)
		got := rw.GetMessage(id)
		want := present[id]
		switch {
		case want == nil && got != nil:
			rep.Violation("dialect=user what=lookup", fmt.Sprintf("GetMessage(%d) returns a codec although the dialect has no message with that id", id), nil)
		case want != nil && got == nil:
			rep.Violation("dialect=user what=lookup", fmt.Sprintf("GetMessage(%d) returns nothing although the dialect defines a message with that id", id), nil)
		case want != nil && reflect.TypeOf(got.Message) != reflect.TypeOf(want):
			rep.Violation("dialect=user what=lookup", fmt.Sprintf("GetMessage(%d) returns the codec of %T", id, got.Message), nil)
		}
	}
	for pos := 0; pos <= len(msgs); pos++ {
		dup := append(append(append([]message.Message{}, msgs[:pos]...), &MessageVfId255Dup{}), msgs[pos:]...)
		rep.Eval(1)
		err, p := safeInit(&dialect.ReadWriter{Dialect: &dialect.Dialect{Version: 1, Messages: dup}})
		if p != nil || err == nil {
			rep.Violation("dialect=user what=accepts:duplicate-id", fmt.Sprintf("a dialect with two messages of id 255 was accepted by Initialize (duplicate inserted at position %d; panic: %v)", pos, p), nil)
			break
		}
	}
}

// ids above 2^24-1 (GetID returns a uint32; such ids never travel, but a table that takes them must treat them like any
// other): found under their own id only, and two messages that share one are a duplicate like any other
type MessageVfIdWide struct{ A uint8 }

func (*MessageVfIdWide) GetID() uint32 { return 1<<24 + 30 }

type MessageVfIdWideDup struct{ B uint16 }

func (*MessageVfIdWideDup) GetID() uint32 { return 1<<24 + 30 }

func c17wideIDs(rep *vh.Report) {
	base := []message.Message{&common.MessageHeartbeat{}, &common.MessageAttitude{}, &MessageVfIdWide{}}
	rw := &dialect.ReadWriter{Dialect: &dialect.Dialect{Version: 1, Messages: base}}
	rep.Eval(1)
	if err, p := safeInit(rw); err != nil || p != nil {
		rep.Observe(fmt.Sprintf("a user dialect with a message id above 2^24-1 is refused by Initialize: %v %v", err, p))
		return
	}
	rep.Count("wide_id_dialects", 1)
	for _, id := range []uint32{30, 1 << 24, 1<<24 + 30, 1<<24 + 31, 1<<25 + 30} {
		got := rw.GetMessage(id)
		var want reflect.Type
		switch id {
		case 30:
			want = reflect.TypeOf(&common.MessageAttitude{})
		case 1<<24 + 30:
			want = reflect.TypeOf(&MessageVfIdWide{})
		}
		if (want == nil) != (got == nil) || (got != nil && reflect.TypeOf(got.Message) != want) {
			rep.Violation("dialect=user what=lookup", fmt.Sprintf("dialect {0, 30, 2^24+30}: GetMessage(%d) returns %v", id, got), nil)
		}
	}
	for pos := 0; pos <= len(base); pos++ {
		dup := append(append(append([]message.Message{}, base[:pos]...), &MessageVfIdWideDup{}), base[pos:]...)
		rep.Eval(1)
		if err, p := safeInit(&dialect.ReadWriter{Dialect: &dialect.Dialect{Version: 1, Messages: dup}}); p != nil || err == nil {
			rep.Violation("dialect=user what=accepts:duplicate-id", fmt.Sprintf("a dialect with two messages of id 2^24+30 was accepted by Initialize (duplicate inserted at position %d; panic: %v)", pos, p), nil)
			break
		}
	}
}

func c17twinPackage(rep *vh.Report, r *vh.RNG) {
	twins := []message.Message{&twincommon.MessageHeartbeat{}, &twincommon.MessageDebug{}, &twincommon.MessageParamRequestRead{}}
	for round := 0; round < 2; round++ {
		// the twin types together with shipped messages of other ids; second round: the shipped definitions of the same names again
		msgs := append([]message.Message{}, twins...)
		if round == 1 {
			msgs = []message.Message{&common.MessageHeartbeat{}, &common.MessageDebug{}, &common.MessageParamRequestRead{}}
		}
		msgs = append(msgs, &common.MessageSysStatus{}, &common.MessageAttitude{})
		rw := &dialect.ReadWriter{Dialect: &dialect.Dialect{Version: 3, Messages: msgs}}
		err, p := safeInit(rw)
		if p != nil || err != nil {
			rep.Violation("dialect=twin what=init", fmt.Sprintf("a well-formed dialect whose package and message names coincide with shipped ones was not initialised: %v %v", err, p), nil)
			return
		}
		for _, m := range msgs[:3] {
			rep.Eval(1)
			rep.Count("twin_package_lookups", 1)
			typ := reflect.TypeOf(m).Elem()
			lay, lerr := ref.LayoutOf(typ)
			if lerr != nil {
				rep.HarnessError(lerr.Error())
				return
			}
			codec := rw.GetMessage(m.GetID())
			wit := map[string]interface{}{"type": typ.PkgPath() + "." + typ.Name(), "id": m.GetID(), "round": round}
			if codec == nil {
				rep.Violation("dialect=twin what=lookup", "GetMessage(id) returned nothing for a message of the dialect", wit)
				continue
			}
			if codec.CRCExtra() != lay.CRCExtra {
				rep.Violation("dialect=twin what=lookup", fmt.Sprintf("GetMessage(id) returned a codec with CRC_EXTRA %d; the definition of the dialect's own type gives %d", codec.CRCExtra(), lay.CRCExtra), wit)
				continue
			}
			val := reflect.New(typ)
			vh.FillMessage(r, lay, val, vh.ModeMixed)
			raw := codec.Write(val.Interface().(message.Message), true)
			if !bytes.Equal(raw.Payload, lay.Encode(val, true)) {
				rep.Violation("dialect=twin what=lookup", "the codec returned for the id encodes the dialect's own type with another layout", wit)
				continue
			}
			back, derr := codec.Read(raw, true)
			if derr != nil || reflect.TypeOf(back) != reflect.TypeOf(m) {
				rep.Violation("dialect=twin what=lookup", fmt.Sprintf("the codec returned for the id decodes into %T (%v)", back, derr), wit)
			}
		}
	}
}

func safeInit(rw *dialect.ReadWriter) (err error, panicked interface{}) {
	defer func() {
		if p := recover(); p != nil {
			panicked = p
		}
	}()
	return rw.Initialize(), nil
}

func TestC17(t *testing.T) {
	rep := vh.NewReport("C17")
	defer rep.Finish(t)
	rep.Rule("complete enumeration of the 19 shipped dialect packages: Initialize; independent id-uniqueness count; GetMessage(id) over ids 0..K plus random ids (thorough: every id in 0..2^24-1) " +
		"returns the codec of the message with that id / nil; spec extended size <= 255 for every definition; published CRC_EXTRA table; a generated probe program (source scan only enumerates " +
		"alias declarations and constant names) asserts reflect type identity of every `type X = other.X` and one numeric value per enum constant name across all packages; values decoded by one " +
		"dialect encode identically through every other dialect sharing the id; user dialects with injected duplicate ids / malformed structs (incl. re-initialisation of a mutated Dialect value) " +
		"must be rejected by Initialize. distinct = (dialect, message) pairs + constants + rejection cases")
	rep.RuleAdd("Rounds 12-15: ReadWriters re-initialised after in-place changes, enums of every integer kind, typed-nil prototypes, ids at 2^24, Initialize retried on the same objects.")
	rep.Assume("published CRC_EXTRA table reproduced from the MAVLink C library (harness/ref/golden.go)")
	seed := vh.Seed()
	r := vh.Sub(seed, "c17")

	all := dialects.All()
	rws := map[string]*dialect.ReadWriter{}
	totalMsgs := 0
	for _, d := range all {
		rep.Eval(1)
		rw := &dialect.ReadWriter{Dialect: d.Dialect}
		err, p := safeInit(rw)
		if p != nil || err != nil {
			rep.Violation(fmt.Sprintf("dialect=%s what=init", d.Name), fmt.Sprintf("shipped dialect does not initialize: %v %v", err, p), d.Name)
			continue
		}
		rws[d.Name] = rw
		// ids unique (independent count) and every message fits 255 bytes
		byID := map[uint32]message.Message{}
		for _, m := range d.Dialect.Messages {
			totalMsgs++
			rep.Eval(1)
			rep.Distinct(d.Name, reflect.TypeOf(m).String())
			if prev, dup := byID[m.GetID()]; dup {
				rep.Violation(fmt.Sprintf("dialect=%s what=dup-id", d.Name), fmt.Sprintf("id %d is used by %T and %T", m.GetID(), prev, m), d.Name)
			}
			byID[m.GetID()] = m
			l, err := ref.LayoutOf(reflect.TypeOf(m))
			if err != nil {
				rep.Violation(fmt.Sprintf("dialect=%s what=size:%T", d.Name, m), "reference cannot derive a layout: "+err.Error(), d.Name)
				continue
			}
			if l.SizeExt > 255 {
				rep.Violation(fmt.Sprintf("dialect=%s what=size:%T", d.Name, m), fmt.Sprintf("payload of %d bytes exceeds the 255-byte limit", l.SizeExt), d.Name)
			}
			// the codec the dialect hands out for this id must be this message's and agree with the spec
			mrw := rw.GetMessage(m.GetID())
			if mrw == nil || reflect.TypeOf(mrw.Message) != reflect.TypeOf(m) {
				rep.Violation(fmt.Sprintf("dialect=%s what=lookup:%d", d.Name, m.GetID()), "GetMessage does not return the codec of the message with that id", d.Name)
				continue
			}
			if mrw.CRCExtra() != l.CRCExtra {
				rep.Violation(fmt.Sprintf("dialect=%s what=crc:%s", d.Name, reflect.TypeOf(m).Elem().Name()),
					fmt.Sprintf("CRC_EXTRA %d, spec derivation %d", mrw.CRCExtra(), l.CRCExtra), d.Name)
			}
			// published values for the standard set (same struct type as in `common`)
			if want, ok := ref.GoldenCRCExtra[m.GetID()]; ok {
				for _, cm := range common.Dialect.Messages {
					if cm.GetID() == m.GetID() && reflect.TypeOf(cm) == reflect.TypeOf(m) {
						rep.Count("golden_crc_extra_checked", 1)
						if mrw.CRCExtra() != want {
							rep.Violation(fmt.Sprintf("dialect=%s what=crc:%s", d.Name, reflect.TypeOf(m).Elem().Name()),
								fmt.Sprintf("CRC_EXTRA %d differs from the published %d", mrw.CRCExtra(), want), d.Name)
						}
					}
				}
			}
			if d.Name == "test" && m.GetID() == 17000 && mrw.CRCExtra() != ref.GoldenTestTypesCRCExtra {
				rep.Violation("dialect=test what=crc:MessageTestTypes", fmt.Sprintf("CRC_EXTRA %d differs from the published %d", mrw.CRCExtra(), ref.GoldenTestTypesCRCExtra), nil)
			}
		}
		// lookups
		check := func(id uint32) {
			mrw := rw.GetMessage(id)
			want, present := byID[id]
			if present != (mrw != nil) || (present && (mrw.Message.GetID() != id || reflect.TypeOf(mrw.Message) != reflect.TypeOf(want))) {
				rep.Violation(fmt.Sprintf("dialect=%s what=lookup", d.Name), fmt.Sprintf("GetMessage(%d) wrong: present=%v got=%v", id, present, mrw != nil), id)
			}
		}
		if vh.Thorough() {
			for id := uint32(0); id < 1<<24; id++ {
				check(id)
			}
			rep.Eval(1 << 24)
			rep.Count("lookups", 1<<24)
		} else {
			for id := uint32(0); id < 70000; id++ {
				check(id)
			}
			for k := 0; k < 200000; k++ {
				check(uint32(r.U64() & 0xFFFFFF))
			}
			check(0xFFFFFF)
			rep.Eval(270001)
			rep.Count("lookups", 270001)
		}
	}
	// lookups from several goroutines at once on one ReadWriter (a Node shares it between all its channels)
	for _, d := range all {
		rw := rws[d.Name]
		if rw == nil || len(d.Dialect.Messages) < 2 {
			continue
		}
		var wg sync.WaitGroup
		var bad int32
		for g := 0; g < 8; g++ {
			wg.Add(1)
			gr := vh.Sub(seed, fmt.Sprintf("c17-conc-%s-%d", d.Name, g))
			go func() {
				defer wg.Done()
				for i := 0; i < vh.Pick(20000, 300000); i++ {
					m := d.Dialect.Messages[gr.Intn(len(d.Dialect.Messages))]
					id := m.GetID()
					if i%5 == 0 {
						id ^= 0x800000 // an absent id
					}
					mrw := rw.GetMessage(id)
					if id == m.GetID() {
						if mrw == nil || mrw.Message.GetID() != id {
							atomic.AddInt32(&bad, 1)
						}
					} else if mrw != nil && mrw.Message.GetID() != id {
						atomic.AddInt32(&bad, 1)
					}
				}
			}()
		}
		wg.Wait()
		rep.Eval(8 * vh.Pick(20000, 300000))
		rep.Count("concurrent_lookups", 8*vh.Pick(20000, 300000))
		if bad > 0 {
			rep.Violation(fmt.Sprintf("dialect=%s what=lookup:concurrent", d.Name), fmt.Sprintf("%d lookups made concurrently from several goroutines returned the codec of another message", bad), nil)
		}
	}
	rep.Count("dialect_messages", totalMsgs)
	rep.Set("dialects", len(all))

	// a value decoded by dialect A encodes identically through dialect B (shared ids of the same Go type)
	for ai, a := range all {
		for bi, b := range all {
			if ai >= bi || rws[a.Name] == nil || rws[b.Name] == nil {
				continue
			}
			bTypes := map[uint32]message.Message{}
			for _, m := range b.Dialect.Messages {
				bTypes[m.GetID()] = m
			}
			for _, m := range a.Dialect.Messages {
				bm, ok := bTypes[m.GetID()]
				if !ok {
					continue
				}
				if reflect.TypeOf(bm) != reflect.TypeOf(m) {
					if reflect.TypeOf(bm).Elem().Name() == reflect.TypeOf(m).Elem().Name() {
						rep.Observe(fmt.Sprintf("id %d: %s and %s define same-named but distinct Go types (%T vs %T)", m.GetID(), a.Name, b.Name, m, bm))
					}
					continue
				}
				if r.Intn(vh.Pick(6, 1)) != 0 {
					continue
				}
				l, _ := ref.LayoutOf(reflect.TypeOf(m))
				val := reflect.New(l.Type)
				vh.FillMessage(r, l, val, vh.ModeMixed)
				raw := &message.MessageRaw{ID: m.GetID(), Payload: l.Encode(val, true)}
				rep.Eval(1)
				rep.Count("cross_dialect_values", 1)
				da, err := rws[a.Name].GetMessage(m.GetID()).Read(raw, true)
				if err != nil {
					rep.Violation(fmt.Sprintf("dialect=%s what=alias:%s", a.Name, l.Type.Name()), "decode failed: "+err.Error(), nil)
					continue
				}
				ea := rws[a.Name].GetMessage(m.GetID()).Write(da, true)
				eb := rws[b.Name].GetMessage(m.GetID()).Write(da, true)
				db, errb := rws[b.Name].GetMessage(m.GetID()).Read(raw, true)
				same := errb == nil && reflect.TypeOf(da) == reflect.TypeOf(db)
				if same {
					same, _ = l.BitEqual(reflect.ValueOf(da), reflect.ValueOf(db))
				}
				if !bytes.Equal(ea.Payload, eb.Payload) || !same {
					rep.Violation(fmt.Sprintf("dialect=%s what=alias:%s", b.Name, l.Type.Name()),
						fmt.Sprintf("a value decoded by %s does not pass unchanged through %s", a.Name, b.Name), vh.Hex(raw.Payload))
				}
			}
		}
	}

	// generated probe: alias identity and constant values, executed against the compiled packages
	out, pkgs, err := probeShipped(seed, 0, false)
	if err != nil {
		t.Fatal(err)
	}
	for _, a := range out.Aliases {
		rep.Eval(1)
		rep.Count("alias_declarations_checked", 1)
		if !a.Same {
			rep.Violation(fmt.Sprintf("dialect=%s what=alias:%s", a.Pkg, a.Name), fmt.Sprintf("%s.%s is not the very same Go type as %s.%s", a.Pkg, a.Name, a.Target, a.Name), a)
		}
	}
	byName := map[string]map[uint64][]string{}
	for _, c := range out.Consts {
		if byName[c.Name] == nil {
			byName[c.Name] = map[uint64][]string{}
		}
		byName[c.Name][c.Value] = append(byName[c.Name][c.Value], c.Pkg)
	}
	for name, vals := range byName {
		rep.Eval(1)
		if len(vals) > 1 {
			rep.Violation("dialect=* what=const:"+name, "enum constant has different numeric values in different dialects", vals)
		}
	}
	rep.Count("constant_names_checked", len(byName))
	rep.Count("constants_compiled", len(out.Consts))
	rep.Set("packages_scanned", len(pkgs))
	rep.DistinctN(len(byName))
	rep.Sample(map[string]interface{}{"kind": "constant", "name": out.Consts[0].Name, "pkg": out.Consts[0].Pkg, "value": out.Consts[0].Value})
	if len(out.Aliases) > 0 {
		rep.Sample(map[string]interface{}{"kind": "alias", "decl": out.Aliases[0]})
	}

	// a user package named like a shipped one ("common") whose messages carry shipped names and ids with other definitions,
	// used after (and next to) the shipped dialects in this process: lookups return the codec of *that* type
	c17twinPackage(rep, r)
	c17boundaryIDs(rep)
	c17wideIDs(rep)

	// rejection at Initialize
	bad := malformed()
	nRej := vh.Pick(60, 1500)
	pool := common.Dialect.Messages
	for k := 0; k < nRej; k++ {
		// random subset of common + one injected defect at a random position
		var msgs []message.Message
		for _, i := range r.Perm(len(pool))[:1+r.Intn(40)] {
			msgs = append(msgs, pool[i])
		}
		var class string
		var inject message.Message
		if k%2 == 0 {
			class = "duplicate-id"
			inject = msgs[r.Intn(len(msgs))]
			if r.Chance(1, 2) {
				msgs = append(msgs, &MessageFine{})
				inject = &MessageFineDup{}
			}
		} else {
			names := make([]string, 0, len(bad))
			for n := range bad {
				names = append(names, n)
			}
			// deterministic order
			for i := 1; i < len(names); i++ {
				for j := i; j > 0 && names[j] < names[j-1]; j-- {
					names[j], names[j-1] = names[j-1], names[j]
				}
			}
			class = names[r.Intn(len(names))]
			inject = bad[class]
		}
		if k%4 == 2 {
			// the prototype is written as a typed nil pointer, (*T)(nil): the id and the layout come from the type alone, so
			// it is a message of the dialect like any other - judged, and found, like any other
			inject = reflect.Zero(reflect.TypeOf(inject)).Interface().(message.Message)
			rep.Count("typed_nil_prototypes_injected", 1)
		}
		pos := r.Intn(len(msgs) + 1)
		withBad := append(append(append([]message.Message{}, msgs[:pos]...), inject), msgs[pos:]...)
		rep.Eval(1)
		rep.Distinct("reject", class, k)
		rep.Count("rejection_cases", 1)
		err, p := safeInit(&dialect.ReadWriter{Dialect: &dialect.Dialect{Version: 3, Messages: withBad}})
		if p != nil {
			rep.Violation("dialect=user what=accepts:"+class, fmt.Sprintf("Initialize panicked instead of returning an error: %v", p), class)
		} else if err == nil {
			rep.Violation("dialect=user what=accepts:"+class, "a dialect with "+class+" was accepted by Initialize", class)
		}
		// a second try on the same objects (a retry loop; nothing has changed): refused again, at initialization
		if class != "duplicate-id" {
			mrw := &message.ReadWriter{Message: inject}
			for try := 1; try <= 3; try++ {
				var ierr error
				var pp interface{}
				func() {
					defer func() { pp = recover() }()
					ierr = mrw.Initialize()
				}()
				rep.Count("message_codecs_of_malformed_structs_initialized_repeatedly", 1)
				if pp != nil {
					rep.Violation("dialect=user what=accepts:"+class, fmt.Sprintf("message.ReadWriter.Initialize panicked on try %d: %v", try, pp), class)
					break
				}
				if ierr == nil {
					rep.Violation("dialect=user what=accepts:"+class+":retry", fmt.Sprintf("message.ReadWriter.Initialize accepted a malformed struct (%s) on try %d on the same object", class, try), class)
					break
				}
			}
		}
		if k%4 == 1 {
			drw := &dialect.ReadWriter{Dialect: &dialect.Dialect{Version: 3, Messages: withBad}}
			for try := 1; try <= 2; try++ {
				if err, p := safeInit(drw); err == nil || p != nil {
					rep.Violation("dialect=user what=accepts:"+class+":retry", fmt.Sprintf("try %d on the same dialect.ReadWriter: %v %v", try, err, p), class)
					break
				}
			}
		}
		// the same defect arriving through re-initialisation of a Dialect value that was valid before
		if k%3 == 0 {
			d := &dialect.Dialect{Version: 3, Messages: append([]message.Message{}, msgs...)}
			if err, p := safeInit(&dialect.ReadWriter{Dialect: d}); err != nil || p != nil {
				rep.Violation("dialect=user what=init", fmt.Sprintf("a valid user dialect was rejected: %v %v", err, p), nil)
				continue
			}
			d.Messages = withBad
			if k%2 == 1 && len(msgs) >= 2 {
				// the defect arrives by replacing an entry in place (same slice, same length)
				d.Messages = append([]message.Message{}, msgs...)
				_, _ = safeInit(&dialect.ReadWriter{Dialect: d})
				d.Messages[r.Intn(len(d.Messages))] = inject
				if class == "duplicate-id" {
					// make sure the duplicate is really there: copy another entry's id holder
					d.Messages[0] = d.Messages[len(d.Messages)-1]
				}
			}
			rep.Count("reinit_cases", 1)
			if err, p := safeInit(&dialect.ReadWriter{Dialect: d}); err == nil && p == nil {
				rep.Violation("dialect=user what=accepts:"+class+":reinit", "a Dialect value that became invalid ("+class+") after a first successful initialisation was accepted", class)
			}
			// the same ReadWriter object initialised again after its Dialect value (same pointer, same number of messages) was
			// changed in place: it is judged, and answers lookups, with the dialect as it is now
			if len(msgs) >= 2 {
				d2 := &dialect.Dialect{Version: 3, Messages: append([]message.Message{}, msgs...)}
				rw2 := &dialect.ReadWriter{Dialect: d2}
				if err, p := safeInit(rw2); err == nil && p == nil {
					victim := r.Intn(len(d2.Messages))
					oldID := d2.Messages[victim].GetID()
					has := false
					for _, m := range msgs {
						has = has || m.GetID() == 60100
					}
					if !has {
						d2.Messages[victim] = &MessageFineDup{}
						rep.Count("same_readwriter_reinitialised_after_in_place_change", 1)
						if err, p := safeInit(rw2); err != nil || p != nil {
							rep.Violation("dialect=user what=init", fmt.Sprintf("a ReadWriter could not be initialised again after a valid in-place change of its dialect: %v %v", err, p), nil)
						} else {
							if rw2.GetMessage(60100) == nil {
								rep.Violation("dialect=user what=lookup:reinit", "after a message was replaced in place and the same ReadWriter initialised again, the new message's id is not found", nil)
							}
							if rw2.GetMessage(oldID) != nil {
								rep.Violation("dialect=user what=lookup:reinit", "after a message was replaced in place and the same ReadWriter initialised again, the id of the removed message still yields a codec", oldID)
							}
						}
					}
					d2.Messages[victim] = inject
					if class == "duplicate-id" {
						d2.Messages[0] = d2.Messages[len(d2.Messages)-1]
					}
					if err, p := safeInit(rw2); err == nil && p == nil {
						rep.Violation("dialect=user what=accepts:"+class+":reinit", "the same ReadWriter, initialised again after its dialect became invalid ("+class+") by an in-place replacement, accepted it", class)
					}
				}
			}
			// and a valid extension must be visible
			d.Messages = append(append([]message.Message{}, msgs...), &MessageFineDup{})
			has := false
			for _, m := range msgs {
				has = has || m.GetID() == 60100
			}
			if !has {
				rw := &dialect.ReadWriter{Dialect: d}
				if err, _ := safeInit(rw); err != nil {
					rep.Violation("dialect=user what=init", "a valid extended dialect was rejected: "+err.Error(), nil)
				} else if m := rw.GetMessage(60100); m == nil {
					rep.Violation("dialect=user what=lookup:reinit", "a message appended to a Dialect value is not found after re-initialisation", nil)
				}
			}
		}
	}
	// typed-nil prototypes in a valid dialect: found by their ids, usable
	{
		d := &dialect.Dialect{Version: 3, Messages: []message.Message{&MessageVfId254{}, (*MessageFineDup)(nil), (*MessageVfId255)(nil)}}
		rw := &dialect.ReadWriter{Dialect: d}
		err, p := safeInit(rw)
		rep.Eval(1)
		rep.Count("typed_nil_prototype_dialects", 1)
		if p != nil {
			rep.Observe(fmt.Sprintf("c17: a dialect that lists a prototype as a typed nil pointer makes Initialize panic: %v", p))
		} else if err != nil {
			rep.Observe("c17: a dialect that lists a prototype as a typed nil pointer is refused: " + err.Error())
		} else {
			for _, id := range []uint32{60100, 255} {
				if m := rw.GetMessage(id); m == nil {
					rep.Violation("dialect=user what=lookup", fmt.Sprintf("GetMessage(%d) returns nothing although the dialect (accepted by Initialize) lists a message with that id as a typed nil prototype", id), nil)
				}
			}
		}
	}
	rep.Floor("dialect_messages", 1500)
	rep.Floor("alias_declarations_checked", 500)
	rep.Floor("constant_names_checked", 1000)
	rep.Floor("golden_crc_extra_checked", 150)
}
