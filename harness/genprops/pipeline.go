package genprops

import (
	"bytes"
	"encoding/json"
	"fmt"
	"net"
	"net/http"
	"os"
	"path/filepath"
	"sort"
	"strings"
	"sync"
	"time"

	"verifharness/probe"
	"verifharness/ref"
)

var (
	importerOnce sync.Once
	importerPath string
	importerErr  error
)

// buildImporter builds the real cmd/dialect-import from the repository's current tree.
func buildImporter() (string, error) {
	importerOnce.Do(func() {
		dir, err := scratchDir("bin")
		if err != nil {
			importerErr = err
			return
		}
		importerPath = filepath.Join(dir, "dialect-import")
		out, err := runCmd(repoDir(), 5*time.Minute, "go", "build", "-o", importerPath, "./cmd/dialect-import")
		if err != nil {
			importerErr = fmt.Errorf("building cmd/dialect-import: %v\n%s", err, out)
		}
	})
	return importerPath, importerErr
}

type genOutcome struct {
	Top     string
	PkgName string
	GenErr  string // generator failed
	Dir     string // generated package directory
	Files   map[string][]byte
}

// generate runs the generator on every top-level file of the batch inside dir.
func generate(b *xmlBatch, dir string, tops []string) (map[string]*genOutcome, error) {
	imp, err := buildImporter()
	if err != nil {
		return nil, err
	}
	if err := os.MkdirAll(dir, 0o755); err != nil {
		return nil, err
	}
	for name, x := range b.Files {
		if err := os.MkdirAll(filepath.Dir(filepath.Join(dir, name)), 0o755); err != nil {
			return nil, err
		}
		if err := os.WriteFile(filepath.Join(dir, name), []byte(ref.RenderXML(x)), 0o644); err != nil {
			return nil, err
		}
	}
	out := map[string]*genOutcome{}
	runDir, base := dir, ""
	if b.Remote {
		// the tree is published by a web server on the loopback interface and the generator is given addresses
		ln, err := net.Listen("tcp4", "127.0.0.1:0")
		if err != nil {
			return nil, err
		}
		srv := &http.Server{Handler: http.FileServer(http.Dir(dir))}
		go func() { _ = srv.Serve(ln) }()
		defer srv.Close()
		base = "http://" + ln.Addr().String() + "/"
		runDir = filepath.Join(dir, "_out")
		if err := os.MkdirAll(runDir, 0o755); err != nil {
			return nil, err
		}
	}
	for _, top := range tops {
		o := &genOutcome{Top: top, PkgName: pkgNameOf(top)}
		out[top] = o
		args := []string{base + top}
		if b.Link {
			args = []string{"--link", base + top}
		}
		txt, err := runCmd(runDir, 2*time.Minute, imp, args...)
		if err != nil {
			o.GenErr = strings.TrimSpace(txt) + " (" + err.Error() + ")"
			continue
		}
		o.Dir = filepath.Join(runDir, o.PkgName)
		o.Files = map[string][]byte{}
		entries, err := os.ReadDir(o.Dir)
		if err != nil {
			o.GenErr = "generator reported success but produced no package directory: " + err.Error()
			continue
		}
		for _, e := range entries {
			data, err := os.ReadFile(filepath.Join(o.Dir, e.Name()))
			if err != nil {
				return nil, err
			}
			o.Files[e.Name()] = data
		}
	}
	return out, nil
}

type probeRun struct {
	Output   *probe.Output
	Dumps    map[string]*probe.DialectDump
	BuildErr map[string]string // per package
	// KindMismatch lists "pkg.ENUM" whose generated code has the other shape (bitmask / ordinary) than the definition says
	KindMismatch []string
}

// buildAndProbe copies generated packages into a scratch module with a generated main, builds and runs it.
// kinds (optional): for "pkg.ENUM", whether the definition declares the enum a bitmask. The oracle is then driven by the
// definition, not by the shape of the generated code.
func buildAndProbe(modDir string, gens []*genOutcome, seed uint64, nRandom int, kinds ...map[string]bool) (*probeRun, error) {
	if err := os.MkdirAll(modDir, 0o755); err != nil {
		return nil, err
	}
	if err := writeProbeModule(modDir); err != nil {
		return nil, err
	}
	pr := &probeRun{Dumps: map[string]*probe.DialectDump{}, BuildErr: map[string]string{}}
	var pkgs []*scannedPkg
	for _, g := range gens {
		if g.GenErr != "" {
			continue
		}
		dst := filepath.Join(modDir, g.PkgName)
		if err := os.MkdirAll(dst, 0o755); err != nil {
			return nil, err
		}
		for name, data := range g.Files {
			if err := os.WriteFile(filepath.Join(dst, name), data, 0o644); err != nil {
				return nil, err
			}
		}
	}
	// one build of all packages; on failure find the culprits one by one
	var names []string
	for _, g := range gens {
		if g.GenErr == "" {
			names = append(names, g.PkgName)
		}
	}
	sort.Strings(names)
	if len(names) == 0 {
		pr.Output = &probe.Output{}
		return pr, nil
	}
	args := []string{"build"}
	for _, n := range names {
		args = append(args, "./"+n+"/")
	}
	if out, err := runCmd(modDir, 10*time.Minute, "go", args...); err != nil {
		var good []string
		for _, n := range names {
			if o, err := runCmd(modDir, 5*time.Minute, "go", "build", "./"+n+"/"); err != nil {
				pr.BuildErr[n] = strings.TrimSpace(o)
			} else {
				good = append(good, n)
			}
		}
		if len(pr.BuildErr) == 0 {
			return nil, fmt.Errorf("go build of generated packages failed but every package builds alone: %v\n%s", err, out)
		}
		names = good
	}
	// every generated package must define the dialect itself
	kept := names[:0]
	for _, n := range names {
		if _, err := os.Stat(filepath.Join(modDir, n, "dialect.go")); err != nil {
			pr.BuildErr[n] = "the generator reported success but wrote no dialect.go (the package defines no Dialect)"
			continue
		}
		kept = append(kept, n)
	}
	names = kept
	for _, n := range names {
		p, err := scanPackage(filepath.Join(modDir, n))
		if err != nil {
			pr.BuildErr[n] = "scan: " + err.Error()
			continue
		}
		if len(kinds) > 0 && kinds[0] != nil {
			for _, en := range p.Enums {
				if want, ok := kinds[0][p.Name+"."+en.Name]; ok && !en.Alias && want != en.Bitmask {
					pr.KindMismatch = append(pr.KindMismatch, p.Name+"."+en.Name)
					en.Bitmask = want
				}
			}
		}
		pkgs = append(pkgs, p)
	}
	src := genEnumProbeSource(pkgs, func(p *scannedPkg) string { return "probeprog/" + p.Name }, true)
	// add the dialect dumps
	var sb strings.Builder
	sb.WriteString("\tvar dumps []probe.DialectDump\n")
	for _, p := range pkgs {
		fmt.Fprintf(&sb, "\tdumps = append(dumps, probe.DumpDialect(%q, p_%s.Dialect))\n", p.Name, p.Name)
	}
	sb.WriteString("\tout.Extra = dumps\n")
	src = strings.Replace(src, "\tif err := json.NewEncoder(os.Stdout)", sb.String()+"\tif err := json.NewEncoder(os.Stdout)", 1)
	if err := os.WriteFile(filepath.Join(modDir, "main.go"), []byte(src), 0o644); err != nil {
		return nil, err
	}
	bin := filepath.Join(modDir, "probe.bin")
	if out, err := runCmd(modDir, 10*time.Minute, "go", "build", "-o", bin, "."); err != nil {
		return nil, fmt.Errorf("building the generated probe program: %v\n%s", err, truncate(out, 3000))
	}
	stdout, stderr, err := runCmdSplit(modDir, 10*time.Minute, bin, fmt.Sprint(seed), fmt.Sprint(nRandom))
	if err != nil {
		return nil, fmt.Errorf("running the probe program: %v\n%s", err, truncate(stderr, 3000))
	}
	var raw struct {
		probe.Output
		Extra []probe.DialectDump `json:"extra"`
	}
	dec := json.NewDecoder(bytes.NewReader([]byte(stdout)))
	if err := dec.Decode(&raw); err != nil {
		return nil, fmt.Errorf("decoding probe output: %v", err)
	}
	pr.Output = &raw.Output
	for i := range raw.Extra {
		pr.Dumps[raw.Extra[i].Name] = &raw.Extra[i]
	}
	return pr, nil
}

func truncate(s string, n int) string {
	if len(s) > n {
		return s[:n] + "..."
	}
	return s
}
