package nodeprops

import (
	"context"
	"errors"
	"fmt"
	"io"
	"net"
	"os"
	"strings"
	"sync"
	"sync/atomic"
	"syscall"
	"testing"
	"time"

	"github.com/bluenviron/gomavlib/v3"
	"github.com/bluenviron/gomavlib/v3/pkg/frame"
	"github.com/bluenviron/gomavlib/v3/pkg/message"

	"verifharness/fake"
	"verifharness/ref"
	"verifharness/vh"
)

// C13 — a stalled or failing channel neither stalls the node nor dies silently.

var errWrite = errors.New("injected write error")

type c13node struct {
	node  *gomavlib.Node
	cons  *consumer
	trs   []*fake.Transport
	chans []*gomavlib.Channel
}

// c13WriteTimeout != 0: the nodes of the next scenarios are configured with this write timeout (custom transports know no
// deadlines, but the option is there)
var c13WriteTimeout time.Duration

// c13IdleTimeout != 0: the nodes of the next scenarios are configured with this idle timeout (it governs reads of TCP / UDP
// connections; custom transports know no deadlines)
var c13IdleTimeout time.Duration

// c13HeartbeatPeriod != 0: the nodes of the next scenarios send heartbeats at this period and answer ArduPilot heartbeats
// with stream requests (the node's own traffic shares the channels' queues with the application's)
var c13HeartbeatPeriod time.Duration

func c13start(rep *vh.Report, k int, v1 bool, signed bool) *c13node {
	n := &c13node{}
	var eps []gomavlib.EndpointConf
	for i := 0; i < k; i++ {
		tr := fake.NewTransport(fmt.Sprintf("s%d", i))
		n.trs = append(n.trs, tr)
		eps = append(eps, gomavlib.EndpointCustom{ReadWriteCloser: tr})
	}
	ver := gomavlib.V2
	if v1 {
		ver = gomavlib.V1
	}
	n.node = &gomavlib.Node{Endpoints: eps, Dialect: testDialect, OutVersion: ver, OutSystemID: 21, HeartbeatDisable: c13HeartbeatPeriod == 0, HeartbeatPeriod: c13HeartbeatPeriod,
		StreamRequestEnable: c13HeartbeatPeriod != 0, WriteTimeout: c13WriteTimeout, IdleTimeout: c13IdleTimeout}
	if signed && !v1 {
		n.node.OutKey = frame.NewV2Key([]byte("0123456789abcdef0123456789abcdef"))
	}
	if err := n.node.Initialize(); err != nil {
		rep.HarnessError(err.Error())
		return nil
	}
	n.cons = newConsumer(rep, "C13", "custom", n.node)
	n.cons.start()
	if !n.cons.waitOpen(k, 2*time.Second) {
		rep.HarnessError("channels did not open")
		return nil
	}
	n.chans = make([]*gomavlib.Channel, k)
	for _, ci := range n.cons.openChannels() {
		for i, tr := range n.trs {
			if ci.Tr == tr {
				n.chans[i] = ci.Ch
			}
		}
	}
	return n
}

// wireUIDs returns the uids (of the writer family fam) seen by a transport, accepted and attempted.
func wireUIDs(tr *fake.Transport, fam uint64) (accepted []uint64, attempted []uint64) {
	for _, w := range tr.Writes() {
		f, _, st := ref.ParseAt(w.Data, 0)
		if st != ref.ParseOK {
			continue
		}
		if uid, ok := uidOfWire(f); ok && uid>>56 == fam {
			attempted = append(attempted, uid)
			if !w.Failed {
				accepted = append(accepted, uid)
			}
		}
	}
	return
}

// appWrites counts the writes of a transport that are not the node's own heartbeats / stream requests (progress of the
// application's items: the node's periodic traffic would otherwise look like progress for ever).
func appWrites(tr *fake.Transport) int64 {
	var c int64
	for _, w := range tr.Writes() {
		if f, _, st := ref.ParseAt(w.Data, 0); st != ref.ParseOK || (f.MsgID != 0 && f.MsgID != 66) {
			c++
		}
	}
	return c
}

func increasing(u []uint64) bool {
	for i := 1; i < len(u); i++ {
		if u[i] <= u[i-1] {
			return false
		}
	}
	return true
}

// writeFlow submits items [from,to) with WriteMessageAll (and occasional To writes), flow-controlled
// on the healthy transports so that their backlog stays far below 64.
func (n *c13node) writeFlow(rep *vh.Report, r *vh.RNG, fam uint64, from, to int, healthy []int, toStalled int, lowID bool) bool {
	base := make([]int, len(n.trs))
	for _, h := range healthy {
		acc, _ := wireUIDs(n.trs[h], fam)
		base[h] = len(acc)
	}
	submitted := 0
	for i := from; i < to; i++ {
		var m message.Message = &MessageVfUid{Uid: fam<<56 | uint64(i)}
		if lowID {
			m = &MessageVfLow{Uid: fam<<56 | uint64(i)}
		}
		done := make(chan struct{})
		go func() {
			_ = n.node.WriteMessageAll(m)
			if toStalled >= 0 && i%7 == 3 {
				// an addressed write to the stalled channel must not hold up anybody else
				_ = n.node.WriteMessageTo(n.chans[toStalled], &MessageVfUid{Uid: (fam+1)<<56 | uint64(i)})
			}
			close(done)
		}()
		select {
		case <-done:
		case <-time.After(3 * time.Second):
			rep.Violation("what=isolation:blocked ep=custom", "a Write* call did not return within 3 s while another channel was stalled", map[string]interface{}{"item": i})
			atomic.StoreInt32(&writeStuck, 1)
			return false
		}
		submitted++
		if submitted%24 == 0 {
			for _, h := range healthy {
				want := base[h] + submitted
				if got := n.trs[h].WaitWrites(0, 0); got >= 0 {
					_ = got
				}
				ok := waitFor(func() bool { acc, _ := wireUIDs(n.trs[h], fam); return len(acc) >= want }, func() int64 { return appWrites(n.trs[h]) }, 1500*time.Millisecond)
				if !ok {
					return true // the loss is reported by the caller's comparison
				}
			}
		}
	}
	return true
}

func c13stall(rep *vh.Report, seed uint64, idx int, j int) {
	if aborted() {
		return
	}
	r := vh.Sub(seed, fmt.Sprintf("c13-stall-%d", idx))
	k := 2 + r.Intn(3)
	hookReset(r.U64(), true, false)
	// every fourth run: a short write timeout is configured and the stall outlasts it several times
	longStall := time.Duration(0)
	if idx%4 == 3 {
		c13WriteTimeout = time.Duration(60+r.Intn(60)) * time.Millisecond
		longStall = 4 * c13WriteTimeout
		defer func() { c13WriteTimeout = 0 }()
	}
	withAuto := idx%2 == 1
	if withAuto {
		c13HeartbeatPeriod = 40 * time.Millisecond
		defer func() { c13HeartbeatPeriod = 0 }()
	}
	n := c13start(rep, k, false, idx%4 >= 2)
	if n == nil {
		return
	}
	stalled := r.Intn(k)
	var healthy []int
	for i := 0; i < k; i++ {
		if i != stalled {
			healthy = append(healthy, i)
		}
	}
	n.trs[stalled].BlockWritesFrom(j)
	const fam = 0xD1
	// incoming traffic on every channel (also the stalled one) while the stall lasts
	var stopIn int32
	inDone := make(chan struct{})
	fed := make([]int64, k)
	go func() {
		defer close(inDone)
		for i := 0; atomic.LoadInt32(&stopIn) == 0; i++ {
			for ti, tr := range n.trs {
				tr.Feed(uidFrame(uint64(0xAB)<<56|uint64(ti)<<32|uint64(i), byte(i), 9, false, nil, 0))
				atomic.AddInt64(&fed[ti], 1)
			}
			time.Sleep(150 * time.Microsecond)
		}
	}()
	nItems := 140 + r.Intn(100)
	if !n.writeFlow(rep, r, fam, 0, nItems, healthy, stalled, false) {
		n.trs[stalled].UnblockWrites()
		if !safeClose(rep, n.node) {
			return
		}
		return
	}
	// while the stall lasts: the healthy channels have everything, in order
	for _, h := range healthy {
		ok := waitFor(func() bool { acc, _ := wireUIDs(n.trs[h], fam); return len(acc) >= nItems }, func() int64 { return appWrites(n.trs[h]) }, 1500*time.Millisecond)
		acc, _ := wireUIDs(n.trs[h], fam)
		if !ok || len(acc) != nItems || !increasing(acc) {
			rep.Violation("what=isolation:loss ep=custom", fmt.Sprintf("while channel %d was stalled, healthy channel %d received %d of %d items (or out of order)", stalled, h, len(acc), nItems),
				map[string]interface{}{"stalled_from_write_call": j, "channels": k, "blocked_writers": n.trs[stalled].Blocked()})
		}
	}
	// ... and events of every channel, the stalled one included, keep arriving
	evBefore := n.cons.nEvents()
	time.Sleep(5 * time.Millisecond)
	atomic.StoreInt32(&stopIn, 1)
	<-inDone
	for ti := range n.trs {
		want := int(atomic.LoadInt64(&fed[ti]))
		ci := n.cons.allChannels()
		ok := waitFor(func() bool {
			for _, c := range ci {
				s := n.cons.snapshot(c)
				if s.Tr == n.trs[ti] && len(s.UIDs) >= want {
					return true
				}
			}
			return false
		}, n.cons.nEvents, 1500*time.Millisecond)
		if !ok {
			rep.Violation("what=isolation:events ep=custom", fmt.Sprintf("incoming frames of channel %d stopped being delivered as events while channel %d was stalled", ti, stalled),
				map[string]interface{}{"events_before": evBefore, "events_now": n.cons.nEvents(), "fed": want})
		}
	}
	// addressed writes to the stalled channel (its queue is full) must not hold up a write to a healthy one: the marker
	// written after 60 of them must come out as promptly as a marker written alone (gross delays only: >= 600 ms and
	// >= 50 x the lone marker, seen twice in a row)
	if len(healthy) > 0 && n.chans[stalled].VerifBacklog() >= 60 {
		h := healthy[0]
		probe := func(nTo int, tag uint64) time.Duration {
			t0 := time.Now()
			for i := 0; i < nTo; i++ {
				_ = n.node.WriteMessageTo(n.chans[stalled], &MessageVfUid{Uid: uint64(fam+4)<<56 | uint64(i)})
			}
			uid := uint64(fam+5)<<56 | tag
			_ = n.node.WriteMessageTo(n.chans[h], &MessageVfUid{Uid: uid})
			for time.Since(t0) < 15*time.Second {
				a, _ := wireUIDs(n.trs[h], fam+5)
				for _, u := range a {
					if u == uid {
						return time.Since(t0)
					}
				}
				time.Sleep(300 * time.Microsecond)
			}
			return time.Since(t0)
		}
		// a write to a healthy channel alone (before anything is addressed to the stalled one)
		lone := probe(0, 10)
		if withAuto {
			// the stalled peer is an ArduPilot that has just shown up: the node's seven requests to it meet the full queue
			n.trs[stalled].Feed(hbFrame(77, 1, 3, 0))
			time.Sleep(2 * time.Millisecond)
			rep.Count("stall_runs_with_heartbeats_and_stream_requests", 1)
		}
		floor := lone
		if floor < time.Millisecond {
			floor = time.Millisecond
		}
		slow := 0
		var after time.Duration
		for try := 0; try < 2; try++ {
			after = probe(60, uint64(20+try))
			if after >= 5*time.Second && after >= 50*floor {
				slow = 2 // seconds, not scheduling noise: no second opinion needed
				break
			}
			if after >= 600*time.Millisecond && after >= 50*floor {
				slow++
			} else {
				break
			}
		}
		rep.Count("stall_latency_probes", 1)
		if slow == 2 {
			rep.Violation("what=isolation:delay ep=custom", fmt.Sprintf("output addressed to the stalled channel (60 addressed writes; the node's own stream requests: %v) delayed a write to a healthy channel by %v (a write alone took %v; twice in a row, or by more than 5 s)", withAuto, after.Round(time.Millisecond), lone.Round(100*time.Microsecond)),
				map[string]interface{}{"stalled": stalled, "healthy": h, "channels": k})
		}
	}
	if longStall > 0 {
		// the stall outlasts the configured write timeout several times while writes keep arriving
		t0 := time.Now()
		for i := 0; time.Since(t0) < longStall; i++ {
			_ = n.node.WriteMessageAll(&MessageVfUid{Uid: uint64(fam+2)<<56 | uint64(i)})
			if i%5 == 0 {
				_ = n.node.WriteMessageTo(n.chans[stalled], &MessageVfUid{Uid: uint64(fam+3)<<56 | uint64(i)})
			}
			time.Sleep(2 * time.Millisecond)
		}
		rep.Count("stall_runs_longer_than_write_timeout", 1)
	}
	stalledClosed := func() bool {
		for _, ci := range n.cons.allChannels() {
			if sn := n.cons.snapshot(ci); sn.Ch == n.chans[stalled] && sn.State == 2 {
				return true
			}
		}
		return false
	}
	accBefore, _ := wireUIDs(n.trs[stalled], fam)
	// release: the stalled channel emits an order-preserving subsequence, at most 64 queued + 1 in flight of the stall period
	n.trs[stalled].UnblockWrites()
	waitFor(func() bool { return false }, func() int64 { return appWrites(n.trs[stalled]) }, 300*time.Millisecond)
	acc, _ := wireUIDs(n.trs[stalled], fam)
	if !increasing(acc) {
		rep.Violation("what=backlog ep=custom", "after release the stalled channel emitted items out of submission order (or twice)", nil)
	}
	duringStall := len(acc) - len(accBefore)
	if duringStall > 65 {
		rep.Violation("what=backlog ep=custom", fmt.Sprintf("the stalled channel buffered %d items (bound: 64 queued + 1 in flight)", duringStall), nil)
	}
	if len(acc) == 0 && !stalledClosed() {
		rep.Violation("what=backlog ep=custom", "after release the stalled channel emitted nothing", nil)
	}
	rep.Count("stall_backlog_emitted", duringStall)
	// later writes reach everybody again
	n.writeFlow(rep, r, fam, 1000, 1030, append(healthy, stalled), -1, false)
	for ti, tr := range n.trs {
		ok := waitFor(func() bool {
			a, _ := wireUIDs(tr, fam)
			c := 0
			for _, u := range a {
				if u&0xFFFFFFFF >= 1000 {
					c++
				}
			}
			return c >= 30
		}, func() int64 { return appWrites(tr) }, 1500*time.Millisecond)
		if !ok && ti == stalled && stalledClosed() {
			rep.Count("failure_led_to_close_event", 1)
			continue
		}
		if !ok {
			rep.Violation("what=silent-dead:stall ep=custom", fmt.Sprintf("after the stall was released channel %d no longer emits later writes", ti),
				map[string]interface{}{"stalled": stalled, "stall_longer_than_write_timeout": longStall > 0, "write_timeout_ms": c13WriteTimeout.Milliseconds()})
		}
	}
	if withAuto && !stalledClosed() {
		// the node's own heartbeats come out on the recovered link again
		hbCount := func() int {
			c := 0
			for _, w := range n.trs[stalled].Writes() {
				if f, _, st := ref.ParseAt(w.Data, 0); st == ref.ParseOK && f.MsgID == 0 && !w.Failed {
					c++
				}
			}
			return c
		}
		base := hbCount()
		ok := waitFor(func() bool { return hbCount() >= base+3 }, func() int64 { return 0 }, 700*time.Millisecond)
		if !ok {
			rep.Violation("what=silent-dead:heartbeat ep=custom", fmt.Sprintf("after the stall was released the channel is open and carries application writes again, but the node's heartbeats (period %v) no longer come out on it", c13HeartbeatPeriod),
				map[string]interface{}{"stalled": stalled, "heartbeats_seen_after_release": hbCount() - base})
		}
	}
	if !safeClose(rep, n.node) {
		return
	}
	<-n.cons.done
	rep.Eval(1)
	rep.Count("stall_runs", 1)
	rep.Distinct("stall", k, stalled, j, hookHits()["ch.enqueue"])
}

// c13fail: a transport write error (once or persistent) or an unencodable item at position pos.
func c13fail(rep *vh.Report, seed uint64, idx int, class string, pos int, kind ...int) {
	if aborted() {
		return
	}
	r := vh.Sub(seed, fmt.Sprintf("c13-fail-%d", idx))
	k := 1 + r.Intn(3)
	v1 := class == "unencodable:v1-id" || class == "unencodable:v1-frame"
	hookReset(r.U64(), true, false)
	n := c13start(rep, k, v1, idx%2 == 1)
	if n == nil {
		return
	}
	const fam = 0xD3
	victim := r.Intn(k)
	all := make([]int, k)
	for i := range all {
		all[i] = i
	}
	var closedN int64
	n.cons.mu.Lock()
	n.cons.onEvent = func(e *evRec, ci *chanInfo) {
		if e.Type == "close" && e.Ch == n.chans[victim] {
			atomic.StoreInt64(&closedN, e.N)
		}
	}
	n.cons.mu.Unlock()
	// writes before the fault
	n.writeFlow(rep, r, fam, 0, pos, all, -1, v1)
	others := []int{}
	for i := range all {
		if i != victim {
			others = append(others, i)
		}
	}
	// the kind of error the transport reports: a plain one, a deadline (net.Error with Timeout() true, what a socket
	// returns when the peer stops reading), a broken pipe, a short write, EOF, "use of closed connection"
	werrs := []error{errWrite, os.ErrDeadlineExceeded, syscall.EPIPE, io.ErrShortWrite, io.EOF, net.ErrClosed, &net.OpError{Op: "write", Net: "tcp", Err: os.ErrDeadlineExceeded},
		&net.OpError{Op: "write", Net: "udp", Err: os.NewSyscallError("sendto", syscall.ECONNREFUSED)}, &net.OpError{Op: "write", Net: "udp", Err: syscall.ENOBUFS}, io.ErrClosedPipe}
	werr := werrs[(idx/3+pos)%len(werrs)]
	if len(kind) > 0 {
		werr = werrs[kind[0]%len(werrs)]
	}
	if strings.HasPrefix(class, "werr") {
		rep.Count("werr_kind:"+werr.Error(), 1)
	}
	switch class {
	case "werr-once":
		n.trs[victim].FailWriteAt(n.trs[victim].WriteCalls()+1, werr, false)
	case "werr-sticky":
		n.trs[victim].FailWriteAt(n.trs[victim].WriteCalls()+1, werr, true)
	case "werr-partial-once":
		n.trs[victim].FailPartial(true)
		n.trs[victim].FailWriteAt(n.trs[victim].WriteCalls()+1, werr, false)
	case "unencodable:raw-id":
		_ = n.node.WriteMessageAll(&message.MessageRaw{ID: 99999, Payload: []byte{1, 2}})
	case "unencodable:raw-id-to":
		_ = n.node.WriteMessageTo(n.chans[victim], &message.MessageRaw{ID: 88888, Payload: []byte{1}})
	case "unencodable:v1-id":
		_ = n.node.WriteMessageAll(&MessageVfUid{Uid: 1}) // id 5000 on a v1 node
	case "unencodable:v1-frame":
		_ = n.node.WriteFrameAll(&frame.V1Frame{SystemID: 1, ComponentID: 1, Message: &message.MessageRaw{ID: 300, Payload: []byte{1}}})
	case "unencodable:frame-raw-empty":
		_ = n.node.WriteFrameAll(&frame.V2Frame{SystemID: 1, ComponentID: 1, Message: &message.MessageRaw{ID: 99999}})
	}
	// later valid writes: flow control on the channels that are not under a transport fault
	flow := all
	if class == "werr-once" || class == "werr-sticky" || class == "werr-partial-once" {
		flow = others
	}
	n.writeFlow(rep, r, fam, 100, 100+40, flow, -1, v1)
	// verdict at quiescence
	for ti, tr := range n.trs {
		later := func() (acc, att int) {
			a, t := wireUIDs(tr, fam)
			for _, u := range a {
				if u&0xFFFFFFFF >= 100 {
					acc++
				}
			}
			for _, u := range t {
				if u&0xFFFFFFFF >= 100 {
					att++
				}
			}
			return
		}
		want := 40
		waitFor(func() bool {
			_, att := later()
			return att >= want || (ti == victim && atomic.LoadInt64(&closedN) != 0)
		},
			func() int64 { return int64(tr.WriteCalls()) + n.cons.nEvents() }, 1200*time.Millisecond)
		acc, att := later()
		closed := ti == victim && atomic.LoadInt64(&closedN) != 0
		wit := map[string]interface{}{"class": class, "write_error": werr.Error(), "position": pos, "channel": ti, "victim": victim, "later_accepted": acc, "later_attempted": att, "backlog": n.chans[ti].VerifBacklog()}
		switch {
		case closed:
			rep.Count("failure_led_to_close_event", 1)
		case class == "werr-sticky" && ti == victim:
			// the transport refuses everything: the channel must at least keep trying (or be closed)
			if att < want {
				rep.Violation("what=silent-dead:werr ep=custom", "after a transport write error the channel stays open but no longer even attempts later writes", wit)
			}
		case (class == "werr-once" || class == "werr-partial-once") && ti == victim:
			// at most the failed item itself may be missing
			if acc < want-1 {
				rep.Violation("what=silent-dead:werr ep=custom", "after one failed transport write the channel stays open while discarding later valid writes", wit)
			}
		default:
			if acc < want {
				what := "silent-dead:" + class
				if class == "werr-once" || class == "werr-sticky" || class == "werr-partial-once" {
					what = "isolation:loss"
				}
				rep.Violation("what="+what+" ep=custom", fmt.Sprintf("after the fault (%s) channel %d stays open while later valid writes do not come out", class, ti), wit)
			}
		}
	}
	if !safeClose(rep, n.node) {
		return
	}
	<-n.cons.done
	rep.Eval(1)
	rep.Count("fault_runs_"+class, 1)
	rep.Distinct("fail", class, pos, k, victim)
}

// c13tcp: the peer of a TCP server channel resets the connection while the node writes to it.
func c13tcp(rep *vh.Report, seed uint64, idx int) {
	if aborted() {
		return
	}
	r := vh.Sub(seed, fmt.Sprintf("c13-tcp-%d", idx))
	hookReset(r.U64(), true, false)
	port := freeTCPPort()
	tr := fake.NewTransport("healthy")
	node := &gomavlib.Node{Endpoints: []gomavlib.EndpointConf{gomavlib.EndpointTCPServer{Address: fmt.Sprintf("127.0.0.1:%d", port)}, gomavlib.EndpointCustom{ReadWriteCloser: tr}},
		Dialect: testDialect, OutVersion: gomavlib.V2, OutSystemID: 21, HeartbeatDisable: true, WriteTimeout: 200 * time.Millisecond, IdleTimeout: 2 * time.Second}
	if err := node.Initialize(); err != nil {
		rep.Inconclusive("C13 tcp: " + err.Error())
		return
	}
	cons := newConsumer(rep, "C13", "tcp", node)
	cons.start()
	conn, err := net.Dial("tcp4", fmt.Sprintf("127.0.0.1:%d", port))
	if err != nil {
		if !safeClose(rep, node) {
			return
		}
		return
	}
	cons.waitOpen(2, 2*time.Second)
	const fam = 0xD5
	for i := 0; i < 20; i++ {
		_ = node.WriteMessageAll(&MessageVfUid{Uid: fam<<56 | uint64(i)})
	}
	tr.WaitWrites(20, time.Second)
	if tc, ok := conn.(*net.TCPConn); ok {
		_ = tc.SetLinger(0)
	}
	conn.Close() // reset: the node's next writes / reads on that connection fail
	for i := 100; i < 160; i++ {
		_ = node.WriteMessageAll(&MessageVfUid{Uid: fam<<56 | uint64(i)})
		if i%16 == 0 {
			tr.WaitWrites(20+i-100, time.Second)
		}
	}
	tr.WaitWrites(80, 1500*time.Millisecond)
	acc, _ := wireUIDs(tr, fam)
	if len(acc) != 80 || !increasing(acc) {
		rep.Violation("what=isolation:loss ep=tcp", fmt.Sprintf("a failing TCP channel disturbed a healthy channel: %d of 80 items", len(acc)), nil)
	}
	// the failed TCP channel must be reported closed
	ok := waitFor(func() bool {
		for _, ci := range cons.allChannels() {
			s := cons.snapshot(ci)
			if s.Tr == nil && s.State == 2 {
				return true
			}
		}
		return false
	}, cons.nEvents, 1500*time.Millisecond)
	if !ok {
		rep.Violation("what=silent-dead:werr ep=tcp", "a TCP channel whose peer reset the connection is neither closed nor reported", nil)
	}
	if !safeClose(rep, node) {
		return
	}
	<-cons.done
	rep.Eval(1)
	rep.Count("tcp_reset_runs", 1)
}

func TestC13(t *testing.T) {
	rep := vh.NewReport("C13")
	defer rep.Finish(t)
	rep.Rule("fault enumeration on 1..4 custom channels (+ a TCP server channel whose peer resets): (a) the transport of one channel blocks from its j-th Write call, j in 1..J, while 140..240 items are " +
		"written to all (plus addressed writes to the stalled channel) and frames arrive on every channel: healthy channels must receive everything in order, all events keep flowing, every Write* returns, " +
		"after release the stalled channel emits an ordered subsequence with at most 64+1 items of the stall period and later writes reach everybody; (b) the j-th transport Write fails once / persistently, " +
		"or an unencodable item (raw id outside the dialect to all / to one, id > 255 message or frame on a v1 node, raw frame of unknown id) is inserted at every position of a history: the channel is " +
		"either reported closed or keeps emitting (at least attempting) every later valid write. distinct = (fault class, position, channels, victim)")
	rep.RuleAdd("Also: an overflow whose backlog is drained by failing writes before the link works again; a stalled channel with a full queue that receives first heartbeats of new ArduPilot senders and more frames (events go on); real TCP peers that stop and resume reading. An outage (every write failing for four write timeouts while the application keeps writing) after which the link works again.")
	rep.RuleAdd("Rounds 12-15: overflows drained by failing writes, stalled channels that keep receiving, outages (also with a short idle timeout), close events pending while writes go on, UDP peers that flap, a slow-but-moving link in lock-step with a fast one, TCP closures with unsent output under a 3 s write timeout.")
	rep.Assume("flow control counts only healthy channels; quiescence by the no-progress criterion (1.2-1.5 s, no timers configured in these scenarios)")
	seed := shardSeed()
	shard, nsh := shardInfo()
	J := vh.Pick(8, 20)
	job := 0
	for j := 1; j <= J; j++ {
		for rep2 := 0; rep2 < vh.Pick(1, 12); rep2++ {
			job++
			if job%nsh == shard {
				c13stall(rep, seed, job, j)
			}
		}
	}
	classes := []string{"werr-once", "werr-sticky", "werr-partial-once", "unencodable:raw-id", "unencodable:raw-id-to", "unencodable:v1-id", "unencodable:v1-frame", "unencodable:frame-raw-empty"}
	positions := []int{0, 1, 2, 5, 9, 17}
	if vh.Thorough() {
		positions = positions[:0]
		for p := 0; p <= 50; p += 1 {
			positions = append(positions, p)
		}
	}
	for rep3 := 0; rep3 < vh.Pick(1, 6); rep3++ { // thorough: every (class, position) with several channel counts / victims / schedules
		for _, class := range classes {
			for _, pos := range positions {
				job++
				if job%nsh == shard {
					c13fail(rep, seed, job, class, pos)
				}
			}
		}
	}
	// every kind of write error for every transport-fault class
	for _, class := range classes[:3] {
		for kind := 0; kind < 10; kind++ {
			for _, pos := range []int{0, 3} {
				job++
				if job%nsh == shard {
					c13fail(rep, seed, job, class, pos, kind)
				}
			}
		}
	}
	for i := 0; i < vh.Pick(3, 120); i++ {
		job++
		if job%nsh == shard {
			c13tcp(rep, seed, job)
		}
	}
	for i := 0; i < vh.Pick(2, 40); i++ {
		job++
		if job%nsh == shard {
			c13tcpStall(rep, seed, job, i%2 == 1)
		}
	}
	for i := 0; i < vh.Pick(3, 40); i++ {
		job++
		if job%nsh == shard {
			c13overflowFailDrain(rep, seed, job)
			c13stalledReaderGoesOn(rep, seed, job)
			c13outage(rep, seed, job)
			c13pendingClose(rep, seed, job)
			c13udpPeerFlap(rep, seed, job)
			c13slowLink(rep, seed, job)
			c13tcpLingeringClose(rep, seed, job, i%2 == 1)
		}
	}
	gomavlib.VerifSetHook(nil)
	rep.Sample(map[string]interface{}{"stall": "channel 1 of 3 blocks from its 2nd Write; 187 items to all + To(stalled) every 7th", "fault": "unencodable:raw-id at position 5, then 40 valid writes"})
	rep.Floor("stall_runs", 1)
}

// c13overflowFailDrain: a link stalls until its queue has overflowed; when it moves again the writes of the whole backlog
// fail (the kind of error a link reports after a long stall: timeouts), then it works. The channel is open and its queue
// empty: what is written from then on comes out, or the channel is reported closed.
func c13overflowFailDrain(rep *vh.Report, seed uint64, idx int) {
	if aborted() {
		return
	}
	r := vh.Sub(seed, fmt.Sprintf("c13-ofd-%d", idx))
	hookReset(r.U64(), false, false)
	k := 1 + r.Intn(3)
	n := c13start(rep, k, false, false)
	if n == nil {
		return
	}
	const fam = 0xD3
	v := r.Intn(k)
	tr := n.trs[v]
	tr.BlockWrites()
	nOver := 70 + r.Intn(40)
	for i := 0; i < nOver; i++ {
		_ = n.node.WriteMessageTo(n.chans[v], &MessageVfUid{Uid: uint64(fam)<<56 | uint64(i+1)})
	}
	waitFor(func() bool { return n.chans[v].VerifBacklog() >= 64 && tr.Blocked() > 0 }, func() int64 { return int64(n.chans[v].VerifBacklog()) }, 300*time.Millisecond)
	if n.chans[v].VerifBacklog() < 64 || tr.Blocked() == 0 {
		rep.Inconclusive("C13 overflow/fail-drain: the queue did not fill")
		safeClose(rep, n.node)
		return
	}
	// every write of the backlog fails
	werr := []error{errWrite, os.ErrDeadlineExceeded, &net.OpError{Op: "write", Net: "tcp", Err: os.ErrDeadlineExceeded}}[idx%3]
	tr.FailWriteAt(tr.WriteCalls()+1, werr, true)
	tr.UnblockWrites()
	waitFor(func() bool { return n.chans[v].VerifBacklog() == 0 }, func() int64 { return int64(tr.WriteCalls()) }, 500*time.Millisecond)
	time.Sleep(2 * time.Millisecond)
	tr.StopFailing()
	closed := func() bool {
		for _, ci := range n.cons.allChannels() {
			if sn := n.cons.snapshot(ci); sn.Tr == tr && sn.State == 2 {
				return true
			}
		}
		return false
	}
	var want []uint64
	for i := 0; i < 12; i++ {
		uid := uint64(fam+1)<<56 | uint64(i+1)
		want = append(want, uid)
		if i%2 == 0 {
			_ = n.node.WriteMessageTo(n.chans[v], &MessageVfUid{Uid: uid})
		} else {
			_ = n.node.WriteMessageAll(&MessageVfUid{Uid: uid})
		}
		time.Sleep(500 * time.Microsecond)
	}
	waitFor(func() bool { acc, _ := wireUIDs(tr, fam+1); return len(acc) >= len(want) || closed() }, func() int64 { return int64(tr.WriteCalls()) + n.cons.nEvents() }, 800*time.Millisecond)
	got, _ := wireUIDs(tr, fam+1)
	rep.Eval(1)
	rep.Count("overflow_then_failing_drain_runs", 1)
	rep.Distinct("ofd", idx, k, v, nOver)
	if closed() {
		rep.Count("overflow_then_failing_drain_closed", 1)
	} else if !eqU64(got, want) {
		rep.Violation("what=silent-dead:overflow-fail-drain ep=custom", fmt.Sprintf("after an overflow whose backlog was drained by failing writes (%v) the channel is open with an empty queue, yet %d of %d later items came out", werr, len(got), len(want)),
			map[string]interface{}{"channels": k, "victim": v, "written_while_stalled": nOver, "backlog_now": n.chans[v].VerifBacklog(), "got": got, "want": want})
	}
	if !safeClose(rep, n.node) {
		return
	}
	<-n.cons.done
}

// c13pendingClose: one link fails (read error) while the application is busy elsewhere and has not yet taken the close
// event: the failed channel is finished but still known to the node. What is written to all / all-but-one in that window
// reaches every healthy channel, whole and in order.
func c13pendingClose(rep *vh.Report, seed uint64, idx int) {
	if aborted() {
		return
	}
	r := vh.Sub(seed, fmt.Sprintf("c13-pending-close-%d", idx))
	hookReset(r.U64(), false, false)
	k := 3 + r.Intn(3)
	n := c13start(rep, k, false, false)
	if n == nil {
		return
	}
	const fam = 0xD9
	v := r.Intn(k)
	// the application stops taking events
	gate := make(chan struct{})
	var gated int32 = 1
	n.cons.mu.Lock()
	var inGate int32
	n.cons.pace = func(int64) {
		if atomic.LoadInt32(&gated) != 0 {
			atomic.AddInt32(&inGate, 1)
			<-gate
		}
	}
	n.cons.mu.Unlock()
	// (the consumer takes an event and is then held before handling it: a frame event of a healthy channel, so that the
	// close event that follows is still waiting to be taken)
	n.trs[(v+1)%k].Feed(uidFrame(1, 0, 9, false, nil, 0))
	waitFor(func() bool { return atomic.LoadInt32(&inGate) > 0 }, func() int64 { return int64(atomic.LoadInt32(&inGate)) }, 300*time.Millisecond)
	n.trs[v].FeedError(errSession)
	time.Sleep(3 * time.Millisecond) // the channel ends; its close event waits for the application
	var want []uint64
	nItems := 30
	for i := 0; i < nItems; i++ {
		uid := uint64(fam)<<56 | uint64(i+1)
		want = append(want, uid)
		if i%3 == 2 {
			_ = n.node.WriteMessageExcept(n.chans[v], &MessageVfUid{Uid: uid, Kind: 1})
		} else {
			_ = n.node.WriteMessageAll(&MessageVfUid{Uid: uid, Kind: 1})
		}
		time.Sleep(200 * time.Microsecond)
	}
	healthy := func() int64 {
		var p int64
		for ti, tr := range n.trs {
			if ti != v {
				p += int64(tr.WriteCalls())
			}
		}
		return p
	}
	waitFor(func() bool {
		for ti, tr := range n.trs {
			if ti == v {
				continue
			}
			if acc, _ := wireUIDs(tr, fam); len(acc) < len(want) {
				return false
			}
		}
		return true
	}, healthy, 500*time.Millisecond)
	atomic.StoreInt32(&gated, 0)
	close(gate)
	// later, when the application HAS taken the close event and still names the channel that is gone as the one to leave out
	// (a router forwarding what it had received from that peer): every remaining channel gets the item
	waitFor(func() bool {
		for _, ci := range n.cons.allChannels() {
			if sn := n.cons.snapshot(ci); sn.Tr == n.trs[v] && sn.State == 2 {
				return true
			}
		}
		return false
	}, n.cons.nEvents, 500*time.Millisecond)
	var wantLater []uint64
	for i := 0; i < 8; i++ {
		uid := uint64(fam+1)<<56 | uint64(i+1)
		wantLater = append(wantLater, uid)
		if i%2 == 0 {
			_ = n.node.WriteMessageExcept(n.chans[v], &MessageVfUid{Uid: uid, Kind: 1})
		} else {
			_ = n.node.WriteFrameExcept(n.chans[v], &frame.V2Frame{SequenceNumber: byte(i), SystemID: 3, ComponentID: 4, Message: &MessageVfUid{Uid: uid, Kind: 1}})
		}
		time.Sleep(200 * time.Microsecond)
	}
	waitFor(func() bool {
		for ti, tr := range n.trs {
			if ti == v {
				continue
			}
			if acc, _ := wireUIDs(tr, fam+1); len(acc) < len(wantLater) {
				return false
			}
		}
		return true
	}, healthy, 400*time.Millisecond)
	for ti, tr := range n.trs {
		if ti == v {
			continue
		}
		if got, _ := wireUIDs(tr, fam+1); !eqU64(got, wantLater) {
			rep.Violation("what=starved:except-closed ep=custom", fmt.Sprintf("channel %d of %d had failed and its close event had been taken: of %d items then written to all but that channel, healthy channel %d received %d", v, k, len(wantLater), ti, len(got)), nil)
			break
		}
	}
	rep.Eval(1)
	rep.Count("pending_close_runs", 1)
	rep.Distinct("pending-close", idx, k, v)
	for ti, tr := range n.trs {
		if ti == v {
			continue
		}
		got, _ := wireUIDs(tr, fam)
		if !eqU64(got, want) {
			rep.Violation("what=starved:pending-close ep=custom", fmt.Sprintf("channel %d of %d failed and its close event had not been taken yet: healthy channel %d received %d of the %d items written to all / all-but-the-failed-one in that window", v, k, ti, len(got), len(want)),
				map[string]interface{}{"got": got, "want_n": len(want)})
			break
		}
	}
	if !safeClose(rep, n.node) {
		return
	}
	<-n.cons.done
}

// c13udpPeerFlap: the peer of a UDP client endpoint goes away for a while (its port is closed: the kernel answers the node's
// datagrams with "port unreachable") while the node keeps writing, and then comes back on the same port. The link is
// usable again: the node's output reaches the peer once more - over the same channel or, after a reported close, over a
// fresh one; it does not stay open and mute.
func c13udpPeerFlap(rep *vh.Report, seed uint64, idx int) {
	if aborted() {
		return
	}
	prev := gomavlib.VerifSetReconnectPeriod(60 * time.Millisecond)
	defer gomavlib.VerifSetReconnectPeriod(prev)
	pc, err := net.ListenPacket("udp4", "127.0.0.1:0")
	if err != nil {
		return
	}
	addr := pc.LocalAddr().String()
	node := &gomavlib.Node{Endpoints: []gomavlib.EndpointConf{gomavlib.EndpointUDPClient{Address: addr}}, Dialect: testDialect, OutVersion: gomavlib.V2, OutSystemID: 23,
		HeartbeatPeriod: 15 * time.Millisecond, IdleTimeout: 10 * time.Second}
	if err := node.Initialize(); err != nil {
		pc.Close()
		rep.Inconclusive("C13 udp peer flap: " + err.Error())
		return
	}
	cons := newConsumer(rep, "C13", "udp-client", node)
	cons.noAutomaton = true
	cons.start()
	var nodeAddr net.Addr
	count := func(p net.PacketConn, d time.Duration) int {
		n := 0
		buf := make([]byte, 600)
		deadline := time.Now().Add(d)
		for time.Now().Before(deadline) {
			_ = p.SetReadDeadline(time.Now().Add(30 * time.Millisecond))
			if k, a, err := p.ReadFrom(buf); err == nil && k > 0 {
				n++
				nodeAddr = a
			} else if nodeAddr != nil && p != pc {
				// the peer that is back talks to the node as well (so the link is not idle in the receiving direction)
				_, _ = p.WriteTo(uidFrame(uint64(n), 0, 9, false, nil, 0), nodeAddr)
			}
		}
		return n
	}
	before := count(pc, 150*time.Millisecond)
	pc.Close() // the peer is gone: port closed
	for i := 0; i < 20; i++ {
		for j := 0; j < 6; j++ { // bursts: several datagrams back to back
			_ = node.WriteMessageAll(&MessageVfUid{Uid: uint64(1000*j + i)})
		}
		time.Sleep(10 * time.Millisecond)
	}
	pc2, err := net.ListenPacket("udp4", addr)
	if err != nil {
		safeClose(rep, node)
		<-cons.done
		rep.Inconclusive("C13 udp peer flap: the port could not be bound again: " + err.Error())
		return
	}
	defer pc2.Close()
	after := 0
	for w := 0; w < 10 && after == 0; w++ {
		after = count(pc2, 300*time.Millisecond)
	}
	closes := 0
	for _, ci := range cons.allChannels() {
		if cons.snapshot(ci).State == 2 {
			closes++
		}
	}
	if !safeClose(rep, node) {
		return
	}
	<-cons.done
	rep.Eval(1)
	rep.Count("udp_peer_flap_runs", 1)
	rep.Distinct("udp-flap", idx)
	if before == 0 {
		rep.Inconclusive("C13 udp peer flap: nothing received from the node before the peer went away")
		return
	}
	if after == 0 {
		rep.Violation("what=silent-dead:udp-peer-flap ep=udp-client", fmt.Sprintf("the peer of a UDP client endpoint was away for 200 ms (port closed) while the node was writing, and came back: in the 3 s that followed nothing more reached it (heartbeats every 15 ms; %d channel(s) reported closed)", closes), nil)
	}
}

// c13outage: an outage - every write on one link fails, without interruption, for several write timeouts (WriteTimeout
// 80 ms configured; custom transports know no deadlines themselves) while the application keeps writing; then the link
// works again. The channel was never reported closed: what is written afterwards comes out.
func c13outage(rep *vh.Report, seed uint64, idx int) {
	if aborted() {
		return
	}
	r := vh.Sub(seed, fmt.Sprintf("c13-outage-%d", idx))
	hookReset(r.U64(), false, false)
	c13WriteTimeout = 80 * time.Millisecond
	defer func() { c13WriteTimeout = 0 }()
	if idx%2 == 1 {
		// ... and an idle timeout shorter than the outage (it is about what the node RECEIVES on connections with deadlines)
		c13IdleTimeout = 100 * time.Millisecond
		defer func() { c13IdleTimeout = 0 }()
	}
	k := 1 + r.Intn(2)
	n := c13start(rep, k, false, false)
	if n == nil {
		return
	}
	const fam = 0xD7
	v := r.Intn(k)
	tr := n.trs[v]
	_ = n.node.WriteMessageAll(&MessageVfUid{Uid: uint64(fam)<<56 | 1})
	tr.WaitWrites(1, 300*time.Millisecond)
	werr := []error{errWrite, os.ErrDeadlineExceeded, syscall.EPIPE}[idx%3]
	tr.FailWriteAt(tr.WriteCalls()+1, werr, true)
	start := time.Now()
	for i := 0; time.Since(start) < 4*c13WriteTimeout; i++ {
		_ = n.node.WriteMessageAll(&MessageVfUid{Uid: uint64(fam)<<56 | uint64(100+i)})
		time.Sleep(4 * time.Millisecond)
	}
	tr.StopFailing()
	closed := func() bool {
		for _, ci := range n.cons.allChannels() {
			if sn := n.cons.snapshot(ci); sn.Tr == tr && sn.State == 2 {
				return true
			}
		}
		return false
	}
	var want []uint64
	for i := 0; i < 10; i++ {
		uid := uint64(fam+1)<<56 | uint64(i+1)
		want = append(want, uid)
		_ = n.node.WriteMessageAll(&MessageVfUid{Uid: uid})
		time.Sleep(time.Millisecond)
	}
	waitFor(func() bool { acc, _ := wireUIDs(tr, fam+1); return len(acc) >= len(want) || closed() }, func() int64 { return int64(tr.WriteCalls()) + n.cons.nEvents() }, 600*time.Millisecond)
	got, _ := wireUIDs(tr, fam+1)
	rep.Eval(1)
	rep.Count("outage_runs", 1)
	rep.Distinct("outage", idx, k, v)
	if closed() {
		rep.Count("outage_runs_closed", 1)
	} else if !eqU64(got, want) {
		rep.Violation("what=silent-dead:outage ep=custom", fmt.Sprintf("after an outage of %v (every write failing with %v, write timeout %v) the channel is still open, the link works again, yet %d of %d later items came out", 4*80*time.Millisecond, werr, 80*time.Millisecond, len(got), len(want)),
			map[string]interface{}{"channels": k, "victim": v, "got": got, "want": want, "backlog": n.chans[v].VerifBacklog()})
	}
	if !safeClose(rep, n.node) {
		return
	}
	<-n.cons.done
}

// c13stalledReaderGoesOn: a channel whose transport takes no output and whose queue is full goes on RECEIVING: the frames
// arriving on it - the first heartbeat of a new ArduPilot sender (which makes the node want to write 7 stream requests on
// that very channel) and everything behind it - still surface as events.
func c13stalledReaderGoesOn(rep *vh.Report, seed uint64, idx int) {
	if aborted() {
		return
	}
	r := vh.Sub(seed, fmt.Sprintf("c13-srg-%d", idx))
	hookReset(r.U64(), false, false)
	tr := fake.NewTransport("srg")
	node := &gomavlib.Node{Endpoints: []gomavlib.EndpointConf{gomavlib.EndpointCustom{ReadWriteCloser: tr}}, Dialect: testDialect, OutVersion: gomavlib.V2, OutSystemID: 21,
		HeartbeatDisable: true, StreamRequestEnable: true, StreamRequestFrequency: 4}
	if err := node.Initialize(); err != nil {
		rep.HarnessError(err.Error())
		return
	}
	cons := newConsumer(rep, "C13", "custom", node)
	cons.start()
	if !cons.waitOpen(1, 2*time.Second) {
		rep.HarnessError("channel did not open")
		safeClose(rep, node)
		return
	}
	ch := cons.openChannels()[0].Ch
	const fam = 0xD5
	tr.BlockWrites()
	for i := 0; i < 80; i++ {
		_ = node.WriteMessageTo(ch, &MessageVfUid{Uid: uint64(fam)<<56 | uint64(i+1)})
	}
	waitFor(func() bool { return ch.VerifBacklog() >= 64 }, func() int64 { return int64(ch.VerifBacklog()) }, 300*time.Millisecond)
	full := ch.VerifBacklog() >= 64
	// the first heartbeats of new ArduPilot senders, and ordinary frames behind each of them
	var want []uint64
	for i := 0; i < 5; i++ {
		tr.Feed(hbFrame(byte(10+i), 1, 3, 0))
		for j := 0; j < 4; j++ {
			uid := uint64(fam+1)<<56 | uint64(i*4+j+1)
			want = append(want, uid)
			tr.Feed(uidFrame(uid, byte(j), 7, false, nil, 0))
		}
	}
	ci := cons.openChannels()[0]
	waitFor(func() bool { return len(cons.snapshot(ci).UIDs) >= len(want) }, cons.nEvents, 700*time.Millisecond)
	got := cons.snapshot(ci).UIDs
	rep.Eval(1)
	rep.Count("stalled_full_channels_still_receiving_runs", 1)
	rep.Distinct("srg", idx)
	if !full {
		rep.Inconclusive("C13 stalled reader: the queue did not fill")
	} else if !eqU64(got, want) {
		rep.Violation("what=events-stop:stream-request ep=custom", fmt.Sprintf("a channel whose transport takes no output (queue full) stopped delivering what it receives after the first heartbeat of a new ArduPilot sender: %d frame events for %d frames", len(got), len(want)),
			map[string]interface{}{"backlog": ch.VerifBacklog(), "got": len(got), "want": len(want)})
	}
	tr.UnblockWrites()
	if !safeClose(rep, node) {
		return
	}
	<-cons.done
}

// c13tcpStall: the peer of a TCP channel keeps the connection up but stops reading until the node's
// writes run into the write timeout, then reads again. Afterwards the channel is healthy: it must
// either have been reported closed or deliver later writes (it must not stay open and mute).
func c13tcpStall(rep *vh.Report, seed uint64, idx int, asClient bool) {
	if aborted() {
		return
	}
	r := vh.Sub(seed, fmt.Sprintf("c13-tcpstall-%d", idx))
	hookReset(r.U64(), false, false) // no perturbation: the writer must be held up by the socket, not by the harness
	port := freeTCPPort()
	wt := time.Duration(100+r.Intn(100)) * time.Millisecond
	var ep gomavlib.EndpointConf = gomavlib.EndpointTCPServer{Address: fmt.Sprintf("127.0.0.1:%d", port)}
	var ln net.Listener
	if asClient {
		var err error
		ln, err = (&net.ListenConfig{Control: smallRcvBuf}).Listen(context.Background(), "tcp4", fmt.Sprintf("127.0.0.1:%d", port))
		if err != nil {
			rep.Inconclusive("C13 tcp stall: " + err.Error())
			return
		}
		defer ln.Close()
		ep = gomavlib.EndpointTCPClient{Address: fmt.Sprintf("127.0.0.1:%d", port)}
	}
	node := &gomavlib.Node{Endpoints: []gomavlib.EndpointConf{ep}, Dialect: testDialect, OutVersion: gomavlib.V2, OutSystemID: 22, HeartbeatDisable: true,
		WriteTimeout: wt, IdleTimeout: 30 * time.Second}
	if err := node.Initialize(); err != nil {
		rep.Inconclusive("C13 tcp stall: " + err.Error())
		return
	}
	cons := newConsumer(rep, "C13", "tcp", node)
	cons.start()
	var conn net.Conn
	var err error
	if asClient {
		conn, err = ln.Accept()
	} else {
		conn, err = (&net.Dialer{Control: smallRcvBuf}).Dial("tcp4", fmt.Sprintf("127.0.0.1:%d", port))
	}
	if err != nil {
		safeClose(rep, node)
		return
	}
	defer conn.Close()
	if !cons.waitOpen(1, 2*time.Second) {
		rep.Inconclusive("C13 tcp stall: the channel did not open")
		safeClose(rep, node)
		return
	}
	ch := cons.openChannels()[0].Ch
	const fam = 0xD6
	// the peer is silent: flood until the writer has been held up for longer than the write timeout several times
	big := make([]byte, 250)
	for i := range big {
		big[i] = byte(1 + i%250)
	}
	flooded := 0
	start := time.Now()
	lastDeq, heldUp := -1, 0
	lastDeqAt, firstHeld := time.Now(), time.Time{}
	stalled := false
	for time.Since(start) < 8*time.Second {
		for k := 0; k < 50; k++ {
			flooded++
			copy(big, []byte{byte(flooded), byte(flooded >> 8), byte(flooded >> 16), 0, 0, 0, 0, fam})
			sp := &ref.FrameSpec{Version: 2, Sys: 9, Comp: 1, MsgID: 5000, Payload: append([]byte(nil), big...)}
			ref.Seal(sp, uidLayout.CRCExtra, nil)
			_ = node.WriteFrameTo(ch, &frame.V2Frame{SystemID: 9, ComponentID: 1, Checksum: sp.Checksum, Message: &message.MessageRaw{ID: 5000, Payload: sp.Payload}})
		}
		time.Sleep(time.Millisecond)
		// the writer is held up by the socket: with items waiting it takes nothing from its queue for (nearly) a whole
		// write timeout. Three such episodes, or one followed by two more timeouts of flooding, and the peer resumes.
		deq := hookHits()["ch.writer.dequeue"]
		if deq != lastDeq || ch.VerifBacklog() == 0 {
			lastDeq, lastDeqAt = deq, time.Now()
		} else if time.Since(lastDeqAt) > wt*9/10 {
			heldUp++
			if firstHeld.IsZero() {
				firstHeld = time.Now()
			}
			lastDeqAt = time.Now()
		}
		if heldUp >= 3 || (heldUp >= 1 && time.Since(firstHeld) > 3*wt) {
			stalled = true
			break
		}
	}
	rep.Count("tcp_stall_writes_held_up_for_the_write_timeout", heldUp)
	if !stalled {
		rep.Inconclusive("C13 tcp stall: 8 s of output without one write held up for the write timeout")
		safeClose(rep, node)
		return
	}
	// the peer reads again, for the rest of the scenario
	if tc, ok := conn.(*net.TCPConn); ok {
		_ = tc.SetReadBuffer(1 << 20)
	}
	var mu sync.Mutex
	got := map[uint64]bool{}
	var rx int64
	var acc []byte
	// scan takes complete frames with a correct checksum out of acc (mu held). A frame cut by a write that timed out half
	// way is followed by whole frames: resynchronise byte by byte. final: what looks like the start of a frame that the
	// received bytes do not complete is skipped too (nothing more will come).
	scan := func(final bool) {
		for len(acc) > 0 {
			f, used, st := ref.ParseAt(acc, 0)
			if st == ref.ParseIncomplete && !final {
				return
			}
			if st != ref.ParseOK || ref.ChecksumOfWire(acc[:used], uidLayout.CRCExtra) != f.Checksum {
				acc = acc[1:]
				continue
			}
			if uid, ok := uidOfWire(f); ok {
				got[uid] = true
			}
			acc = acc[used:]
		}
	}
	go func() {
		buf := make([]byte, 65536)
		for {
			n, err := conn.Read(buf)
			mu.Lock()
			acc = append(acc, buf[:n]...)
			scan(false)
			mu.Unlock()
			atomic.AddInt64(&rx, int64(n))
			if err != nil {
				return
			}
		}
	}()
	// wait until what is left of the flood has drained (no-progress criterion on the bytes the peer receives)
	waitFor(func() bool { return false }, func() int64 { return atomic.LoadInt64(&rx) }, 4*wt+300*time.Millisecond)
	mu.Lock()
	floodSeen := len(got)
	mu.Unlock()
	rep.Count("tcp_stall_flooded", flooded)
	rep.Count("tcp_stall_flood_items_received", floodSeen)
	if floodSeen < flooded-65 {
		rep.Count("tcp_stall_runs_with_discarded_or_timed_out_writes", 1)
	}
	// later writes on the now healthy channel
	const markers = 30
	for i := 1; i <= markers; i++ {
		_ = node.WriteMessageTo(ch, &MessageVfUid{Uid: uint64(fam+1)<<56 | uint64(i), Kind: 1, Pad: [3]uint8{1, 2, 3}})
		time.Sleep(2 * time.Millisecond)
	}
	count := func() int {
		mu.Lock()
		defer mu.Unlock()
		c := 0
		for u := range got {
			if u>>56 == fam+1 {
				c++
			}
		}
		return c
	}
	closed := func() bool {
		for _, ci := range cons.allChannels() {
			if s := cons.snapshot(ci); s.State == 2 {
				return true
			}
		}
		return false
	}
	waitFor(func() bool { return count() >= markers || closed() }, func() int64 { return atomic.LoadInt64(&rx) + cons.nEvents() }, 4*wt+500*time.Millisecond)
	mu.Lock()
	save := append([]byte(nil), acc...)
	scan(true) // the markers may sit behind the head of a frame that a timed-out write left incomplete
	acc = save
	mu.Unlock()
	c := count()
	wit := map[string]interface{}{"as_client": asClient, "write_timeout_ms": wt.Milliseconds(), "flooded": flooded, "flood_items_received": floodSeen, "markers_received": c, "backlog": ch.VerifBacklog()}
	switch {
	case closed():
		rep.Count("failure_led_to_close_event", 1)
		for _, ci := range cons.allChannels() {
			if sn := cons.snapshot(ci); sn.State == 2 {
				rep.Observe(fmt.Sprintf("tcp stall: channel closed with %v (received %d bytes, %d flood items)", sn.CloseErr, atomic.LoadInt64(&rx), floodSeen))
			}
		}
	case c >= markers-2:
		rep.Count("tcp_stall_recovered", 1)
	case c == 0:
		rep.Violation("what=silent-dead:werr ep=tcp", "after write timeouts against a peer that stopped reading for a while, the channel stays open but nothing written later comes out", wit)
	default:
		rep.Violation("what=silent-dead:werr ep=tcp", fmt.Sprintf("after write timeouts against a peer that stopped reading for a while, only %d of %d later writes come out of the open channel", c, markers), wit)
	}
	if !safeClose(rep, node) {
		return
	}
	<-cons.done
	rep.Eval(1)
	rep.Count("tcp_stall_runs", 1)
	rep.Distinct("tcpstall", idx, asClient)
}

// smallRcvBuf makes a socket advertise a small receive window from the handshake on.
func smallRcvBuf(network, address string, c syscall.RawConn) error {
	return c.Control(func(fd uintptr) {
		_ = syscall.SetsockoptInt(int(fd), syscall.SOL_SOCKET, syscall.SO_RCVBUF, 4096)
	})
}

// c13slowLink: a link that still takes output, but slowly (every transport Write lasts d), is offered more than it can
// carry. The application writes to all channels in lock-step with a fast link: the next item is written as soon as the
// fast link has the previous one. Logical oracle: the number of items the slow link has taken by the time the fast link has
// all N. If the slow link lost (nearly) nothing although the flow overran its backlog, every write waited for it: the
// node advanced at the slow link's pace. Judged only after a second run with a four times slower link shows the same.
func c13slowLink(rep *vh.Report, seed uint64, idx int) {
	if aborted() {
		return
	}
	r := vh.Sub(seed, fmt.Sprintf("c13-slowlink-%d", idx))
	hookReset(r.U64(), false, false)
	run := func(d time.Duration, N int) (m int, elapsed time.Duration, ok bool) {
		slow, fast := fake.NewTransport("slow"), fake.NewTransport("fast")
		node := &gomavlib.Node{Endpoints: []gomavlib.EndpointConf{gomavlib.EndpointCustom{ReadWriteCloser: slow}, gomavlib.EndpointCustom{ReadWriteCloser: fast}},
			Dialect: testDialect, OutVersion: gomavlib.V2, OutSystemID: 21, HeartbeatDisable: true}
		if err := node.Initialize(); err != nil {
			rep.HarnessError(err.Error())
			return 0, 0, false
		}
		cons := newConsumer(rep, "C13", "custom", node)
		cons.start()
		if !cons.waitOpen(2, 2*time.Second) {
			rep.HarnessError("channels did not open")
			safeClose(rep, node)
			return 0, 0, false
		}
		slow.OnWrite(func(*fake.WriteRec) { time.Sleep(d) })
		arrived := make(chan struct{}, N+8)
		fast.OnWrite(func(*fake.WriteRec) { arrived <- struct{}{} })
		t0 := time.Now()
		ok = true
		for i := 0; i < N && ok; i++ {
			_ = node.WriteMessageAll(&MessageVfUid{Uid: uint64(0xD7)<<56 | uint64(i+1)})
			select {
			case <-arrived:
			case <-time.After(3 * time.Second):
				rep.Violation("what=lost ep=custom", fmt.Sprintf("item %d written to all channels did not reach the healthy link within 3 s while another link was slow (%v per write)", i, d), nil)
				ok = false
			}
		}
		elapsed = time.Since(t0)
		m = slow.NWrites()
		slow.OnWrite(nil)
		if !safeClose(rep, node) {
			return m, elapsed, false
		}
		<-cons.done
		return m, elapsed, ok
	}
	N := 300
	m, el, ok := run(5*time.Millisecond, N)
	if !ok {
		return
	}
	rep.Eval(1)
	rep.Count("slow_link_runs", 1)
	rep.Count("slow_link_items_taken_while_fast_link_took_300", m)
	rep.Distinct("slowlink", idx)
	if m < N-70 {
		return
	}
	m2, el2, ok := run(20*time.Millisecond, N)
	if !ok {
		return
	}
	if m2 >= N-70 {
		rep.Violation("what=delay:slow-link ep=custom", fmt.Sprintf("%d items were written to all channels in lock-step with a fast link while another link took %v (then %v) per write: the slow link lost next to nothing (%d and %d items taken, backlog bound 64) and the runs lasted %v and %v - every write waited for the slow link",
			N, 5*time.Millisecond, 20*time.Millisecond, m, m2, el.Round(time.Millisecond), el2.Round(time.Millisecond)), nil)
	}
}

// c13tcpLingeringClose: a TCP peer has stopped reading (output sits unsent in the socket) while the node's write timeout
// is several seconds long; then the peer half-closes, or the link's idle... the read side ends. The channel's closure
// must not wait for the unsent output: the close event is due at once (bound: half the write timeout; it takes
// about a millisecond).
func c13tcpLingeringClose(rep *vh.Report, seed uint64, idx int, asClient bool) {
	if aborted() {
		return
	}
	r := vh.Sub(seed, fmt.Sprintf("c13-tcplinger-%d", idx))
	hookReset(r.U64(), false, false)
	port := freeTCPPort()
	wt := 3 * time.Second
	var ep gomavlib.EndpointConf = gomavlib.EndpointTCPServer{Address: fmt.Sprintf("127.0.0.1:%d", port)}
	var ln net.Listener
	if asClient {
		var err error
		ln, err = (&net.ListenConfig{Control: smallRcvBuf}).Listen(context.Background(), "tcp4", fmt.Sprintf("127.0.0.1:%d", port))
		if err != nil {
			rep.Inconclusive("C13 tcp lingering close: " + err.Error())
			return
		}
		defer ln.Close()
		ep = gomavlib.EndpointTCPClient{Address: fmt.Sprintf("127.0.0.1:%d", port)}
	}
	node := &gomavlib.Node{Endpoints: []gomavlib.EndpointConf{ep}, Dialect: testDialect, OutVersion: gomavlib.V2, OutSystemID: 22, HeartbeatDisable: true,
		WriteTimeout: wt, IdleTimeout: 30 * time.Second}
	if err := node.Initialize(); err != nil {
		rep.Inconclusive("C13 tcp lingering close: " + err.Error())
		return
	}
	cons := newConsumer(rep, "C13", "tcp", node)
	var closedAt int64
	cons.onEvent = func(e *evRec, ci *chanInfo) {
		if e.Type == "close" && atomic.LoadInt64(&closedAt) == 0 {
			atomic.StoreInt64(&closedAt, time.Now().UnixNano())
		}
	}
	cons.start()
	var conn net.Conn
	var err error
	if asClient {
		conn, err = ln.Accept()
	} else {
		conn, err = (&net.Dialer{Control: smallRcvBuf}).Dial("tcp4", fmt.Sprintf("127.0.0.1:%d", port))
	}
	if err != nil {
		safeClose(rep, node)
		return
	}
	defer conn.Close()
	if !cons.waitOpen(1, 2*time.Second) {
		rep.Inconclusive("C13 tcp lingering close: the channel did not open")
		safeClose(rep, node)
		return
	}
	ch := cons.openChannels()[0].Ch
	big := make([]byte, 250)
	for i := range big {
		big[i] = byte(1 + i%250)
	}
	// the peer is silent: output until the writer is held up by the socket (items wait and nothing is taken from the queue)
	held := false
	lastDeq, lastDeqAt := -1, time.Now()
	for start := time.Now(); time.Since(start) < 2*time.Second && !held; {
		for k := 0; k < 50; k++ {
			sp := &ref.FrameSpec{Version: 2, Sys: 9, Comp: 1, MsgID: 5000, Payload: append([]byte(nil), big...)}
			ref.Seal(sp, uidLayout.CRCExtra, nil)
			_ = node.WriteFrameTo(ch, &frame.V2Frame{SystemID: 9, ComponentID: 1, Checksum: sp.Checksum, Message: &message.MessageRaw{ID: 5000, Payload: sp.Payload}})
		}
		time.Sleep(time.Millisecond)
		deq := hookHits()["ch.writer.dequeue"]
		if deq != lastDeq || ch.VerifBacklog() == 0 {
			lastDeq, lastDeqAt = deq, time.Now()
		} else if time.Since(lastDeqAt) > 100*time.Millisecond {
			held = true
		}
	}
	if !held {
		rep.Inconclusive("C13 tcp lingering close: the socket took 2 s of output without holding the writer up")
		safeClose(rep, node)
		return
	}
	// the peer ends its side of the connection (it still does not read)
	t0 := time.Now()
	if tc, ok := conn.(*net.TCPConn); ok {
		_ = tc.CloseWrite()
	}
	waitFor(func() bool { return atomic.LoadInt64(&closedAt) != 0 }, func() int64 { return 0 }, wt+2*time.Second)
	rep.Eval(1)
	rep.Count("tcp_closures_with_unsent_output_and_long_write_timeout", 1)
	rep.Distinct("tcplinger", idx, asClient)
	ca := atomic.LoadInt64(&closedAt)
	switch {
	case ca == 0:
		rep.Violation("what=mute-open ep=tcp", fmt.Sprintf("a TCP channel whose peer had stopped reading and then ended its side was not reported closed within %v", wt+2*time.Second), nil)
	case time.Unix(0, ca).Sub(t0) > wt/2:
		rep.Violation("what=close-late ep=tcp", fmt.Sprintf("a TCP channel with unsent output in its socket (peer not reading, write timeout %v) was reported closed %v after its peer ended the connection: the closure waited for the output",
			wt, time.Unix(0, ca).Sub(t0).Round(time.Millisecond)), map[string]interface{}{"as_client": asClient})
	}
	if !safeClose(rep, node) {
		return
	}
	<-cons.done
}
