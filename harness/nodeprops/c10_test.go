package nodeprops

import (
	"errors"
	"fmt"
	"io"
	"net"
	"os"
	"strings"
	"sync"
	"sync/atomic"
	"testing"
	"time"

	"github.com/bluenviron/gomavlib/v3"
	"github.com/bluenviron/gomavlib/v3/pkg/frame"
	"github.com/bluenviron/gomavlib/v3/pkg/message"

	"verifharness/fake"
	"verifharness/ref"
	"verifharness/vh"
)

// C10 — per-channel event stream: open first, close last, frames lossless and in order.

var errSession = errors.New("injected session end")

func freeTCPPort() int {
	l, err := net.Listen("tcp4", "127.0.0.1:0")
	if err != nil {
		return 0
	}
	defer l.Close()
	return l.Addr().(*net.TCPAddr).Port
}

func freeUDPPort() int {
	c, err := net.ListenPacket("udp4", "127.0.0.1:0")
	if err != nil {
		return 0
	}
	defer c.Close()
	return c.LocalAddr().(*net.UDPAddr).Port
}

// inputGen builds hostile input for one link.
type inputGen struct {
	// rejected counts, per session() call, the complete frames with a wrong checksum / signature put into the session
	rejected int
	r        *vh.RNG
	keyRaw   []byte
	ts       uint64
	trIdx    int
	hbs      int
}

// session returns the bytes of one session and the uids of its valid frames.
func (g *inputGen) session(sess, nItems int, v1ok bool) ([]byte, []uint64) {
	var out []byte
	var uids []uint64
	g.rejected = 0
	for i := 0; i < nItems; i++ {
		uid := uint64(g.trIdx)<<48 | uint64(sess)<<32 | uint64(i+1)
		g.ts += 1 + uint64(g.r.Intn(5))
		v1 := v1ok && g.keyRaw == nil && g.r.Chance(1, 4)
		sys := byte(1 + g.trIdx)
		if g.r.Chance(1, 8) {
			sys = 77 + byte(g.r.Intn(3)) // the system id (component 1) of the receiving node itself: no reason not to deliver
		}
		w := uidFrame(uid, byte(i), sys, v1, g.keyRaw, g.ts)
		switch k := g.r.Intn(10); {
		case k == 0 && g.keyRaw == nil && g.r.Chance(1, 3): // ... sent with an untruncated (zero-tailed) payload and a wrong checksum
			out = append(out, uidFrameUntruncated(uid, byte(i), sys, true)...)
			g.rejected++
		case k == 5 && g.keyRaw == nil: // a valid frame whose sender did not truncate the payload
			out = append(out, uidFrameUntruncated(uid, byte(i), sys, false)...)
			uids = append(uids, uid)
		case k == 0: // complete frame with a wrong checksum
			w = append([]byte(nil), w...)
			hdr := 10
			if v1 {
				hdr = 6
			}
			w[hdr+1+g.r.Intn(7)] ^= 0x40 // payload byte: extent unchanged
			out = append(out, w...)
			g.rejected++
		case k == 1 && g.keyRaw != nil: // complete frame with a wrong signature
			if g.r.Chance(1, 2) {
				// ... dated far ahead of the genuine traffic: a rejected frame must leave nothing behind (replay window included)
				w = uidFrame(uid, byte(i), sys, false, g.keyRaw, g.ts+2000000+uint64(g.r.Intn(1<<30)))
			}
			w = append([]byte(nil), w...)
			w[len(w)-1-g.r.Intn(6)] ^= 0x01
			out = append(out, w...)
		case k == 2: // junk without frame markers
			n := 1 + g.r.Intn(30)
			j := g.r.Bytes(n)
			for x := range j {
				if j[x] == 0xFD || j[x] == 0xFE {
					j[x] = 0x33
				}
			}
			out = append(out, j...)
		case k == 3 && g.keyRaw != nil: // unsigned frame on a signed link
			out = append(out, uidFrame(uid, byte(i), 9, false, nil, 0)...)
		case k == 6 && g.keyRaw != nil && g.r.Chance(1, 2):
			// a complete frame of the other protocol version on a link that demands signatures, with the v2 marker byte inside
			// it (sequence number 253): rejected as one unit, the authenticated frames behind it are delivered
			if g.r.Chance(1, 2) {
				out = append(out, uidFrame(uid, 0xFD, 9, true, nil, 0)...)
			} else {
				// ... or a v1 frame with the largest payloads there are (254 / 255 bytes), marker bytes near its end
				p := make([]byte, 254+g.r.Intn(2))
				for x := range p {
					p[x] = byte(1 + x%200)
				}
				for x := len(p) - 40; x < len(p); x += 9 {
					p[x] = 0xFD
				}
				big := &ref.FrameSpec{Version: 1, Seq: byte(i), Sys: 9, Comp: 1, MsgID: 131, Payload: p}
				ref.Seal(big, 0, nil)
				out = append(out, ref.Serialize(big)...)
			}
		case k == 4 && g.keyRaw == nil: // an ArduPilot heartbeat from a new sender: triggers stream requests and their event
			g.hbs++
			out = append(out, hbFrame(byte(1+g.hbs%250), byte(1+g.hbs/250%250), 3, 0)...)
		default:
			out = append(out, w...)
			uids = append(uids, uid)
		}
	}
	if g.keyRaw == nil && g.r.Chance(2, 3) {
		// the last thing the link delivers before its session ends is the first heartbeat of a new ArduPilot sender
		g.hbs++
		out = append(out, hbFrame(byte(1+g.hbs%250), byte(1+g.hbs/250%250), 3, 0)...)
	}
	return out, uids
}

type c10link struct {
	tr       *fake.Transport
	sessions [][]byte
	expect   [][]uint64
	rejected []int // per session: complete frames with a wrong checksum in it
}

// feed pushes the sessions into the transport in random chunks; sessions are separated by one
// injected read error returned exactly at an item boundary.
func (l *c10link) feed(r *vh.RNG, stop *int32) {
	for si, data := range l.sessions {
		endFed := false
		for off := 0; off < len(data); {
			if atomic.LoadInt32(stop) != 0 {
				return
			}
			n := 1 + r.Intn(400)
			if r.Chance(1, 5) {
				n = 1 + r.Intn(4)
			}
			if off+n > len(data) {
				n = len(data) - off
			}
			if off+n == len(data) && si < len(l.sessions)-1 && l.tr.ErrsWithData() {
				// the session's last bytes and its end arrive in one Read call
				l.tr.WaitDrained(2 * time.Second)
				l.tr.FeedThenError(data[off:off+n], errSession)
				off += n
				endFed = true
				break
			}
			l.tr.Feed(data[off : off+n])
			off += n
			if r.Chance(1, 12) {
				time.Sleep(time.Duration(r.Intn(300)) * time.Microsecond)
			}
		}
		if si < len(l.sessions)-1 && !endFed {
			// let the session's bytes be consumed before its end is injected: the error must arrive at an item boundary
			l.tr.WaitDrained(2 * time.Second)
			l.tr.FeedError(errSession)
		}
	}
}

func eqU64(a, b []uint64) bool {
	if len(a) != len(b) {
		return false
	}
	for i := range a {
		if a[i] != b[i] {
			return false
		}
	}
	return true
}

func isPrefix(p, full []uint64) bool {
	if len(p) > len(full) {
		return false
	}
	for i := range p {
		if p[i] != full[i] {
			return false
		}
	}
	return true
}

// classifySeq explains how a delivered uid sequence differs from the expected one.
func classifySeq(got, want []uint64) string {
	seen := map[uint64]int{}
	for _, u := range got {
		seen[u]++
	}
	wantSet := map[uint64]bool{}
	for _, u := range want {
		wantSet[u] = true
	}
	for u, n := range seen {
		if n > 1 {
			return "dup"
		}
		if !wantSet[u] {
			return "misattributed"
		}
	}
	if len(got) < len(want) {
		// same order?
		j := 0
		for _, u := range want {
			if j < len(got) && got[j] == u {
				j++
			}
		}
		if j == len(got) {
			return "lost"
		}
	}
	return "reorder"
}

func c10custom(rep *vh.Report, seed uint64, idx int) {
	if aborted() {
		return
	}
	r := vh.Sub(seed, fmt.Sprintf("c10-custom-%d", idx))
	k := 1 + r.Intn(8)
	withKey := r.Chance(1, 3)
	closeFirst := r.Chance(1, 4)
	var keyRaw []byte
	var inKey *frame.V2Key
	if withKey {
		keyRaw = r.Bytes(32)
		inKey = frame.NewV2Key(keyRaw)
	}
	hookReset(r.U64(), true, true)
	links := make([]*c10link, k)
	var eps []gomavlib.EndpointConf
	totalValid := 0
	for i := range links {
		l := &c10link{tr: fake.NewTransport(fmt.Sprintf("t%d", i))}
		// every link has its own sender clock, tens of seconds apart: the replay window is per link
		g := &inputGen{r: r.Fork(), keyRaw: keyRaw, ts: 1000 + uint64((k-1-i))*7000000, trIdx: i}
		ns := 1 + r.Intn(3)
		for s := 0; s < ns; s++ {
			data, uids := g.session(s, vh.Pick(20, 60)+r.Intn(vh.Pick(200, 700)), true)
			l.sessions = append(l.sessions, data)
			l.expect = append(l.expect, uids)
			l.rejected = append(l.rejected, g.rejected)
			totalValid += len(uids)
		}
		links[i] = l
		if (idx+i)%3 == 1 {
			// a transport that reports the end of a session in the same Read call as the session's last bytes
			l.tr.ErrWithData(true)
			rep.Count("links_reporting_errors_together_with_data", 1)
		}
		if r.Chance(1, 4) {
			// the transport refuses some writes (once or from then on) while frames keep arriving
			l.tr.FailWriteAt(1+r.Intn(20), errors.New("write refused"), r.Chance(1, 2))
		}
		eps = append(eps, gomavlib.EndpointCustom{ReadWriteCloser: l.tr})
	}
	node := &gomavlib.Node{Endpoints: eps, Dialect: testDialect, OutVersion: gomavlib.V2, OutSystemID: 77, InKey: inKey,
		HeartbeatPeriod: 2 * time.Millisecond, StreamRequestEnable: r.Chance(1, 2)}
	if idx%3 == 2 {
		// what the node itself sends is version 1 (it has no outgoing key): what it accepts is governed by InKey all the same
		node.OutVersion = gomavlib.V1
		rep.Count("scenarios_with_v1_out_version", 1)
	}
	if r.Chance(1, 3) {
		node.HeartbeatDisable = true
	}
	if err := node.Initialize(); err != nil {
		rep.HarnessError("node init: " + err.Error())
		return
	}
	c := newConsumer(rep, "C10", "custom", node)
	mode := r.Intn(3)
	pr := r.Fork()
	switch mode {
	case 1: // slow
		c.pace = func(n int64) {
			if n%7 == 0 {
				time.Sleep(time.Duration(50+pr.Intn(300)) * time.Microsecond)
			}
		}
	case 2: // bursty: stops for a while, resumes
		c.pace = func(n int64) {
			if n%97 == 0 {
				time.Sleep(time.Duration(2+pr.Intn(6)) * time.Millisecond)
			}
		}
	}
	c.start()
	var stop int32
	var wg sync.WaitGroup
	for _, l := range links {
		wg.Add(1)
		l, fr := l, r.Fork()
		go func() { defer wg.Done(); l.feed(fr, &stop) }()
	}
	// background writers
	nw := 2 + r.Intn(3)
	var wwg sync.WaitGroup
	for w := 0; w < nw; w++ {
		wwg.Add(1)
		wr := r.Fork()
		go func(w int) {
			defer wwg.Done()
			for i := 0; atomic.LoadInt32(&stop) == 0; i++ {
				m := &MessageVfUid{Uid: uint64(0xEE)<<56 | uint64(w)<<32 | uint64(i)}
				open := c.openChannels()
				switch wr.Intn(3) {
				case 0:
					_ = node.WriteMessageAll(m)
				case 1:
					if len(open) > 0 {
						_ = node.WriteMessageTo(open[wr.Intn(len(open))].Ch, m)
					}
				case 2:
					if len(open) > 0 {
						_ = node.WriteMessageExcept(open[wr.Intn(len(open))].Ch, m)
					}
				}
				time.Sleep(time.Duration(20+wr.Intn(200)) * time.Microsecond)
			}
		}(w)
	}

	delivered := func() int64 {
		var n int64
		for _, ci := range c.allChannels() {
			s := c.snapshot(ci)
			n += int64(len(s.UIDs))
		}
		return n
	}
	if closeFirst {
		// the node is closed at a seed-chosen instant while input is still arriving
		target := int64(r.Intn(totalValid/2 + 1))
		waitFor(func() bool { return delivered() >= target }, c.nEvents, 500*time.Millisecond)
	} else {
		wg.Wait()
		ok := waitFor(func() bool { return delivered() >= int64(totalValid) }, c.nEvents, 1500*time.Millisecond)
		_ = ok
	}
	// freeze the verdict inputs before closing
	atomic.StoreInt32(&stop, 1)
	wdone := make(chan struct{})
	go func() { wwg.Wait(); close(wdone) }()
	select {
	case <-wdone:
	case <-time.After(8 * time.Second):
		// the application keeps consuming events, yet its Write* calls never return and (see the counts) frame events have
		// stopped: the node is wedged, whatever it was fed after that point is lost
		rep.Violation("what=lost ep=custom", fmt.Sprintf("the node stopped working while the application was consuming events: Write* calls issued 8 s ago have not returned, %d of %d valid frames produced a frame event", delivered(), totalValid),
			map[string]interface{}{"goroutines": strings.Join(libGoroutines(), "\n\n")})
		go node.Close()
		return
	}
	// what each channel had delivered before Close was called: that part must be a gap-free prefix;
	// once the node is closing, events may be dropped (pushEvent selects on terminate), so what
	// arrives afterwards only has to be in order, unique and rightly attributed
	beforeClose := map[*gomavlib.Channel]int{}
	for _, ci := range c.allChannels() {
		s := c.snapshot(ci)
		beforeClose[s.Ch] = len(s.UIDs)
	}
	closed := make(chan struct{})
	go func() { node.Close(); close(closed) }()
	select {
	case <-closed:
	case <-time.After(20 * time.Second):
		rep.Inconclusive("C10: Node.Close did not return within the watchdog (see property C12)")
		return
	}
	wg.Wait()
	select {
	case <-c.done:
	case <-time.After(10 * time.Second):
		rep.Inconclusive("C10: event channel not closed after Close (see property C12)")
		return
	}

	// offline comparison per (transport, session)
	byTr := map[*fake.Transport][]chanInfo{}
	for _, ci := range c.allChannels() {
		s := c.snapshot(ci)
		byTr[s.Tr] = append(byTr[s.Tr], s)
	}
	for li, l := range links {
		chans := byTr[l.tr]
		for si, want := range l.expect {
			rep.Count("sessions", 1)
			if si >= len(chans) {
				if !closeFirst {
					rep.Violation("what=lost ep=custom", fmt.Sprintf("link %d session %d never produced a channel", li, si), nil)
				}
				continue
			}
			got := chans[si].UIDs
			ended := si < len(l.expect)-1
			switch {
			case closeFirst:
				// a node that is closing stops delivering: what arrived is a gap-free prefix of what was fed
				_ = beforeClose
				if !isPrefix(got, want) {
					rep.Violation("what="+classifySeq(got, want)+" ep=custom",
						"frames delivered before the node was closed are not a prefix of what the channel was fed (loss, duplicate, reorder or wrong channel)",
						map[string]interface{}{"link": li, "session": si, "got": len(got), "want": len(want), "key": withKey})
				}
			case !eqU64(got, want):
				rep.Violation("what="+classifySeq(got, want)+" ep=custom",
					fmt.Sprintf("link %d session %d: %d frame events for %d valid frames fed (or wrong order / channel)", li, si, len(got), len(want)),
					map[string]interface{}{"link": li, "session": si, "consumer_mode": mode, "key": withKey, "first_got": head(got), "first_want": head(want)})
			}
			if !closeFirst && eqU64(got, want) && si < len(l.rejected) && l.rejected[si] > 0 {
				// the whole session went through the reader; the complete frames it refused surface as parse-error events
				rep.Count("sessions_with_rejected_frames", 1)
				if chans[si].Parse == 0 {
					rep.Violation("what=no-parse-error ep=custom", fmt.Sprintf("a session with %d complete frames carrying a wrong checksum produced no parse-error event at all", l.rejected[si]),
						map[string]interface{}{"link": li, "session": si, "key": withKey})
				}
			}
			if ended && !closeFirst {
				if chans[si].State != 2 {
					rep.Violation("what=no-close ep=custom", "a channel whose transport session ended was never reported closed", map[string]interface{}{"link": li, "session": si})
				} else if !errors.Is(chans[si].CloseErr, errSession) {
					rep.Violation("what=no-cause ep=custom", fmt.Sprintf("close event carries %v instead of the injected cause", chans[si].CloseErr), nil)
				}
			}
			rep.Count("frames_checked", len(got))
		}
		if len(chans) > len(l.expect) {
			rep.Violation("what=second-open ep=custom", fmt.Sprintf("link %d produced %d channels for %d sessions", li, len(chans), len(l.expect)), nil)
		}
	}
	c.mu.Lock()
	for t, n := range c.counts {
		rep.Count("events_"+t, n)
	}
	c.mu.Unlock()
	rep.Count("scenarios_custom", 1)
	rep.Distinct("sig", hookSignature())
	for p, n := range hookHits() {
		rep.Count("hook:"+p, n)
	}
	rep.Eval(1)
	if idx == 0 {
		rep.Sample(map[string]interface{}{"kind": "custom", "channels": k, "in_key": withKey, "closed_first": closeFirst, "consumer_mode": mode,
			"sessions_link0": len(links[0].expect), "valid_frames": totalValid, "first_bytes_link0": vh.Hex(links[0].sessions[0][:minInt(60, len(links[0].sessions[0]))])})
	}
}

func head(u []uint64) []string {
	var out []string
	for i := 0; i < len(u) && i < 6; i++ {
		out = append(out, fmt.Sprintf("%x", u[i]))
	}
	return out
}

// c10net: TCP and UDP server endpoints fed by real loopback peers; every connection is its own channel.
func c10net(rep *vh.Report, seed uint64, idx int) {
	if aborted() {
		return
	}
	r := vh.Sub(seed, fmt.Sprintf("c10-net-%d", idx))
	hookReset(r.U64(), true, true)
	tport, uport := freeTCPPort(), freeUDPPort()
	node := &gomavlib.Node{
		Endpoints: []gomavlib.EndpointConf{
			gomavlib.EndpointTCPServer{Address: fmt.Sprintf("127.0.0.1:%d", tport)},
			gomavlib.EndpointUDPServer{Address: fmt.Sprintf("127.0.0.1:%d", uport)},
		},
		Dialect: testDialect, OutVersion: gomavlib.V2, OutSystemID: 78, HeartbeatDisable: true, IdleTimeout: 5 * time.Second,
	}
	if err := node.Initialize(); err != nil {
		rep.Inconclusive("C10 net scenario: ports not available: " + err.Error())
		return
	}
	c := newConsumer(rep, "C10", "net", node)
	if r.Chance(1, 2) {
		pr := r.Fork()
		c.pace = func(n int64) {
			if n%11 == 0 {
				time.Sleep(time.Duration(pr.Intn(200)) * time.Microsecond)
			}
		}
	}
	c.start()
	type peer struct {
		label  string
		want   []uint64
		closed bool
		midCut bool
		udp    bool
		pairs  [][2]uint64 // frames that travelled in one datagram
	}
	var mu sync.Mutex
	var peers []*peer
	var wg sync.WaitGroup
	np := 2 + r.Intn(5)
	deliveredFor := func(label string) int {
		for _, ci := range c.allChannels() {
			s := c.snapshot(ci)
			if s.Label == label {
				return len(s.UIDs)
			}
		}
		return 0
	}
	for p := 0; p < np; p++ {
		wg.Add(1)
		pr := r.Fork()
		udp := p%3 == 2
		go func(p int) {
			defer wg.Done()
			g := &inputGen{r: pr, trIdx: 100 + p, ts: 1}
			if udp {
				conn, err := net.Dial("udp4", fmt.Sprintf("127.0.0.1:%d", uport))
				if err != nil {
					return
				}
				defer conn.Close()
				pe := &peer{label: "udp:" + conn.LocalAddr().String(), udp: true}
				stalls := 0
				n := vh.Pick(40, 200) + pr.Intn(100)
				for i := 0; i < n; i++ {
					uid := uint64(100+p)<<48 | uint64(i+1)
					w := uidFrame(uid, byte(i), 5, false, nil, 0)
					if pr.Chance(1, 8) {
						w = append([]byte(nil), w...)
						w[12] ^= 0x10 // wrong checksum, one frame per datagram
					} else if pr.Chance(1, 8) {
						// a valid frame, a frame with a wrong checksum and another valid frame in ONE datagram: the damaged one is rejected
						// input, the two others travelled together and are both delivered (or the datagram was lost: neither)
						uid2 := uid | 1<<41
						bad := append([]byte(nil), uidFrame(uid|1<<42, byte(i), 5, false, nil, 0)...)
						bad[12] ^= 0x10
						w = append(append(append([]byte(nil), w...), bad...), uidFrame(uid2, byte(i), 5, false, nil, 0)...)
						pe.want = append(pe.want, uid, uid2)
						pe.pairs = append(pe.pairs, [2]uint64{uid, uid2})
					} else if pr.Chance(1, 6) {
						// two whole frames in one datagram (294 bytes)
						uid2 := uid | 1<<40
						w = append(bigUidFrame(uid, byte(i), 5), uidFrame(uid2, byte(i), 5, false, nil, 0)...)
						pe.want = append(pe.want, uid, uid2)
						pe.pairs = append(pe.pairs, [2]uint64{uid, uid2})
					} else {
						pe.want = append(pe.want, uid)
					}
					if i%9 == 4 {
						_, _ = conn.Write([]byte{}) // an empty datagram (a keep-alive): carries nothing, ends nothing
					}
					_, _ = conn.Write(w)
					// window: UDP is lossy under overload, keep at most 8 frames outstanding
					if !waitFor(func() bool { return deliveredFor(pe.label) >= len(pe.want)-8 }, c.nEvents, 300*time.Millisecond) {
						stalls++
						if stalls >= 3 {
							break
						}
					}
				}
				mu.Lock()
				peers = append(peers, pe)
				mu.Unlock()
				return
			}
			conn, err := net.Dial("tcp4", fmt.Sprintf("127.0.0.1:%d", tport))
			if err != nil {
				return
			}
			pe := &peer{label: "tcp:" + conn.LocalAddr().String()}
			data, uids := g.session(0, vh.Pick(30, 100)+pr.Intn(vh.Pick(150, 600)), true)
			pe.want = uids
			// half of the TCP peers disconnect in the middle of a frame
			if pr.Chance(1, 2) {
				pe.midCut = true
				extra := uidFrame(uint64(100+p)<<48|0xFFFF, 0, 5, false, nil, 0)
				data = append(data, extra[:len(extra)/2]...)
			}
			for off := 0; off < len(data); {
				n := 1 + pr.Intn(500)
				if off+n > len(data) {
					n = len(data) - off
				}
				if _, err := conn.Write(data[off : off+n]); err != nil {
					break
				}
				off += n
			}
			if pr.Chance(1, 3) {
				if tc, ok := conn.(*net.TCPConn); ok {
					_ = tc.SetLinger(0) // reset instead of an orderly close
					// a reset may discard data still in flight: wait until the node has everything
					waitFor(func() bool { return deliveredFor(pe.label) >= len(pe.want) }, c.nEvents, time.Second)
				}
			}
			conn.Close()
			pe.closed = true
			mu.Lock()
			peers = append(peers, pe)
			mu.Unlock()
		}(p)
	}
	wg.Wait()
	total := 0
	for _, pe := range peers {
		total += len(pe.want)
	}
	waitFor(func() bool {
		n := 0
		closedOK := true
		for _, ci := range c.allChannels() {
			s := c.snapshot(ci)
			n += len(s.UIDs)
		}
		for _, pe := range peers {
			if pe.closed {
				found := false
				for _, ci := range c.allChannels() {
					s := c.snapshot(ci)
					if s.Label == pe.label && s.State == 2 {
						found = true
					}
				}
				closedOK = closedOK && found
			}
		}
		return n >= total && closedOK
	}, c.nEvents, 1500*time.Millisecond)
	if !safeClose(rep, node) {
		return
	}
	select {
	case <-c.done:
	case <-time.After(10 * time.Second):
		rep.Inconclusive("C10 net: event channel not closed after Close")
		return
	}
	byLabel := map[string][]chanInfo{}
	for _, ci := range c.allChannels() {
		s := c.snapshot(ci)
		byLabel[s.Label] = append(byLabel[s.Label], s)
	}
	for _, pe := range peers {
		kind := "tcp"
		if pe.udp {
			kind = "udp"
		}
		chs := byLabel[pe.label]
		rep.Count("net_peers_"+kind, 1)
		if len(chs) == 0 {
			if len(pe.want) > 0 {
				rep.Violation("what=lost ep="+kind, "a peer that sent valid frames never got a channel", pe.label)
			}
			continue
		}
		if len(chs) > 1 {
			rep.Violation("what=second-open ep="+kind, "one peer connection produced several channels", pe.label)
		}
		got := chs[0].UIDs
		if pe.udp {
			have := map[uint64]bool{}
			for _, u := range got {
				have[u] = true
			}
			for _, pr := range pe.pairs {
				if have[pr[0]] != have[pr[1]] {
					rep.Violation("what=lost ep=udp", "of two valid frames that arrived in one datagram only one produced a frame event", pe.label)
					break
				}
			}
			// UDP may legitimately lose datagrams: order and uniqueness only
			if classifySeq(got, pe.want) != "lost" && !eqU64(got, pe.want) {
				rep.Violation("what="+classifySeq(got, pe.want)+" ep=udp", "UDP channel delivered duplicated / reordered / foreign frames", map[string]interface{}{"got": len(got), "want": len(pe.want)})
			}
			if len(got) < len(pe.want) {
				rep.Count("udp_datagrams_not_delivered", len(pe.want)-len(got))
			}
		} else if !eqU64(got, pe.want) {
			rep.Violation("what="+classifySeq(got, pe.want)+" ep=tcp", fmt.Sprintf("TCP channel: %d frame events for %d valid frames sent", len(got), len(pe.want)),
				map[string]interface{}{"mid_frame_disconnect": pe.midCut})
		}
		if pe.closed && chs[0].State != 2 {
			rep.Violation("what=no-close ep=tcp", "a TCP peer disconnected but its channel was never reported closed", pe.label)
		}
		if pe.closed && chs[0].State == 2 && chs[0].CloseErr == nil {
			rep.Violation("what=no-cause ep=tcp", "close event without an error", pe.label)
		}
		rep.Count("frames_checked", len(got))
	}
	rep.Count("scenarios_net", 1)
	rep.Distinct("sig", hookSignature())
	rep.Eval(1)
}

func TestC10(t *testing.T) {
	rep := vh.NewReport("C10")
	defer rep.Finish(t)
	rep.Rule("seeded scenarios: 1..8 custom channels (sessions ending with one injected read error at an item boundary and re-opening) and TCP/UDP server endpoints with real loopback peers, TCP client / UDP client / UDP broadcast endpoints against harness sockets, and a serial endpoint through a fake opener whose ports fail persistently at item boundaries and mid-frame " +
		"(TCP peers disconnecting orderly, by reset and in the middle of a frame; UDP peers windowed); input = valid frames with unique ids, complete frames with wrong checksum / signature, " +
		"unsigned frames on signed links, junk without markers, in random chunks; consumer fast / slow / bursty; 2..4 goroutines issuing Write*; heartbeats at 2 ms; schedule perturbation at " +
		"the hook points; a quarter of the scenarios close the node first (safety half only). Per-channel automaton online + delivered-id sequence vs fed sequence offline. " +
		"distinct = distinct interleaving signatures (hash of the hook-point trace)")
	rep.RuleAdd("Also: complete v1 frames with sequence number 253 on links that demand signatures; an application that stops taking events for 4-5 idle-timeout periods (50 ms) while a TCP peer and a custom link keep delivering; peers pausing in mid-frame for less than the idle timeout. 254 / 255-byte v1 frames with marker bytes near their end on keyed links.")
	rep.RuleAdd("Rounds 12-15: keyed v1 frames of 254/255 bytes, broadcast peers on the node's own port, damaged frames between valid ones in one datagram, last bytes handed over together with the error, empty datagrams.")
	rep.RuleAdd("Rounds 16-17: datagrams from a stranger on the server's host to a UDP client's port; lives on new handles of one device whose Close does not interrupt the pending read; a broadcast router whose sender repeats the frame it just forwarded.")
	rep.Assume("exactly one parse error per rejected item is not demanded; at least one parse-error event per session that carried complete frames with a wrong checksum is")
	rep.Assume("UDP datagrams may be lost by the kernel under load: for UDP channels only order / uniqueness / attribution are asserted")
	seed := shardSeed()
	n := vh.Pick(40, 700)
	for i := 0; i < n; i++ {
		c10custom(rep, seed, i)
		if i%5 == 4 {
			c10net(rep, seed, i)
			c10serial(rep, seed, i)
			c10clients(rep, seed, i)
		}
		if i%10 == 3 {
			c10pause(rep, seed, i)
		}
		if i%10 == 8 {
			c10consumerPause(rep, seed, i)
		}
		if i%10 == 6 {
			c10broadcastSamePort(rep, seed, i)
		}
		if i%10 == 1 {
			c10deviceHandles(rep, seed, i)
			c10broadcastEcho(rep, seed, i)
		}
		if rep.NViolations() > 4 {
			break
		}
	}
	gomavlib.VerifSetHook(nil)
	rep.Floor("events_frame", 2000)
	rep.Floor("events_close", 10)
	rep.Floor("hook:ch.reader.afterRead", 1000)
	rep.Floor("scenarios_net", 3)
	rep.Floor("scenarios_serial", 3)
	rep.Floor("client_kind_scenarios", 3)
	var _ = message.Message(nil)
	var _ = ref.ParseOK
}

// c10serial: a serial endpoint through the fake opener; every port is a fresh transport whose read side fails
// persistently, at an item boundary or in the middle of a frame; the endpoint re-opens after the reconnect delay.
func c10serial(rep *vh.Report, seed uint64, idx int) {
	if aborted() {
		return
	}
	r := vh.Sub(seed, fmt.Sprintf("c10-serial-%d", idx))
	hookReset(r.U64(), true, true)
	prev := gomavlib.VerifSetReconnectPeriod(10 * time.Millisecond)
	defer gomavlib.VerifSetReconnectPeriod(prev)
	nPorts := 2 + r.Intn(4)
	var mu sync.Mutex
	var expect [][]uint64
	var ports []*fake.Transport
	sf := &serialFake{errOpen: errors.New("open failed")}
	g := &inputGen{r: r.Fork(), trIdx: 50, ts: 1}
	sf.onOpen = func(n int, tr *fake.Transport) {
		if n == 1 {
			return // probe open of Initialize
		}
		mu.Lock()
		sess := len(ports)
		ports = append(ports, tr)
		var data []byte
		var uids []uint64
		if sess < nPorts {
			data, uids = g.session(sess, vh.Pick(20, 60)+g.r.Intn(120), true)
		}
		expect = append(expect, uids)
		pr := g.r.Fork()
		mu.Unlock()
		if sess >= nPorts {
			return // the last port stays silent until the node is closed
		}
		go func() {
			for off := 0; off < len(data); {
				n := 1 + pr.Intn(200)
				if off+n > len(data) {
					n = len(data) - off
				}
				tr.Feed(data[off : off+n])
				off += n
			}
			if sess%2 == 1 {
				w := uidFrame(0xDEAD, 0, 2, false, nil, 0)
				tr.Feed(w[:len(w)/2]) // the port dies in the middle of a frame
			}
			tr.WaitDrained(2 * time.Second)
			for k := 0; k < 20; k++ {
				tr.FeedError(errSession) // persistent, as on a real device
			}
		}()
	}
	gomavlib.VerifSetSerialOpenFunc(sf.open)
	node := &gomavlib.Node{Endpoints: []gomavlib.EndpointConf{gomavlib.EndpointSerial{Device: "/dev/ttyFAKE", Baud: 57600}}, Dialect: testDialect,
		OutVersion: gomavlib.V2, OutSystemID: 79, HeartbeatPeriod: 3 * time.Millisecond, StreamRequestEnable: true}
	if err := node.Initialize(); err != nil {
		rep.HarnessError(err.Error())
		return
	}
	c := newConsumer(rep, "C10", "serial", node)
	c.start()
	waitFor(func() bool {
		closed := 0
		for _, ci := range c.allChannels() {
			if c.snapshot(ci).State == 2 {
				closed++
			}
		}
		return closed >= nPorts && len(c.openChannels()) >= 1
	}, c.nEvents, 2*time.Second)
	chans := c.allChannels()
	var snaps []chanInfo
	for _, ci := range chans {
		snaps = append(snaps, c.snapshot(ci))
	}
	if !safeClose(rep, node) {
		return
	}
	select {
	case <-c.done:
	case <-time.After(10 * time.Second):
		rep.Inconclusive("C10 serial: event channel not closed after Close")
		return
	}
	mu.Lock()
	defer mu.Unlock()
	for si := 0; si < nPorts; si++ {
		rep.Count("sessions", 1)
		if si >= len(snaps) {
			rep.Violation("what=lost ep=serial", fmt.Sprintf("serial port %d never produced a channel", si), nil)
			continue
		}
		if !eqU64(snaps[si].UIDs, expect[si]) {
			rep.Violation("what="+classifySeq(snaps[si].UIDs, expect[si])+" ep=serial",
				fmt.Sprintf("serial port %d: %d frame events for %d valid frames", si, len(snaps[si].UIDs), len(expect[si])), nil)
		}
		if snaps[si].State != 2 {
			rep.Violation("what=no-close ep=serial", "a serial port failed but its channel was never reported closed", si)
		} else if !errors.Is(snaps[si].CloseErr, errSession) {
			rep.Violation("what=no-cause ep=serial", fmt.Sprintf("close event carries %v instead of the injected cause", snaps[si].CloseErr), nil)
		}
		rep.Count("frames_checked", len(snaps[si].UIDs))
	}
	rep.Count("scenarios_serial", 1)
	rep.Distinct("sig", hookSignature())
	rep.Eval(1)
}

// c10clients: the remaining endpoint kinds — TCP client, UDP client, UDP broadcast — each carrying a hostile session:
// exactly one frame event per valid frame, in order, attributed to the channel of that endpoint.
func c10clients(rep *vh.Report, seed uint64, idx int) {
	if aborted() {
		return
	}
	r := vh.Sub(seed, fmt.Sprintf("c10-clients-%d", idx))
	hookReset(r.U64(), true, true)
	ln, err := net.Listen("tcp4", "127.0.0.1:0")
	if err != nil {
		rep.Inconclusive("C10 clients: " + err.Error())
		return
	}
	defer ln.Close()
	upc, err := net.ListenPacket("udp4", "127.0.0.1:0")
	if err != nil {
		rep.Inconclusive("C10 clients: " + err.Error())
		return
	}
	defer upc.Close()
	bport := freeUDPPort()
	// the broadcast endpoint listens either on an explicit local address (not the one that would be derived) or, every
	// other scenario, on the address derived from the broadcast address (the loopback interface: 127.0.0.1)
	bhost := "127.0.0.2"
	bconf := gomavlib.EndpointUDPBroadcast{BroadcastAddress: fmt.Sprintf("127.255.255.255:%d", bport), LocalAddress: fmt.Sprintf("127.0.0.2:%d", bport)}
	if idx%2 == 1 {
		bhost = "127.0.0.1"
		bconf.LocalAddress = ""
	}
	node := &gomavlib.Node{
		Endpoints: []gomavlib.EndpointConf{
			gomavlib.EndpointTCPClient{Address: ln.Addr().String()},
			gomavlib.EndpointUDPClient{Address: upc.LocalAddr().String()},
			bconf,
		},
		Dialect: testDialect, OutVersion: gomavlib.V2, OutSystemID: 79, HeartbeatPeriod: 20 * time.Millisecond, IdleTimeout: 5 * time.Second,
	}
	if err := node.Initialize(); err != nil {
		rep.Inconclusive("C10 clients: " + err.Error())
		return
	}
	c := newConsumer(rep, "C10", "clients", node)
	c.start()
	deliveredFor := func(label string) int {
		n := 0
		for _, ci := range c.allChannels() {
			s := c.snapshot(ci)
			if s.Label == label {
				n += len(s.UIDs)
			}
		}
		return n
	}
	type res struct {
		kind, label string
		want        []uint64
		stream      bool
		pairs       [][2]uint64 // frames that travelled in one datagram
	}
	var mu sync.Mutex
	var out []res
	var wg sync.WaitGroup
	// TCP client: the node connects to us; we send a hostile byte stream
	wg.Add(1)
	pr1 := r.Fork()
	go func() {
		defer wg.Done()
		_ = ln.(*net.TCPListener).SetDeadline(time.Now().Add(3 * time.Second))
		conn, err := ln.Accept()
		if err != nil {
			return
		}
		defer conn.Close()
		go func() { _, _ = io.Copy(io.Discard, conn) }()
		g := &inputGen{r: pr1, trIdx: 200, ts: 1}
		data, uids := g.session(0, vh.Pick(60, 300)+pr1.Intn(100), true)
		for off := 0; off < len(data); {
			n := 1 + pr1.Intn(300)
			if off+n > len(data) {
				n = len(data) - off
			}
			if _, err := conn.Write(data[off : off+n]); err != nil {
				break
			}
			off += n
		}
		label := "tcp:" + ln.Addr().String()
		waitFor(func() bool { return deliveredFor(label) >= len(uids) }, c.nEvents, time.Second)
		mu.Lock()
		out = append(out, res{"tcp-client", label, uids, true, nil})
		mu.Unlock()
	}()
	// datagram endpoints: one frame per datagram, at most 8 outstanding
	dgram := func(kind, label string, send func(w []byte) error, pr *vh.RNG, tag int) {
		defer wg.Done()
		var want []uint64
		var pairs [][2]uint64
		stalls := 0
		n := vh.Pick(60, 300) + pr.Intn(60)
		for i := 0; i < n; i++ {
			uid := uint64(tag)<<48 | uint64(i+1)
			w := uidFrame(uid, byte(i), 5, pr.Chance(1, 4), nil, 0)
			switch pr.Intn(8) {
			case 0:
				w = append([]byte(nil), w...)
				w[len(w)-1] ^= 0x10 // wrong checksum
			case 1:
				w = []byte{1, 2, 3, 4, 5} // junk datagram
			case 3:
				// valid + wrong checksum + valid in one datagram: the two valid ones travelled together
				uid2 := uint64(tag)<<48 | 1<<41 | uint64(i+1)
				bad := append([]byte(nil), uidFrame(uint64(tag)<<48|1<<42|uint64(i+1), byte(i), 5, false, nil, 0)...)
				bad[len(bad)-1] ^= 0x10
				w = append(append(append([]byte(nil), uidFrame(uid, byte(i), 5, false, nil, 0)...), bad...), uidFrame(uid2, byte(i), 5, false, nil, 0)...)
				want = append(want, uid, uid2)
				pairs = append(pairs, [2]uint64{uid, uid2})
				rep.Count("datagrams_with_a_damaged_frame_between_valid_ones", 1)
			case 2:
				// several whole frames in one datagram, 294 bytes in all (a datagram may carry up to the reader's 512)
				uid2 := uint64(tag)<<48 | 1<<40 | uint64(i+1)
				w = append(bigUidFrame(uid, byte(i), 5), uidFrame(uid2, byte(i), 5, false, nil, 0)...)
				want = append(want, uid, uid2)
				pairs = append(pairs, [2]uint64{uid, uid2})
				rep.Count("datagrams_with_several_frames", 1)
			default:
				want = append(want, uid)
			}
			if i%9 == 4 {
				_ = send([]byte{}) // an empty datagram (a keep-alive): carries nothing, ends nothing
			}
			if err := send(w); err != nil {
				break
			}
			if !waitFor(func() bool { return deliveredFor(label) >= len(want)-8 }, c.nEvents, 300*time.Millisecond) {
				stalls++
				if stalls >= 3 {
					break // frames are not coming out any more: the verdict below says which
				}
			}
		}
		waitFor(func() bool { return deliveredFor(label) >= len(want) }, c.nEvents, 500*time.Millisecond)
		mu.Lock()
		out = append(out, res{kind, label, want, false, pairs})
		mu.Unlock()
	}
	// UDP client: the node speaks first (heartbeats), we answer to where it spoke from
	wg.Add(1)
	pr2 := r.Fork()
	go func() {
		buf := make([]byte, 2048)
		_ = upc.SetReadDeadline(time.Now().Add(3 * time.Second))
		_, addr, err := upc.ReadFrom(buf)
		if err != nil {
			wg.Done()
			return
		}
		go func() { // keep draining the node's heartbeats
			_ = upc.SetReadDeadline(time.Time{})
			for {
				if _, _, err := upc.ReadFrom(buf); err != nil {
					return
				}
			}
		}()
		// a stranger on the server's host: another socket (another port) that sends valid frames to the port the client speaks
		// from. They are not from the client's peer: nothing of them arrives on the client's link
		stranger, serr := net.ListenPacket("udp4", "127.0.0.1:0")
		if serr == nil {
			defer stranger.Close()
		}
		nsent := 0
		dgram("udp-client", "udp:"+upc.LocalAddr().String(), func(w []byte) error {
			nsent++
			if serr == nil && nsent%4 == 1 {
				_, _ = stranger.WriteTo(uidFrame(uint64(0x5757)<<48|uint64(nsent), byte(nsent), 66, false, nil, 0), addr)
				rep.Count("udp_client_datagrams_from_a_stranger_on_the_servers_host", 1)
			}
			_, err := upc.WriteTo(w, addr)
			return err
		}, pr2, 201)
	}()
	// UDP broadcast: anybody on the segment sends to the node's local address
	wg.Add(1)
	pr3 := r.Fork()
	go func() {
		bc, err := net.Dial("udp4", fmt.Sprintf("%s:%d", bhost, bport))
		if err != nil {
			wg.Done()
			return
		}
		defer bc.Close()
		dgram("udp-broadcast", fmt.Sprintf("udp:127.255.255.255:%d", bport), func(w []byte) error { _, err := bc.Write(w); return err }, pr3, 202)
	}()
	wg.Wait()
	if !safeClose(rep, node) {
		return
	}
	select {
	case <-c.done:
	case <-time.After(10 * time.Second):
		rep.Inconclusive("C10 clients: event channel not closed after Close")
		return
	}
	for _, x := range out {
		var got []uint64
		nch := 0
		for _, ci := range c.allChannels() {
			s := c.snapshot(ci)
			if s.Label == x.label {
				nch++
				got = append(got, s.UIDs...)
			}
		}
		rep.Count("client_kind_sessions_"+x.kind, 1)
		rep.Count("client_kind_frames_"+x.kind, len(got))
		wit := map[string]interface{}{"endpoint": x.kind, "label": x.label, "got": len(got), "want": len(x.want), "channels_with_that_label": nch}
		if nch == 0 {
			rep.Violation("what=lost ep="+x.kind, "the endpoint never produced a channel although its peer was there", wit)
			continue
		}
		if nch > 1 {
			rep.Violation("what=second-open ep="+x.kind, "one session produced several channels", wit)
		}
		if x.stream {
			if !eqU64(got, x.want) {
				rep.Violation("what="+classifySeq(got, x.want)+" ep="+x.kind, fmt.Sprintf("%d frame events for %d valid frames sent", len(got), len(x.want)), wit)
			}
			continue
		}
		// a datagram arrives whole or not at all: frames that travelled together are delivered together
		have := map[uint64]bool{}
		for _, u := range got {
			have[u] = true
		}
		for _, pr := range x.pairs {
			if have[pr[0]] != have[pr[1]] {
				rep.Violation("what=lost ep="+x.kind, "of two valid frames that arrived in one datagram only one produced a frame event", wit)
				break
			}
		}
		// datagrams may be lost under overload: order and uniqueness
		if cl := classifySeq(got, x.want); cl != "lost" && !eqU64(got, x.want) {
			rep.Violation("what="+cl+" ep="+x.kind, "the channel delivered duplicated / reordered / foreign frames", wit)
		}
		if len(got) < len(x.want) {
			rep.Count("udp_datagrams_not_delivered", len(x.want)-len(got))
			if len(got) == 0 {
				rep.Violation("what=lost ep="+x.kind, "none of the valid frames sent to the endpoint produced a frame event", wit)
			}
		}
	}
	rep.Eval(1)
	rep.Count("client_kind_scenarios", 1)
	rep.Distinct("clients", idx, hookSignature())
}

// c10pause: a TCP / UDP peer that pauses for less than the idle timeout, also in the middle of a frame: every valid frame
// still produces its frame event, nothing surfaces as a parse error, the channel stays open.
func c10pause(rep *vh.Report, seed uint64, idx int) {
	if aborted() {
		return
	}
	r := vh.Sub(seed, fmt.Sprintf("c10-pause-%d", idx))
	hookReset(r.U64(), false, false)
	T := 400 * time.Millisecond
	port := freeTCPPort()
	node := &gomavlib.Node{Endpoints: []gomavlib.EndpointConf{gomavlib.EndpointTCPServer{Address: fmt.Sprintf("127.0.0.1:%d", port)}},
		Dialect: testDialect, OutVersion: gomavlib.V2, OutSystemID: 80, HeartbeatDisable: true, IdleTimeout: T}
	if err := node.Initialize(); err != nil {
		rep.Inconclusive("C10 pause: " + err.Error())
		return
	}
	c := newConsumer(rep, "C10", "pause", node)
	c.start()
	conn, err := net.Dial("tcp4", fmt.Sprintf("127.0.0.1:%d", port))
	if err != nil {
		safeClose(rep, node)
		return
	}
	defer conn.Close()
	var want []uint64
	var maxGap time.Duration
	last := time.Now()
	send := func(b []byte) {
		now := time.Now()
		if g := now.Sub(last); g > maxGap {
			maxGap = g
		}
		last = now
		_, _ = conn.Write(b)
	}
	nf := 4 + r.Intn(4)
	for i := 0; i < nf; i++ {
		uid := uint64(0x77)<<48 | uint64(i+1)
		w := uidFrame(uid, byte(i), 4, false, nil, 0)
		want = append(want, uid)
		cut := 1 + r.Intn(len(w)-1)
		send(w[:cut])
		time.Sleep(time.Duration(int64(T) * int64(45+r.Intn(30)) / 100)) // 0.45 .. 0.75 of the idle timeout, mid-frame
		send(w[cut:])
		time.Sleep(time.Duration(int64(T) * int64(30+r.Intn(45)) / 100))
	}
	send(uidFrame(uint64(0x77)<<48|0xFFF, 0, 4, false, nil, 0))
	want = append(want, uint64(0x77)<<48|0xFFF)
	waitFor(func() bool {
		for _, ci := range c.allChannels() {
			if len(c.snapshot(ci).UIDs) >= len(want) {
				return true
			}
		}
		return false
	}, c.nEvents, T/2)
	var snap chanInfo
	for _, ci := range c.allChannels() {
		snap = c.snapshot(ci)
	}
	if !safeClose(rep, node) {
		return
	}
	<-c.done
	rep.Eval(1)
	rep.Count("pause_scenarios", 1)
	wit := map[string]interface{}{"idle_timeout_ms": T.Milliseconds(), "largest_gap_between_sends_ms": maxGap.Milliseconds(), "frames_sent": len(want), "frame_events": len(snap.UIDs), "parse_errors": snap.Parse, "closed": snap.State == 2, "close_error": fmt.Sprint(snap.CloseErr)}
	if maxGap >= T*85/100 {
		rep.Inconclusive(fmt.Sprintf("C10 pause: the harness's own gap between sends reached %v (idle timeout %v): verdict not taken", maxGap, T))
		return
	}
	switch {
	case !eqU64(snap.UIDs, want):
		rep.Violation("what="+classifySeq(snap.UIDs, want)+" ep=tcp", fmt.Sprintf("a peer that pauses (< idle timeout) in the middle of frames: %d frame events for %d valid frames, %d parse errors", len(snap.UIDs), len(want), snap.Parse), wit)
	case snap.Parse > 0:
		rep.Violation("what=parse-error-for-valid ep=tcp", "valid frames sent with pauses shorter than the idle timeout produced parse-error events", wit)
	}
	rep.Distinct("pause", idx)
}

// c10consumerPause: the application stops taking events for several idle-timeout periods (short IdleTimeout configured)
// while a TCP peer and a custom link keep delivering, then goes on: "nothing lost or duplicated as long as the application
// keeps receiving events" - every frame that arrived meanwhile still gets its event, in order, and the channels stay open.
func c10consumerPause(rep *vh.Report, seed uint64, idx int) {
	if aborted() {
		return
	}
	r := vh.Sub(seed, fmt.Sprintf("c10-consumer-pause-%d", idx))
	hookReset(r.U64(), false, false)
	T := 50 * time.Millisecond
	port := freeTCPPort()
	tr := fake.NewTransport("cp")
	node := &gomavlib.Node{Endpoints: []gomavlib.EndpointConf{gomavlib.EndpointTCPServer{Address: fmt.Sprintf("127.0.0.1:%d", port)}, gomavlib.EndpointCustom{ReadWriteCloser: tr}},
		Dialect: testDialect, OutVersion: gomavlib.V2, OutSystemID: 80, HeartbeatDisable: true, IdleTimeout: T}
	if err := node.Initialize(); err != nil {
		rep.Inconclusive("C10 consumer pause: " + err.Error())
		return
	}
	c := newConsumer(rep, "C10", "consumer-pause", node)
	pauseAt := map[int64]bool{int64(8 + r.Intn(10)): true, int64(40 + r.Intn(20)): true, int64(90 + r.Intn(20)): true}
	var pauses int32
	c.pace = func(n int64) {
		if pauseAt[n] {
			atomic.AddInt32(&pauses, 1)
			time.Sleep(4*T + time.Duration(r.Intn(int(T)))) // the consumer goroutine's own PRNG use: nobody else touches r from here on
		}
	}
	conn, err := net.Dial("tcp4", fmt.Sprintf("127.0.0.1:%d", port))
	if err != nil {
		safeClose(rep, node)
		return
	}
	defer conn.Close()
	c.start()
	nf := 70
	var wantTCP, wantCustom []uint64
	stalled := false
	for i := 0; i < nf; i++ {
		u1 := uint64(0x78)<<48 | uint64(idx)<<24 | uint64(i+1)
		u2 := uint64(0x79)<<48 | uint64(idx)<<24 | uint64(i+1)
		_ = conn.SetWriteDeadline(time.Now().Add(5 * time.Second))
		if _, err := conn.Write(uidFrame(u1, byte(i), 4, false, nil, 0)); err != nil {
			stalled = true
			break
		}
		tr.Feed(uidFrame(u2, byte(i), 5, false, nil, 0))
		wantTCP, wantCustom = append(wantTCP, u1), append(wantCustom, u2)
		time.Sleep(T / 10)
	}
	total := len(wantTCP) + len(wantCustom)
	waitFor(func() bool {
		n := 0
		for _, ci := range c.allChannels() {
			n += len(c.snapshot(ci).UIDs)
		}
		return n >= total
	}, c.nEvents, 8*T)
	var snaps []chanInfo
	for _, ci := range c.allChannels() {
		snaps = append(snaps, c.snapshot(ci))
	}
	if !safeClose(rep, node) {
		return
	}
	<-c.done
	rep.Eval(1)
	rep.Count("consumer_pause_scenarios", 1)
	rep.Count("consumer_pauses_longer_than_idle_timeout", int(atomic.LoadInt32(&pauses)))
	if stalled {
		rep.Inconclusive("C10 consumer pause: the harness could not send (socket write timed out)")
		return
	}
	for _, sn := range snaps {
		if len(sn.UIDs) == 0 {
			continue
		}
		want, ep := wantTCP, "tcp"
		if sn.UIDs[0]>>48 == 0x79 {
			want, ep = wantCustom, "custom"
		}
		wit := map[string]interface{}{"idle_timeout_ms": T.Milliseconds(), "consumer_pauses": atomic.LoadInt32(&pauses), "frames_sent": len(want), "frame_events": len(sn.UIDs), "parse_errors": sn.Parse,
			"closed": sn.State == 2, "close_error": fmt.Sprint(sn.CloseErr), "first_got": head(sn.UIDs), "first_want": head(want)}
		if !eqU64(sn.UIDs, want) {
			rep.Violation("what="+classifySeq(sn.UIDs, want)+" ep="+ep, fmt.Sprintf("the application paused for longer than IdleTimeout and went on receiving: %d frame events for %d valid frames", len(sn.UIDs), len(want)), wit)
		}
	}
	if len(snaps) < 2 {
		rep.Violation("what=lost ep=consumer-pause", fmt.Sprintf("%d channels were reported open, 2 links were in use", len(snaps)), nil)
	}
	rep.Distinct("consumer-pause", idx)
}

// c10broadcastSamePort: a UDP broadcast endpoint bound to the wildcard address (":port"), and peers on OTHER hosts that use
// the same UDP port as the node does (the usual arrangement: everybody on 14550). Their datagrams are sent from 127.0.0.2
// and 127.0.0.3 with the node's own port as source port through a raw socket (needs CAP_NET_RAW, else inconclusive). Every
// valid frame in them is a frame event, like the frames of a peer on another port.
func c10broadcastSamePort(rep *vh.Report, seed uint64, idx int) {
	if aborted() {
		return
	}
	r := vh.Sub(seed, fmt.Sprintf("c10-bcast-sameport-%d", idx))
	hookReset(r.U64(), false, false)
	raw, err := net.ListenPacket("ip4:udp", "127.0.0.1")
	if err != nil {
		rep.Inconclusive("C10 broadcast same-port peers: no raw socket: " + err.Error())
		return
	}
	defer raw.Close()
	port := freeUDPPort()
	node := &gomavlib.Node{Endpoints: []gomavlib.EndpointConf{gomavlib.EndpointUDPBroadcast{BroadcastAddress: fmt.Sprintf("127.255.255.255:%d", port), LocalAddress: fmt.Sprintf(":%d", port)}},
		Dialect: testDialect, OutVersion: gomavlib.V2, OutSystemID: 81, HeartbeatDisable: true, IdleTimeout: 5 * time.Second}
	if err := node.Initialize(); err != nil {
		rep.Inconclusive("C10 broadcast same-port peers: " + err.Error())
		return
	}
	c := newConsumer(rep, "C10", "udp-broadcast", node)
	c.start()
	other, err := net.Dial("udp4", fmt.Sprintf("127.0.0.1:%d", port))
	if err != nil {
		safeClose(rep, node)
		return
	}
	defer other.Close()
	// a UDP datagram with a chosen source address and port (checksum 0 = none, allowed over IPv4)
	spoof := func(srcIP string, payload []byte) error {
		rs, err := net.ListenPacket("ip4:udp", srcIP)
		if err != nil {
			return err
		}
		defer rs.Close()
		h := make([]byte, 8+len(payload))
		h[0], h[1] = byte(port>>8), byte(port)
		h[2], h[3] = byte(port>>8), byte(port)
		h[4], h[5] = byte(len(h)>>8), byte(len(h))
		copy(h[8:], payload)
		_, err = rs.WriteTo(h, &net.IPAddr{IP: net.ParseIP("127.0.0.1")})
		return err
	}
	var want []uint64
	n := 12
	for i := 0; i < n; i++ {
		uid := uint64(0x7A)<<48 | uint64(idx)<<24 | uint64(i+1)
		w := uidFrame(uid, byte(i), byte(30+i%3), false, nil, 0)
		var err error
		switch i % 3 {
		case 0:
			_, err = other.Write(w) // a peer on another port of this host
		case 1:
			err = spoof("127.0.0.2", w)
		case 2:
			err = spoof("127.0.0.3", w)
		}
		if err != nil {
			rep.Inconclusive("C10 broadcast same-port peers: cannot send: " + err.Error())
			safeClose(rep, node)
			return
		}
		want = append(want, uid)
		time.Sleep(2 * time.Millisecond)
	}
	got := func() []uint64 {
		var out []uint64
		for _, ci := range c.allChannels() {
			out = append(out, c.snapshot(ci).UIDs...)
		}
		return out
	}
	waitFor(func() bool { return len(got()) >= len(want) }, c.nEvents, 400*time.Millisecond)
	g := got()
	if !safeClose(rep, node) {
		return
	}
	<-c.done
	rep.Eval(1)
	rep.Count("broadcast_same_port_scenarios", 1)
	rep.Distinct("bcast-sameport", idx)
	seen := map[uint64]bool{}
	for _, u := range g {
		seen[u] = true
	}
	var missOther, missSame int
	for i, u := range want {
		if !seen[u] {
			if i%3 == 0 {
				missOther++
			} else {
				missSame++
			}
		}
	}
	// datagrams can be lost by the kernel under load: only a loss that singles out the same-port peers is judged
	if missSame == 2*n/3 && missOther == 0 {
		rep.Violation("what=lost ep=udp-broadcast", fmt.Sprintf("a broadcast endpoint bound to the wildcard address delivered every frame of a peer on another port and none of the %d frames of peers on other hosts that use the node's own port", 2*n/3),
			map[string]interface{}{"port": port, "frame_events": len(g), "sent": len(want)})
	} else if missSame+missOther > 0 {
		rep.Observe(fmt.Sprintf("c10 broadcast same-port: %d of %d datagrams not seen (kernel loss?)", missSame+missOther, len(want)))
	}
}

// c10device is a byte source shared by all the handles opened on it (a serial line, a character device, a FIFO).
type c10device struct{ wire chan []byte }

// c10handle behaves like a file opened on the device: Close makes later reads fail but does not interrupt the read that is
// pending, which returns when the next bytes arrive.
type c10handle struct {
	dev    *c10device
	closed int32
}

func (h *c10handle) Read(p []byte) (int, error) {
	if atomic.LoadInt32(&h.closed) != 0 {
		return 0, os.ErrClosed
	}
	return copy(p, <-h.dev.wire), nil
}
func (h *c10handle) Write(p []byte) (int, error) { return len(p), nil }
func (h *c10handle) Close() error                { atomic.StoreInt32(&h.closed, 1); return nil }

// c10deviceHandles: a node is closed and another one is started on a new handle of the same device, several times. The
// peer goes on sending (so a Close that waits for the pending read gets its bytes). Every frame that arrives after Close
// has returned and the next life's channel is open surfaces in that life, on that channel.
func c10deviceHandles(rep *vh.Report, seed uint64, idx int) {
	if aborted() {
		return
	}
	r := vh.Sub(seed, fmt.Sprintf("c10-device-%d", idx))
	hookReset(r.U64(), false, false)
	dev := &c10device{wire: make(chan []byte)}
	feed := func(b []byte, d time.Duration) bool {
		select {
		case dev.wire <- b:
			return true
		case <-time.After(d):
			return false
		}
	}
	lives := 3 + r.Intn(3)
	for life := 0; life < lives; life++ {
		node := &gomavlib.Node{Endpoints: []gomavlib.EndpointConf{gomavlib.EndpointCustom{ReadWriteCloser: &c10handle{dev: dev}}}, Dialect: testDialect,
			OutVersion: gomavlib.V2, OutSystemID: 10, HeartbeatDisable: true}
		if err := node.Initialize(); err != nil {
			rep.HarnessError(err.Error())
			return
		}
		cons := newConsumer(rep, "C10", "custom-device", node)
		cons.start()
		if !cons.waitOpen(1, 2*time.Second) {
			rep.Violation("what=no-open ep=custom-device", fmt.Sprintf("life %d on a new handle of the device: no open event", life), nil)
			safeClose(rep, node)
			return
		}
		ci := cons.openChannels()[0]
		nf := 2 + r.Intn(4)
		var want []uint64
		for i := 0; i < nf; i++ {
			uid := uint64(0xDE)<<56 | uint64(life)<<32 | uint64(i+1)
			if !feed(uidFrame(uid, byte(i), 7, false, nil, 0), 3*time.Second) {
				rep.Violation("what=lost ep=custom-device", fmt.Sprintf("life %d: nobody reads the device", life), nil)
				safeClose(rep, node)
				return
			}
			want = append(want, uid)
			// (one by one: the next frame is sent once this one has surfaced, or not at all)
			if !waitFor(func() bool { return len(cons.snapshot(ci).UIDs) >= len(want) }, cons.nEvents, 2*time.Second) {
				break
			}
		}
		got := cons.snapshot(ci).UIDs
		rep.Eval(1)
		rep.Count("device_handle_lives", 1)
		if !eqU64(got, want) {
			rep.Violation("what=lost ep=custom-device", fmt.Sprintf("life %d of %d on a new handle of the same device (the earlier nodes were closed): %d frame events for %d valid frames that arrived after the channel had opened", life+1, lives, len(got), len(want)),
				map[string]interface{}{"got": got, "want": want})
		}
		// Close; the peer goes on sending: if Close still waits after a while, something arrives for the pending read
		closed := make(chan struct{})
		kicked := make(chan struct{})
		go func() {
			defer close(kicked)
			for k := 0; ; k++ {
				select {
				case <-closed:
					return
				case <-time.After(30 * time.Millisecond):
					select {
					case dev.wire <- uidFrame(uint64(0xDF)<<56|uint64(life)<<32|uint64(k), 0, 7, false, nil, 0):
					case <-closed:
						return
					}
				}
			}
		}()
		ok := safeClose(rep, node)
		close(closed)
		<-kicked
		if !ok {
			return
		}
		<-cons.done
		if !eqU64(got, want) {
			return
		}
	}
	rep.Distinct("device-handles", idx, lives)
}

// c10broadcastEcho: a router on a UDP broadcast endpoint forwards what it receives (WriteFrameAll of the received frame:
// the very bytes it was sent go out again), and the sender repeats its frame: the repetition is a frame of its own, with a
// frame event of its own, whatever the node has written in the meantime.
func c10broadcastEcho(rep *vh.Report, seed uint64, idx int) {
	if aborted() {
		return
	}
	r := vh.Sub(seed, fmt.Sprintf("c10-bcast-echo-%d", idx))
	hookReset(r.U64(), false, false)
	port := freeUDPPort()
	node := &gomavlib.Node{Endpoints: []gomavlib.EndpointConf{gomavlib.EndpointUDPBroadcast{BroadcastAddress: fmt.Sprintf("127.255.255.255:%d", port), LocalAddress: fmt.Sprintf("127.0.0.1:%d", port)}},
		Dialect: testDialect, OutVersion: gomavlib.V2, OutSystemID: 82, HeartbeatDisable: true, IdleTimeout: 5 * time.Second}
	if err := node.Initialize(); err != nil {
		rep.Inconclusive("C10 broadcast echo: " + err.Error())
		return
	}
	peer, err := net.Dial("udp4", fmt.Sprintf("127.0.0.1:%d", port))
	if err != nil {
		safeClose(rep, node)
		return
	}
	defer peer.Close()
	frames := make(chan *gomavlib.EventFrame, 64)
	evDone := make(chan struct{})
	go func() {
		defer close(evDone)
		for e := range node.Events() {
			if fe, ok := e.(*gomavlib.EventFrame); ok {
				select {
				case frames <- fe:
				default:
				}
			}
		}
	}()
	next := func() *gomavlib.EventFrame {
		select {
		case fe := <-frames:
			return fe
		case <-time.After(time.Second):
			return nil
		}
	}
	rounds := 5 + r.Intn(5)
	lost := 0
	for i := 0; i < rounds && lost == 0; i++ {
		uid := uint64(0xEC)<<56 | uint64(idx)<<16 | uint64(i+1)
		w := uidFrame(uid, byte(i), 9, false, nil, 0)
		for rep2 := 0; rep2 < 3 && lost == 0; rep2++ {
			if _, err := peer.Write(w); err != nil {
				break
			}
			fe := next()
			rep.Eval(1)
			rep.Count("broadcast_frames_repeated_after_being_forwarded", 1)
			if fe == nil {
				if rep2 == 0 {
					rep.Count("udp_datagrams_not_delivered", 1) // the first copy: a lost datagram is possible, not judged
					break
				}
				lost++
				rep.Violation("what=lost ep=udp-broadcast", fmt.Sprintf("a router on a broadcast endpoint forwarded a frame with WriteFrameAll; the sender's repetition of the same frame (copy %d, identical bytes) produced no frame event within 1 s", rep2+1),
					map[string]interface{}{"frame": vh.Hex(w)})
				break
			}
			// the router forwards what it received
			_ = node.WriteFrameAll(fe.Frame)
			time.Sleep(2 * time.Millisecond)
		}
	}
	if !safeClose(rep, node) {
		return
	}
	<-evDone
	rep.Distinct("bcast-echo", idx)
}
