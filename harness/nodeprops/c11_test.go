package nodeprops

import (
	"fmt"
	"io"
	"net"
	"os"
	"reflect"
	"strings"
	"sync"
	"sync/atomic"
	"syscall"
	"testing"
	"time"

	"github.com/bluenviron/gomavlib/v3"
	"github.com/bluenviron/gomavlib/v3/pkg/frame"
	"github.com/bluenviron/gomavlib/v3/pkg/message"

	"verifharness/fake"
	"verifharness/ref"
	"verifharness/vh"
)

// C11 — write fan-out: all / one / all-but-one, exactly once, FIFO per channel.

type c11call struct {
	G      int
	Op     string // MsgAll MsgTo MsgExcept FrameAll FrameTo FrameExcept
	Target int    // channel index in the scenario (-1 none, -2 foreign, -3 closed channel object)
	UID    uint64
	CallN  int64
	RetN   int64
	Seq    byte // header fields of forwarded frames
	Sys    byte
	Comp   byte
	Compat byte // compatibility flags of forwarded v2 frames (third-party authors use them)
	Signed bool // forwarded v2 frame that carries a signature block (the node has no key: it goes out as it came)
	Frame  bool
	V1     bool
}

func c11uid(g, i int) uint64 { return uint64(0xC1)<<56 | uint64(g)<<40 | uint64(i) }

type c11scn struct {
	rep    *vh.Report
	r      *vh.RNG
	node   *gomavlib.Node
	cons   *consumer
	trs    []*fake.Transport
	chans  []*gomavlib.Channel // channel object of transport i at start
	epKind string

	mu          sync.Mutex
	outstanding [][]int32 // [goroutine][transport]
	calls       []c11call
}

func (s *c11scn) record(c c11call) {
	s.mu.Lock()
	s.calls = append(s.calls, c)
	s.mu.Unlock()
}

// C11 scenario with k custom channels and G writer goroutines under flow control.
func c11scenario(rep *vh.Report, seed uint64, idx int) {
	if aborted() {
		return
	}
	r := vh.Sub(seed, fmt.Sprintf("c11-%d", idx))
	k := 1 + r.Intn(8)
	G := 2 + r.Intn(5)
	W := 48 / G
	if W > 12 {
		W = 12
	}
	nOps := vh.Pick(150, 600) + r.Intn(vh.Pick(250, 3000))
	v1node := r.Chance(1, 4)
	withVictim := k >= 2 && r.Chance(1, 3)
	hookReset(r.U64(), true, true)

	s := &c11scn{rep: rep, r: r, epKind: "custom"}
	var eps []gomavlib.EndpointConf
	for i := 0; i < k; i++ {
		tr := fake.NewTransport(fmt.Sprintf("c%d", i))
		s.trs = append(s.trs, tr)
		eps = append(eps, gomavlib.EndpointCustom{ReadWriteCloser: tr})
	}
	ver := gomavlib.V2
	if v1node {
		ver = gomavlib.V1
	}
	withSR := r.Chance(1, 2)
	s.node = &gomavlib.Node{Endpoints: eps, Dialect: testDialect, OutVersion: ver, OutSystemID: 42, OutComponentID: 7, HeartbeatDisable: true,
		StreamRequestEnable: withSR}
	if err := s.node.Initialize(); err != nil {
		rep.HarnessError(err.Error())
		return
	}
	// a second node provides a foreign channel
	ftr := fake.NewTransport("foreign")
	fnode := &gomavlib.Node{Endpoints: []gomavlib.EndpointConf{gomavlib.EndpointCustom{ReadWriteCloser: ftr}}, Dialect: testDialect,
		OutVersion: gomavlib.V2, OutSystemID: 43, HeartbeatDisable: true}
	if err := fnode.Initialize(); err != nil {
		rep.HarnessError(err.Error())
		return
	}
	foreign := (<-fnode.Events()).(*gomavlib.EventChannelOpen).Channel
	go func() {
		for range fnode.Events() {
		}
	}()

	s.cons = newConsumer(rep, "C11", "custom", s.node)
	s.cons.start()
	if !s.cons.waitOpen(k, 2*time.Second) {
		rep.HarnessError("channels did not open")
		return
	}
	s.chans = make([]*gomavlib.Channel, k)
	for _, ci := range s.cons.openChannels() {
		for i, tr := range s.trs {
			if ci.Tr == tr {
				s.chans[i] = ci.Ch
			}
		}
	}
	victim := -1
	if withVictim {
		victim = r.Intn(k)
	}
	s.outstanding = make([][]int32, G)
	for g := range s.outstanding {
		s.outstanding[g] = make([]int32, k)
	}
	srSeen := make([]int32, k)
	itemsSeen := make([]int32, k) // written items (stream requests of the node itself not counted)
	for ti, tr := range s.trs {
		ti := ti
		tr.OnWrite(func(rec *fake.WriteRec) {
			if f, _, st := ref.ParseAt(rec.Data, 0); st == ref.ParseOK {
				if f.MsgID == 66 {
					atomic.AddInt32(&srSeen[ti], 1)
				}
				if uid, ok := uidOfWire(f); ok && uid>>56 == 0xC1 {
					atomic.AddInt32(&itemsSeen[ti], 1)
					g := int(uid >> 40 & 0xFFFF)
					if g < G {
						atomic.AddInt32(&s.outstanding[g][ti], -1)
					}
				}
			}
		})
	}
	// concurrent incoming traffic on every link
	var stopIn int32
	var inWG sync.WaitGroup
	for ti, tr := range s.trs {
		inWG.Add(1)
		go func(ti int, tr *fake.Transport) {
			defer inWG.Done()
			srSent := 0
			for i := 0; atomic.LoadInt32(&stopIn) == 0; i++ {
				tr.Feed(uidFrame(uint64(0xAA)<<56|uint64(ti)<<32|uint64(i), byte(i), 9, false, nil, 0))
				if withSR && i%60 == 30 && atomic.LoadInt32(&srSeen[ti]) == int32(srSent) {
					// an ArduPilot heartbeat from a new sender: the node answers with 7 requests on this channel, written
					// through the same queue as everything else. At most one such burst is outstanding per channel
					// (7 of the 16 slots that flow control leaves free), so the queue cannot overflow.
					tr.Feed(hbFrame(byte(1+i/60%250), byte(1+ti), 3, 0))
					srSent += 7
				}
				time.Sleep(time.Duration(100+ti*37) * time.Microsecond)
			}
		}(ti, tr)
	}

	var closedCh atomic.Value // *gomavlib.Channel of the victim once its close event was consumed
	var victimClosedN int64
	if victim >= 0 {
		s.cons.mu.Lock()
		s.cons.onEvent = func(e *evRec, ci *chanInfo) {
			if e.Type == "close" && e.Ch == s.chans[victim] {
				atomic.StoreInt64(&victimClosedN, e.N)
				closedCh.Store(e.Ch)
			}
		}
		s.cons.mu.Unlock()
	}

	var wg sync.WaitGroup
	var flowStuck int32
	for g := 0; g < G; g++ {
		wg.Add(1)
		gr := r.Fork()
		go func(g int) {
			defer wg.Done()
			per := nOps / G
			reuseUid, reuseLow := &MessageVfUid{}, &MessageVfLow{} // the same struct values are written again and again with new contents
			for i := 0; i < per; i++ {
				uid := c11uid(g, i)
				op := []string{"MsgAll", "MsgTo", "MsgExcept", "FrameAll", "FrameTo", "FrameExcept"}[gr.Intn(6)]
				target := gr.Intn(k)
				special := 0
				if gr.Chance(1, 25) {
					special = -2 // foreign channel
				} else if cc := closedCh.Load(); cc != nil && gr.Chance(1, 6) {
					special = -3 // closed channel object
				}
				isTo := op == "MsgTo" || op == "FrameTo"
				isExcept := op == "MsgExcept" || op == "FrameExcept"
				// flow control on the stable channels that will receive this item
				for ti := 0; ti < k; ti++ {
					if ti == victim {
						continue
					}
					recv := true
					if isTo {
						recv = special == 0 && ti == target
					} else if isExcept {
						recv = !(special == 0 && ti == target)
					}
					if !recv {
						continue
					}
					for spins := 0; atomic.LoadInt32(&s.outstanding[g][ti]) >= int32(W) && atomic.LoadInt32(&flowStuck) == 0; spins++ {
						time.Sleep(50 * time.Microsecond)
						if spins > 60000 || (spins > 3000 && atomic.LoadInt32(&c11flowStuckN) > 0) {
							// >= 3 s (in practice much more) without one of W outstanding items coming out of a healthy link: items
							// were lost. Stop issuing writes; the offline checker below names the lost items.
							atomic.StoreInt32(&flowStuck, 1)
							atomic.AddInt32(&c11flowStuckN, 1)
						}
					}
					atomic.AddInt32(&s.outstanding[g][ti], 1)
				}
				if atomic.LoadInt32(&flowStuck) != 0 {
					return
				}
				var tch *gomavlib.Channel
				c := c11call{G: g, Op: op, Target: target, UID: uid}
				switch special {
				case 0:
					tch = s.chans[target]
					if target == victim {
						if cc := closedCh.Load(); cc != nil {
							c.Target = -3
							if isTo {
								// nothing must come out: undo the flow-control reservation (none was made for the victim)
							}
						}
					}
				case -2:
					tch, c.Target = foreign, -2
				case -3:
					tch, c.Target = closedCh.Load().(*gomavlib.Channel), -3
				}
				if !isTo && !isExcept {
					c.Target = -1
				}
				var fr frame.Frame
				*reuseUid = MessageVfUid{Uid: uid, Kind: 2, Pad: [3]uint8{9, 9, 9}}
				var msg message.Message = reuseUid
				if v1node {
					*reuseLow = MessageVfLow{Uid: uid, Kind: byte(uid & 1 * 2), Ext: 5} // a v1 link cannot carry id 5000
					msg = reuseLow
				}
				if op[0] == 'F' {
					c.Frame = true
					c.Seq, c.Sys, c.Comp = gr.Byte(), 1+byte(gr.Intn(250)), 1+byte(gr.Intn(250))
					v1 := gr.Chance(1, 4)
					c.V1 = v1
					if v1 {
						msg = &MessageVfLow{Uid: uid, Kind: byte(uid & 1 * 2), Ext: 5}
					} else {
						msg = &MessageVfUid{Uid: uid, Kind: 2, Pad: [3]uint8{9, 9, 9}}
					}
					if gr.Chance(1, 2) {
						// raw message with a reference checksum (a frame as it would have been received without dialect)
						lay := uidLayout
						if v1 {
							lay = lowLayout
						}
						msg = &message.MessageRaw{ID: msg.GetID(), Payload: lay.Encode(reflect.ValueOf(msg), !v1)}
					}
					if v1 {
						fr = &frame.V1Frame{SequenceNumber: c.Seq, SystemID: c.Sys, ComponentID: c.Comp, Message: msg}
					} else {
						if gr.Chance(1, 2) {
							c.Compat = gr.Byte()
						}
						f2 := &frame.V2Frame{SequenceNumber: c.Seq, SystemID: c.Sys, ComponentID: c.Comp, CompatibilityFlag: c.Compat, Message: msg}
						if gr.Chance(1, 4) {
							// a frame that came from a signed link and had its signed flag cleared by the application: the left-over
							// signature fields are not part of an unsigned frame
							f2.Signature = &frame.V2Signature{0xFD, 0xFE, 0xFD, 0xFE, 0xFD, 0xFE}
							f2.SignatureLinkID = 0xFD
							f2.SignatureTimestamp = 0xFDFEFDFEFDFE
						} else if gr.Chance(1, 4) {
							// a SIGNED frame routed by this node, which has no key of its own: it leaves with its own flags and its own
							// signature block, whatever the checksum it carried (a decoded message is re-encoded, its checksum with it)
							c.Signed = true
							f2.IncompatibilityFlag = 1
							f2.Signature = &frame.V2Signature{0xA1, 0xA2, 0xA3, 0xA4, 0xA5, byte(i)}
							f2.SignatureLinkID = 0x5C
							f2.SignatureTimestamp = 0x0000123456789A
							f2.Checksum = 0x4242
						}
						fr = f2
					}
					if raw, ok := msg.(*message.MessageRaw); ok {
						sp := &ref.FrameSpec{Version: 2, Seq: c.Seq, Sys: c.Sys, Comp: c.Comp, Compat: c.Compat, MsgID: raw.ID, Payload: raw.Payload}
						if c.Signed {
							sp.Signed, sp.Incompat = true, 1
						}
						crc := uidLayout.CRCExtra
						if v1 {
							sp.Version = 1
							crc = lowLayout.CRCExtra
						}
						ref.Seal(sp, crc, nil)
						switch ff := fr.(type) {
						case *frame.V1Frame:
							ff.Checksum = sp.Checksum
						case *frame.V2Frame:
							ff.Checksum = sp.Checksum
						}
					}
				}
				c.CallN = fake.NextSeq()
				var err error
				switch op {
				case "MsgAll":
					err = s.node.WriteMessageAll(msg)
				case "MsgTo":
					err = s.node.WriteMessageTo(tch, msg)
				case "MsgExcept":
					err = s.node.WriteMessageExcept(tch, msg)
				case "FrameAll":
					err = s.node.WriteFrameAll(fr)
				case "FrameTo":
					err = s.node.WriteFrameTo(tch, fr)
				case "FrameExcept":
					err = s.node.WriteFrameExcept(tch, fr)
				}
				c.RetN = fake.NextSeq()
				if err != nil {
					rep.Violation("what=loss:"+op+" ep=custom", "a valid write was refused: "+err.Error(), nil)
				}
				// a To write naming the foreign / closed channel reaches nobody: release the reservation made above (none: recv=false)
				s.record(c)
				if i == per/2 && g == 0 && victim >= 0 {
					s.trs[victim].FeedError(errSession)
				}
				if gr.Chance(1, 20) {
					time.Sleep(time.Duration(gr.Intn(200)) * time.Microsecond)
				}
			}
		}(g)
	}
	wg.Wait()
	atomic.StoreInt32(&stopIn, 1)
	inWG.Wait()

	// expected deliveries on the stable channels
	s.mu.Lock()
	calls := append([]c11call(nil), s.calls...)
	s.mu.Unlock()
	type key struct {
		uid uint64
		tr  int
	}
	must := map[key]*c11call{}
	mustNot := map[key]*c11call{}
	for ci := range calls {
		c := &calls[ci]
		isTo := c.Op == "MsgTo" || c.Op == "FrameTo"
		isExcept := c.Op == "MsgExcept" || c.Op == "FrameExcept"
		for ti := 0; ti < k; ti++ {
			kk := key{c.UID, ti}
			var recv bool
			switch {
			case isTo:
				recv = c.Target == ti
			case isExcept:
				recv = c.Target != ti
			default:
				recv = true
			}
			if !recv {
				// the victim's transport carries two channel objects over time (the custom endpoint re-opens on the
				// same transport): an exclusion naming the old object does not bind the new one
				if !(ti == victim && isExcept && c.Target == ti) {
					mustNot[kk] = c
				}
			} else if ti != victim {
				must[kk] = c
			}
		}
	}
	// quiescence: everything expected has been seen, or no progress
	seen := func() int64 {
		var n int64
		for _, tr := range s.trs {
			n += int64(tr.NWrites())
		}
		return n
	}
	expectedOn := make([]int, k)
	for kk := range must {
		expectedOn[kk.tr]++
	}
	waitFor(func() bool {
		for ti := range s.trs {
			if ti != victim && int(atomic.LoadInt32(&itemsSeen[ti])) < expectedOn[ti] {
				return false
			}
		}
		return true
	}, seen, 1500*time.Millisecond)
	backlog := 0
	for _, ch := range s.chans {
		backlog += ch.VerifBacklog()
	}
	if !safeClose(rep, s.node) {
		return
	}
	if !safeClose(rep, fnode) {
		return
	}
	<-s.cons.done

	// offline check of every capture
	order := map[uint64]int{}
	for ci := range calls {
		order[calls[ci].UID] = ci
	}
	if len(ftr.Writes()) != 0 {
		rep.Violation("what=leak:foreign ep=custom", "a write reached a channel of another node", nil)
	}
	for ti, tr := range s.trs {
		frames, _, _, torn := parseCapture(tr.Writes())
		if torn != "" {
			rep.Violation("what=torn ep=custom", torn, nil)
			continue
		}
		count := map[uint64]int{}
		lastOfG := map[int]int{}
		for fi, f := range frames {
			if withSR && f.MsgID == 66 {
				rep.Count("stream_requests_on_wire", 1)
				continue
			}
			uid, ok := uidOfWire(f)
			if !ok || uid>>56 != 0xC1 {
				rep.Violation("what=leak:unknown ep=custom", "a frame nobody wrote appeared on the wire", fmt.Sprintf("%+v", f))
				continue
			}
			rep.Count("wire_frames", 1)
			count[uid]++
			if count[uid] > 1 {
				rep.Violation("what=duplicate ep=custom", "an item appeared twice on one channel", map[string]interface{}{"uid": fmt.Sprintf("%x", uid), "channel": ti})
				continue
			}
			ci, known := order[uid]
			if !known {
				rep.Violation("what=leak:unknown ep=custom", "a frame with an unknown id appeared on the wire", nil)
				continue
			}
			c := &calls[ci]
			if mc, bad := mustNot[key{uid, ti}]; bad {
				rep.Violation("what=leak:"+mc.Op+" ep=custom", fmt.Sprintf("an item written with %s (target %d) appeared on channel %d", mc.Op, mc.Target, ti),
					map[string]interface{}{"uid": fmt.Sprintf("%x", uid)})
			}
			// FIFO per (goroutine, channel)
			i := int(uid & 0xFFFFFFFF)
			if prev, ok := lastOfG[c.G]; ok && i <= prev {
				rep.Violation("what=reorder ep=custom", "items of one goroutine appear out of submission order on a channel",
					map[string]interface{}{"goroutine": c.G, "channel": ti, "item": i, "after_item": prev, "op": c.Op, "wire_index": fi})
			}
			lastOfG[c.G] = i
			// payload form: a frame travels in its own version (v1: exactly the base size, extensions omitted;
			// v2: zero-truncated full payload), whatever the node's own version is
			{
				lay, val := uidLayout, interface{}(&MessageVfUid{Uid: uid, Kind: 2, Pad: [3]uint8{9, 9, 9}})
				if f.MsgID == 200 {
					lay, val = lowLayout, interface{}(&MessageVfLow{Uid: uid, Kind: byte(uid & 1 * 2), Ext: 5})
				}
				want := lay.Encode(reflect.ValueOf(val), f.Version == 2)
				if string(want) != string(f.Payload) {
					rep.Violation("what=header ep=custom", fmt.Sprintf("payload on the wire is not the encoding of the written message in the frame's own version (v%d, op %s)", f.Version, c.Op),
						map[string]interface{}{"got": vh.Hex(f.Payload), "want": vh.Hex(want), "node_v1": v1node})
				}
			}
			// headers: forwarded frames keep their own, originated messages get the link's
			if c.Frame {
				if c.Signed && (!f.Signed || f.LinkID != 0x5C || f.Timestamp != 0x0000123456789A || f.Signature[0] != 0xA1 || f.Signature[4] != 0xA5) {
					rep.Violation("what=header ep=custom", "a signed frame forwarded by a node without a key did not keep its flags / signature block",
						map[string]interface{}{"signed_on_wire": f.Signed, "incompat": f.Incompat, "link": f.LinkID, "timestamp": f.Timestamp})
				}
				if f.Seq != c.Seq || f.Sys != c.Sys || f.Comp != c.Comp || (f.Version == 1) != c.V1 || f.Compat != c.Compat || f.Signed != c.Signed {
					rep.Violation("what=header ep=custom", "a forwarded frame did not keep its own header fields / version",
						map[string]interface{}{"got": []int{int(f.Seq), int(f.Sys), int(f.Comp), f.Version}, "want": []int{int(c.Seq), int(c.Sys), int(c.Comp)}})
				}
			} else if f.Sys != 42 || f.Comp != 7 {
				rep.Violation("what=header ep=custom", "an originated message does not carry the link's system / component id", nil)
			}
		}
		if ti == victim {
			continue
		}
		for kk, c := range must {
			if kk.tr == ti && count[kk.uid] == 0 {
				rep.Violation("what=loss:"+c.Op+" ep=custom",
					fmt.Sprintf("an item written with %s never reached channel %d although the channel was open for the whole call and its backlog stayed below 64", c.Op, ti),
					map[string]interface{}{"uid": fmt.Sprintf("%x", kk.uid), "backlog_at_quiescence": backlog, "writers": G, "window": W, "channels": k,
						"scenario": idx, "v1_node": v1node, "stream_requests": withSR, "closing_channel": victim, "wire_frames_on_channel": len(frames), "expected_on_channel": expectedOn[ti]})
				break
			}
		}
	}
	rep.Eval(len(calls))
	rep.Count("write_calls", len(calls))
	rep.Count("scenarios", 1)
	if victim >= 0 {
		rep.Count("scenarios_with_closing_channel", 1)
	}
	rep.Distinct("sig", hookSignature())
	for p, n := range hookHits() {
		rep.Count("hook:"+p, n)
	}
	if idx == 0 && len(calls) > 3 {
		rep.Sample(map[string]interface{}{"channels": k, "writers": G, "window": W, "v1_node": v1node, "closing_channel": victim,
			"first_calls": []string{fmt.Sprintf("%+v", calls[0]), fmt.Sprintf("%+v", calls[1]), fmt.Sprintf("%+v", calls[2])}})
	}
}

// c11flowStuckN counts flow-control waits that were given up (items lost): later scenarios give up sooner.
var c11flowStuckN int32

func TestC11(t *testing.T) {
	rep := vh.NewReport("C11")
	defer rep.Finish(t)
	rep.Rule("scenarios with 1..8 custom channels (and, every fourth scenario, 2..5 real TCP connections to a server endpoint whose peers parse what they receive), 2..6 writer goroutines issuing a random mix of WriteMessageAll/To/Except and WriteFrameAll/To/Except (v1 and v2 frames, decoded and raw), " +
		"writes naming a foreign channel and a closed channel object, concurrent incoming traffic, one channel closing and re-opening in a third of the scenarios, v1 nodes in a quarter; " +
		"flow control keeps every goroutine's outstanding items per channel <= W with writers x W <= 48 < 64 so that any missing item is a loss; hook perturbation at api.write, loop.*, ch.enqueue, ch.writer.dequeue. " +
		"Offline checker over unique ids: whole frames only, at most once, isolation (To / Except / closed / foreign), delivery to channels open for the whole call, FIFO per (goroutine, channel), header fields. " +
		"Fan-out over TCP client, UDP client, UDP broadcast and serial endpoints with real sockets / a fake port (datagram links: one whole frame per datagram, order, uniqueness, isolation). A separate scenario makes one transport write fail once (plain error, deadline exceeded, EPIPE, short write) and demands exactly-once in-order delivery of everything written afterwards to the still open channel. " +
		"distinct = distinct interleaving signatures")
	rep.RuleAdd("Also: stale / nil targets, close order, partial drain after overflow, and a long-lived channel on which hundreds of items fail one by one (unencodable 255-byte raw items, ids above 255 on v1 links, single failing transport writes), each followed by a valid item. A steady flow on one healthy TCP link lasting five write timeouts.")
	rep.RuleAdd("Rounds 12-15: bounded flow control, hundreds of failed items on one channel, writes in answer to open events, stalls of four write timeouts, net.ErrClosed write errors, forwarded frames with compatibility flags, close order with a stall longer than the write timeout.")
	rep.RuleAdd("Rounds 16-17: refused items directly behind good ones on TCP; nodes with 300-380 channels; signed frames forwarded by nodes without a key.")
	rep.Assume("channels that open or close during a call may or may not receive it; linearizability across goroutines is not demanded (only per-goroutine order is promised)")
	seed := shardSeed()
	n := vh.Pick(120, 600)
	for i := 0; i < n; i++ {
		c11scenario(rep, seed, i)
		if i%4 == 3 {
			c11tcp(rep, seed, i)
		}
		if i%10 == 9 {
			c11transient(rep, seed, i/10)
		}
		if i%10 == 4 {
			c11stale(rep, seed, i/10)
		}
		if i%10 == 7 {
			c11closeOrder(rep, seed, i/10)
		}
		if i%10 == 1 {
			c11partialDrain(rep, seed, i/10)
		}
		if i%40 == 22 {
			c11manyFailures(rep, seed, i/40)
		}
		if i%40 == 13 {
			c11manyChannels(rep, seed, i/40)
		}
		if i%40 == 33 {
			c11steady(rep, seed, i/40)
		}
		if i%20 == 16 {
			c11writeOnOpen(rep, seed, i/20)
		}
		if i%20 == 6 {
			c11longStall(rep, seed, i/20)
		}
		if i%20 == 19 {
			c11clients(rep, seed, i/20)
		}
		if rep.NViolations() > 4 || rep.NViolationEvents() > 40 {
			break
		}
	}
	gomavlib.VerifSetHook(nil)
	rep.Floor("wire_frames", 5000)
	rep.Floor("hook:ch.enqueue", 5000)
	rep.Floor("scenarios_with_closing_channel", 3)
	rep.Floor("scenarios_tcp", 3)
	rep.Floor("scenarios_clients", 2)
}

// c11transient: one write on one channel fails once (the kinds of error a transport reports when it is briefly unable to
// take output); the channel stays open and is healthy again: unless it is reported closed, everything written afterwards
// with All / To / Except reaches it exactly once and in order, like every other channel.
func c11transient(rep *vh.Report, seed uint64, idx int) {
	if aborted() {
		return
	}
	r := vh.Sub(seed, fmt.Sprintf("c11-transient-%d", idx))
	hookReset(r.U64(), true, false)
	k := 2 + r.Intn(3)
	n := c13start(rep, k, false, idx%2 == 1)
	if n == nil {
		return
	}
	n.cons.prop = "C11"
	const fam = 0xC7
	victim := r.Intn(k)
	all := make([]int, k)
	for i := range all {
		all[i] = i
	}
	n.writeFlow(rep, r, fam, 0, 5+r.Intn(20), all, -1, false)
	werrs := []error{errWrite, os.ErrDeadlineExceeded, syscall.EPIPE, io.ErrShortWrite, &net.OpError{Op: "write", Net: "tcp", Err: os.ErrDeadlineExceeded},
		&net.OpError{Op: "write", Net: "udp", Err: os.NewSyscallError("sendto", syscall.ECONNREFUSED)}, &net.OpError{Op: "write", Net: "udp", Err: syscall.ENOBUFS},
		// a transport that re-dials underneath: one write meets the old, closed connection
		net.ErrClosed, &net.OpError{Op: "write", Net: "tcp", Err: net.ErrClosed}, fmt.Errorf("redial in progress: %w", net.ErrClosed), io.ErrClosedPipe, io.EOF}
	werr := werrs[idx%len(werrs)]
	n.trs[victim].FailWriteAt(n.trs[victim].WriteCalls()+1, werr, false)
	_ = n.node.WriteMessageAll(&MessageVfUid{Uid: uint64(fam)<<56 | 999}) // the item that meets the failure
	waitFor(func() bool {
		return n.trs[victim].NWrites() > 0 && n.trs[victim].WriteAt(n.trs[victim].NWrites()-1).Failed
	}, func() int64 { return int64(n.trs[victim].WriteCalls()) }, 500*time.Millisecond)
	// later items, one at a time so that no backlog builds up: All, To(victim), Except(another)
	type exp struct {
		uid uint64
		on  []bool
	}
	var exps []exp
	other := (victim + 1) % k
	for i := 0; i < 30; i++ {
		uid := uint64(fam)<<56 | uint64(1000+i)
		m := &MessageVfUid{Uid: uid, Kind: 1}
		on := make([]bool, k)
		switch i % 3 {
		case 0:
			_ = n.node.WriteMessageAll(m)
			for j := range on {
				on[j] = true
			}
		case 1:
			_ = n.node.WriteMessageTo(n.chans[victim], m)
			on[victim] = true
		case 2:
			_ = n.node.WriteMessageExcept(n.chans[other], m)
			for j := range on {
				on[j] = j != other
			}
		}
		exps = append(exps, exp{uid, on})
		time.Sleep(300 * time.Microsecond)
	}
	later := func(ti int) []uint64 {
		var out []uint64
		acc, _ := wireUIDs(n.trs[ti], fam)
		for _, u := range acc {
			if u&0xFFFFFFFF >= 1000 {
				out = append(out, u)
			}
		}
		return out
	}
	want := make([][]uint64, k)
	for _, e := range exps {
		for j := range e.on {
			if e.on[j] {
				want[j] = append(want[j], e.uid)
			}
		}
	}
	victimClosed := func() bool {
		for _, ci := range n.cons.allChannels() {
			if sn := n.cons.snapshot(ci); sn.Tr == n.trs[victim] && sn.State == 2 {
				return true
			}
		}
		return false
	}
	waitFor(func() bool {
		for j := 0; j < k; j++ {
			if len(later(j)) < len(want[j]) && !(j == victim && victimClosed()) {
				return false
			}
		}
		return true
	}, func() int64 {
		var p int64
		for _, tr := range n.trs {
			p += int64(tr.WriteCalls())
		}
		return p + n.cons.nEvents()
	}, 1200*time.Millisecond)
	for j := 0; j < k; j++ {
		got := later(j)
		if j == victim && victimClosed() {
			rep.Count("transient_failure_led_to_close_event", 1)
			continue
		}
		if fmt.Sprint(got) != fmt.Sprint(want[j]) {
			what := "what=lost ep=custom"
			if len(got) > len(want[j]) {
				what = "what=isolation ep=custom"
			}
			rep.Violation(what, fmt.Sprintf("after one failed transport write (%v) on channel %d, the open channel %d received %d of the %d items written to it afterwards (exactly those, in order, expected)", werr, victim, j, len(got), len(want[j])),
				map[string]interface{}{"victim": victim, "channel": j, "write_error": werr.Error(), "got": got, "want": want[j], "backlog": n.chans[j].VerifBacklog()})
		}
	}
	if !safeClose(rep, n.node) {
		return
	}
	<-n.cons.done
	rep.Eval(1)
	rep.Count("scenarios_transient_write_error", 1)
	rep.Distinct("transient", idx, k, victim)
}

// c11manyFailures: a long-lived channel on which many items fail one by one over its life (items that cannot be encoded for
// the link, large ones; transport writes that fail once) - never a backlog, every failure followed by a valid item. The
// valid items keep arriving, each exactly once and in order, however many failures the channel has seen.
func c11manyFailures(rep *vh.Report, seed uint64, idx int) {
	if aborted() {
		return
	}
	r := vh.Sub(seed, fmt.Sprintf("c11-manyfail-%d", idx))
	hookReset(r.U64(), false, false)
	v1 := idx%2 == 1
	n := c13start(rep, 2, v1, false)
	if n == nil {
		return
	}
	n.cons.prop = "C11"
	const fam = 0xC9
	rounds := vh.Pick(260, 1500)
	big := make([]byte, 255)
	for i := range big {
		big[i] = byte(1 + i%250)
	}
	var want []uint64
	lostAt := -1
	for i := 0; i < rounds && lostAt < 0; i++ {
		switch i % 3 {
		case 0: // an already encoded message whose id is not in the dialect: the writer cannot compute its checksum
			_ = n.node.WriteMessageAll(&message.MessageRaw{ID: 99999, Payload: big})
		case 1: // on a v1 link an id above 255; on a v2 link the same raw item to one channel
			if v1 {
				_ = n.node.WriteMessageAll(&MessageVfUid{Uid: 1, Kind: 1})
			} else {
				_ = n.node.WriteMessageTo(n.chans[0], &message.MessageRaw{ID: 99998, Payload: big})
			}
		case 2: // one failing transport write (255-byte item)
			n.trs[0].FailWriteAt(n.trs[0].WriteCalls()+1, errWrite, false)
			if v1 {
				_ = n.node.WriteMessageTo(n.chans[0], &MessageVfLow{Uid: uint64(fam)<<56 | 1<<40 | uint64(i), Kind: 1})
			} else {
				_ = n.node.WriteMessageTo(n.chans[0], &message.MessageRaw{ID: 5000, Payload: big})
			}
		}
		uid := uint64(fam)<<56 | uint64(i+1)
		var m message.Message = &MessageVfUid{Uid: uid, Kind: 1}
		if v1 {
			m = &MessageVfLow{Uid: uid, Kind: 1}
		}
		_ = n.node.WriteMessageAll(m)
		want = append(want, uid)
		ok := waitFor(func() bool {
			for _, tr := range n.trs {
				found := false
				nw := tr.NWrites()
				for j := nw - 1; j >= 0 && j >= nw-8 && !found; j-- {
					w := tr.WriteAt(j)
					if f, _, st := ref.ParseAt(w.Data, 0); st == ref.ParseOK && !w.Failed {
						if u, ok := uidOfWire(f); ok && u == uid {
							found = true
						}
					}
				}
				if !found {
					return false
				}
			}
			return true
		}, func() int64 { return int64(n.trs[0].WriteCalls() + n.trs[1].WriteCalls()) }, 400*time.Millisecond)
		if !ok {
			lostAt = i
		}
	}
	closed := false
	for _, ci := range n.cons.allChannels() {
		if n.cons.snapshot(ci).State == 2 {
			closed = true
		}
	}
	rep.Eval(1)
	rep.Count("scenarios_many_failures", 1)
	if lostAt >= 0 && !closed {
		rep.Violation("what=lost ep=custom", fmt.Sprintf("after %d failed items on a long-lived open channel with an empty backlog, a valid item written with WriteMessageAll never came out", lostAt+1),
			map[string]interface{}{"round": lostAt, "v1_link": v1, "backlog_0": n.chans[0].VerifBacklog(), "backlog_1": n.chans[1].VerifBacklog()})
	} else if !closed {
		for ti, tr := range n.trs {
			acc, _ := wireUIDs(tr, fam)
			var got []uint64
			for _, u := range acc {
				if u>>40&0xFFFF == 0 {
					got = append(got, u)
				}
			}
			if !eqU64(got, want) {
				rep.Violation("what="+classifySeq(got, want)+" ep=custom", fmt.Sprintf("channel %d of a node whose items failed one by one %d times: %d valid items came out for %d written", ti, rounds, len(got), len(want)), nil)
			}
		}
	}
	if !safeClose(rep, n.node) {
		return
	}
	<-n.cons.done
	rep.Distinct("manyfail", idx)
}

// c11writeOnOpen: the application answers every open event with an addressed write to the channel that has just been
// reported open (a greeting, a parameter request). The channel is open, healthy and its queue is empty: the item comes
// out. The goroutine that announces a new channel to the node is slowed down at its hook point (2 ms), so that "reported
// open" and "known to the node" are far apart if the library ever lets them come in the wrong order.
func c11writeOnOpen(rep *vh.Report, seed uint64, idx int) {
	if aborted() {
		return
	}
	r := vh.Sub(seed, fmt.Sprintf("c11-onopen-%d", idx))
	if atomic.LoadInt32(&hookOff) == 0 {
		gomavlib.VerifSetHook(func(point string, _ *gomavlib.Channel) {
			if point == "node.newChannel" {
				time.Sleep(2 * time.Millisecond)
			}
		})
		defer gomavlib.VerifSetHook(nil)
	}
	k := 2 + r.Intn(3)
	var trs []*fake.Transport
	var eps []gomavlib.EndpointConf
	for i := 0; i < k; i++ {
		tr := fake.NewTransport(fmt.Sprintf("oo%d", i))
		trs = append(trs, tr)
		eps = append(eps, gomavlib.EndpointCustom{ReadWriteCloser: tr})
	}
	prev := gomavlib.VerifSetReconnectPeriod(5 * time.Millisecond)
	defer gomavlib.VerifSetReconnectPeriod(prev)
	node := &gomavlib.Node{Endpoints: eps, Dialect: testDialect, OutVersion: gomavlib.V2, OutSystemID: 44, HeartbeatDisable: true}
	if err := node.Initialize(); err != nil {
		rep.HarnessError(err.Error())
		return
	}
	const fam = 0xCF
	cons := newConsumer(rep, "C11", "custom", node)
	var mu sync.Mutex
	greeted := map[*fake.Transport][]uint64{}
	var nOpen uint64
	cons.onEvent = func(e *evRec, ci *chanInfo) {
		if e.Type != "open" {
			return
		}
		mu.Lock()
		nOpen++
		uid := uint64(fam)<<56 | nOpen
		greeted[ci.Tr] = append(greeted[ci.Tr], uid)
		mu.Unlock()
		_ = node.WriteMessageTo(e.Ch, &MessageVfUid{Uid: uid, Kind: 1})
	}
	cons.start()
	cons.waitOpen(k, 2*time.Second)
	// every link fails and comes back a few times: each generation is a new channel with a new open event
	gens := 3 + r.Intn(3)
	for g := 0; g < gens; g++ {
		for _, tr := range trs {
			tr.FeedError(errSession)
		}
		want := int64((g + 2) * k)
		waitFor(func() bool { mu.Lock(); defer mu.Unlock(); return int64(nOpen) >= want }, cons.nEvents, 500*time.Millisecond)
	}
	waitFor(func() bool {
		for _, tr := range trs {
			acc, _ := wireUIDs(tr, fam)
			mu.Lock()
			n := len(greeted[tr])
			mu.Unlock()
			if len(acc) < n {
				return false
			}
		}
		return true
	}, func() int64 {
		var p int64
		for _, tr := range trs {
			p += int64(tr.WriteCalls())
		}
		return p + cons.nEvents()
	}, 400*time.Millisecond)
	if !safeClose(rep, node) {
		return
	}
	<-cons.done
	rep.Eval(1)
	rep.Count("scenarios_write_on_open", 1)
	rep.Distinct("onopen", idx, k, gens)
	mu.Lock()
	defer mu.Unlock()
	for ti, tr := range trs {
		acc, _ := wireUIDs(tr, fam)
		got := map[uint64]bool{}
		for _, u := range acc {
			got[u] = true
		}
		// the greeting of a generation that ended before the item was written is not owed (the link failed again); every
		// generation but the last was ended by us only after its open event had been counted, so only judge those whose link
		// was still up: the LAST greeting of each link, and all greetings when none is missing
		gl := greeted[tr]
		rep.Count("greetings_written_on_open_events", len(gl))
		if len(gl) > 0 && !got[gl[len(gl)-1]] {
			rep.Violation("what=lost ep=custom", fmt.Sprintf("the item written to a channel in answer to its open event never came out (link %d, channel generation %d of %d; the link stayed up afterwards)", ti, len(gl), len(gl)),
				map[string]interface{}{"greetings": len(gl), "delivered": len(acc)})
		}
	}
}

// c11longStall: a link without write deadlines of its own (custom transport; WriteTimeout 80 ms configured on the node) stops
// taking output for four write timeouts while 20 items - far fewer than the queue holds - are written to it, then moves
// again. Nothing was dropped "while the backlog stayed below the bound": all 20 come out, in order.
func c11longStall(rep *vh.Report, seed uint64, idx int) {
	if aborted() {
		return
	}
	r := vh.Sub(seed, fmt.Sprintf("c11-longstall-%d", idx))
	hookReset(r.U64(), false, false)
	c13WriteTimeout = 80 * time.Millisecond
	defer func() { c13WriteTimeout = 0 }()
	k := 1 + r.Intn(3)
	n := c13start(rep, k, false, false)
	if n == nil {
		return
	}
	n.cons.prop = "C11"
	const fam = 0xD1
	v := r.Intn(k)
	tr := n.trs[v]
	tr.BlockWrites()
	var want []uint64
	nItems := 20 + r.Intn(20)
	for i := 0; i < nItems; i++ {
		uid := uint64(fam)<<56 | uint64(i+1)
		want = append(want, uid)
		if i%2 == 0 {
			_ = n.node.WriteMessageTo(n.chans[v], &MessageVfUid{Uid: uid, Kind: 1})
		} else {
			_ = n.node.WriteFrameAll(&frame.V2Frame{SequenceNumber: byte(i), SystemID: 3, ComponentID: 4, Message: &MessageVfUid{Uid: uid, Kind: 1}})
		}
		time.Sleep(time.Duration(r.Intn(3)) * time.Millisecond)
	}
	backlog := n.chans[v].VerifBacklog()
	time.Sleep(4 * c13WriteTimeout)
	tr.UnblockWrites()
	waitFor(func() bool { acc, _ := wireUIDs(tr, fam); return len(acc) >= len(want) }, func() int64 { return int64(tr.WriteCalls()) }, 500*time.Millisecond)
	got, _ := wireUIDs(tr, fam)
	closed := false
	for _, ci := range n.cons.allChannels() {
		if sn := n.cons.snapshot(ci); sn.Tr == tr && sn.State == 2 {
			closed = true
		}
	}
	rep.Eval(1)
	rep.Count("scenarios_long_stall_below_bound", 1)
	rep.Distinct("longstall", idx, k, v, nItems)
	if !closed && !eqU64(got, want) {
		rep.Violation("what="+classifySeq(got, want)+" ep=custom", fmt.Sprintf("%d items were written to a channel whose link took no output for four write timeouts (backlog %d, bound 64) and then moved again: %d came out", len(want), backlog, len(got)),
			map[string]interface{}{"write_timeout_ms": 80, "stall_ms": 320, "first_got": head(got), "first_want": head(want)})
	}
	if !safeClose(rep, n.node) {
		return
	}
	<-n.cons.done
}

// c11steady: a steady flow on one TCP link (an item every few ms, never a pause of a tenth of the write timeout) that lasts
// several write timeouts (WriteTimeout 150 ms): the peer reads everything at once, the channel is healthy throughout, so
// every item arrives, in order.
func c11steady(rep *vh.Report, seed uint64, idx int) {
	if aborted() {
		return
	}
	r := vh.Sub(seed, fmt.Sprintf("c11-steady-%d", idx))
	hookReset(r.U64(), false, false)
	WT := 150 * time.Millisecond
	asClient := idx%2 == 1
	var node *gomavlib.Node
	var conn net.Conn
	if asClient {
		ln, err := net.Listen("tcp4", "127.0.0.1:0")
		if err != nil {
			return
		}
		defer ln.Close()
		node = &gomavlib.Node{Endpoints: []gomavlib.EndpointConf{gomavlib.EndpointTCPClient{Address: ln.Addr().String()}}, Dialect: testDialect, OutVersion: gomavlib.V2, OutSystemID: 43,
			HeartbeatDisable: true, WriteTimeout: WT, IdleTimeout: 10 * time.Second}
		if err := node.Initialize(); err != nil {
			rep.Inconclusive("C11 steady: " + err.Error())
			return
		}
		c, err := ln.Accept()
		if err != nil {
			safeClose(rep, node)
			return
		}
		conn = c
	} else {
		port := freeTCPPort()
		node = &gomavlib.Node{Endpoints: []gomavlib.EndpointConf{gomavlib.EndpointTCPServer{Address: fmt.Sprintf("127.0.0.1:%d", port)}}, Dialect: testDialect, OutVersion: gomavlib.V2, OutSystemID: 43,
			HeartbeatDisable: true, WriteTimeout: WT, IdleTimeout: 10 * time.Second}
		if err := node.Initialize(); err != nil {
			rep.Inconclusive("C11 steady: " + err.Error())
			return
		}
		c, err := net.Dial("tcp4", fmt.Sprintf("127.0.0.1:%d", port))
		if err != nil {
			safeClose(rep, node)
			return
		}
		conn = c
		_, _ = conn.Write(uidFrame(1, 0, 9, false, nil, 0))
	}
	defer conn.Close()
	cons := newConsumer(rep, "C11", "tcp", node)
	cons.start()
	if !cons.waitOpen(1, 3*time.Second) {
		rep.Inconclusive("C11 steady: the channel did not open")
		safeClose(rep, node)
		return
	}
	var mu sync.Mutex
	var got []uint64
	rdone := make(chan struct{})
	go func() {
		defer close(rdone)
		var buf []byte
		tmp := make([]byte, 4096)
		for {
			n, err := conn.Read(tmp)
			buf = append(buf, tmp[:n]...)
			for len(buf) > 0 {
				f, ln, st := ref.ParseAt(buf, 0)
				if st != ref.ParseOK {
					break
				}
				if uid, ok := uidOfWire(f); ok {
					mu.Lock()
					got = append(got, uid)
					mu.Unlock()
				}
				buf = buf[ln:]
			}
			if err != nil {
				return
			}
		}
	}()
	const fam = 0xCE
	var want []uint64
	start := time.Now()
	var maxGap time.Duration
	last := start
	for i := 0; time.Since(start) < 5*WT; i++ {
		uid := uint64(fam)<<56 | uint64(i+1)
		want = append(want, uid)
		_ = node.WriteMessageAll(&MessageVfUid{Uid: uid, Kind: 1})
		time.Sleep(WT / 50)
		now := time.Now()
		if g := now.Sub(last); g > maxGap {
			maxGap = g
		}
		last = now
	}
	nGot := func() int64 { mu.Lock(); defer mu.Unlock(); return int64(len(got)) }
	waitFor(func() bool { return nGot() >= int64(len(want)) }, nGot, 600*time.Millisecond)
	closed := false
	for _, ci := range cons.allChannels() {
		if cons.snapshot(ci).State == 2 {
			closed = true
		}
	}
	mu.Lock()
	g := append([]uint64(nil), got...)
	mu.Unlock()
	rep.Eval(1)
	rep.Count("scenarios_steady_flow", 1)
	rep.Distinct("steady", idx)
	if !closed && !eqU64(g, want) {
		rep.Violation("what="+classifySeq(g, want)+" ep=tcp", fmt.Sprintf("a steady flow of %d items over %v on one healthy TCP link (write timeout %v, largest pause between writes %v, peer reading at once): %d arrived", len(want), 5*WT, WT, maxGap, len(g)),
			map[string]interface{}{"as_client": asClient, "first_got": head(g), "first_want": head(want)})
	}
	if !safeClose(rep, node) {
		return
	}
	<-cons.done
	conn.Close()
	<-rdone
}

// c11stale: a one-channel-at-a-time endpoint whose channel closed and re-opened. The old channel object is a closed
// channel: a write naming it is ignored, an exclusion naming it excludes nobody - the endpoint's new channel is an open
// channel like any other.
func c11stale(rep *vh.Report, seed uint64, idx int) {
	if aborted() {
		return
	}
	r := vh.Sub(seed, fmt.Sprintf("c11-stale-%d", idx))
	hookReset(r.U64(), true, false)
	k := 2 + r.Intn(3)
	n := c13start(rep, k, false, false)
	if n == nil {
		return
	}
	n.cons.prop = "C11"
	const fam = 0xCA
	a := r.Intn(k)
	oldA := n.chans[a]
	// the link's session ends; the endpoint provides a new channel on the same transport
	n.trs[a].FeedError(errSession)
	var newA *gomavlib.Channel
	waitFor(func() bool {
		for _, ci := range n.cons.openChannels() {
			if ci.Tr == n.trs[a] && ci.Ch != oldA {
				newA = ci.Ch
				return true
			}
		}
		return false
	}, n.cons.nEvents, time.Second)
	if newA == nil {
		rep.Inconclusive("C11 stale: the custom endpoint did not re-open its channel")
		safeClose(rep, n.node)
		return
	}
	base := make([]int, k)
	for i, tr := range n.trs {
		base[i] = tr.NWrites()
	}
	var wantAll, wantNone []uint64
	for i := 0; i < 18; i++ {
		uid := uint64(fam)<<56 | uint64(i+1)
		m := &MessageVfUid{Uid: uid, Kind: 1}
		switch i % 6 {
		case 4: // no channel at all (a variable that was never filled in): nobody is addressed
			_ = n.node.WriteMessageTo(nil, m)
			wantNone = append(wantNone, uid)
		case 5:
			_ = n.node.WriteFrameTo(nil, &frame.V2Frame{SystemID: 3, ComponentID: 4, SequenceNumber: byte(i), Message: m})
			wantNone = append(wantNone, uid)
		case 0:
			_ = n.node.WriteMessageExcept(oldA, m)
			wantAll = append(wantAll, uid)
		case 1:
			_ = n.node.WriteFrameExcept(oldA, &frame.V2Frame{SystemID: 3, ComponentID: 4, SequenceNumber: byte(i), Message: m})
			wantAll = append(wantAll, uid)
		case 2:
			_ = n.node.WriteMessageTo(oldA, m)
			wantNone = append(wantNone, uid)
		case 3:
			_ = n.node.WriteFrameTo(oldA, &frame.V2Frame{SystemID: 3, ComponentID: 4, SequenceNumber: byte(i), Message: m})
			wantNone = append(wantNone, uid)
		}
		time.Sleep(300 * time.Microsecond)
	}
	// a closing marker to everybody: once it is out on every link, all of the above has been processed
	_ = n.node.WriteMessageAll(&MessageVfUid{Uid: uint64(fam)<<56 | 999})
	for _, tr := range n.trs {
		tr := tr
		waitFor(func() bool {
			acc, _ := wireUIDs(tr, fam)
			return len(acc) > 0 && acc[len(acc)-1]&0xFFFF == 999
		}, func() int64 { return int64(tr.NWrites()) }, 800*time.Millisecond)
	}
	for i, tr := range n.trs {
		acc, _ := wireUIDs(tr, fam)
		got := []uint64{}
		for _, u := range acc {
			if u&0xFFFF != 999 {
				got = append(got, u)
			}
		}
		rep.Eval(1)
		wit := map[string]interface{}{"channel": i, "reopened_link": a, "got": got, "want": wantAll, "addressed_to_the_closed_channel": wantNone}
		if fmt.Sprint(got) != fmt.Sprint(wantAll) {
			what := "what=lost ep=custom"
			for _, u := range got {
				for _, x := range wantNone {
					if u == x {
						what = "what=isolation ep=custom"
					}
				}
			}
			rep.Violation(what, fmt.Sprintf("with the closed channel object of a re-opened link named in Except / To calls, open channel %d received %d items (the %d Except items expected, none of the To items)", i, len(got), len(wantAll)), wit)
		}
	}
	if !safeClose(rep, n.node) {
		return
	}
	<-n.cons.done
	rep.Count("scenarios_stale_handle", 1)
	rep.Distinct("stale", idx, k, a)
}

// c11closeOrder: the writer of a channel sits inside a transport Write (the link has stopped taking output) when the
// read side of the link fails. Whatever that channel still writes must be on the wire before the channel is reported
// closed: after the close event the transport belongs to the endpoint's next channel, and a late write of the old one
// would land between (or inside) the frames of the new one.
func c11closeOrder(rep *vh.Report, seed uint64, idx int) {
	if aborted() {
		return
	}
	r := vh.Sub(seed, fmt.Sprintf("c11-closeorder-%d", idx))
	hookReset(r.U64(), true, false)
	k := 1 + r.Intn(3)
	extraHold := time.Duration(0)
	if idx%2 == 1 {
		// the node's write timeout is short and the link takes no output for several times as long (custom transports know
		// no deadlines: the write lasts as long as the transport makes it last)
		c13WriteTimeout = 20 * time.Millisecond
		extraHold = 90 * time.Millisecond
		defer func() { c13WriteTimeout = 0 }()
		rep.Count("close_order_runs_with_stall_longer_than_write_timeout", 1)
	}
	n := c13start(rep, k, false, false)
	if n == nil {
		return
	}
	n.cons.prop = "C11"
	const fam = 0xCB
	a := r.Intn(k)
	old := n.chans[a]
	var closeN int64
	n.cons.mu.Lock()
	n.cons.onEvent = func(e *evRec, ci *chanInfo) {
		if e.Type == "close" && e.Ch == old {
			atomic.StoreInt64(&closeN, e.N)
		}
	}
	n.cons.mu.Unlock()
	n.trs[a].BlockWrites()
	for i := 0; i < 3; i++ {
		_ = n.node.WriteMessageTo(old, &MessageVfUid{Uid: uint64(fam)<<56 | uint64(i+1)})
	}
	waitFor(func() bool { return n.trs[a].Blocked() > 0 }, func() int64 { return int64(n.trs[a].WriteCalls()) }, 300*time.Millisecond)
	inWrite := n.trs[a].Blocked() > 0
	n.trs[a].FeedError(errSession)
	time.Sleep(time.Duration(5+r.Intn(30))*time.Millisecond + extraHold)
	// the next channel of the endpoint, if it is there already, writes something of its own
	for _, ci := range n.cons.openChannels() {
		if ci.Tr == n.trs[a] && ci.Ch != old {
			_ = n.node.WriteMessageTo(ci.Ch, &MessageVfUid{Uid: uint64(fam+1)<<56 | 1})
		}
	}
	n.trs[a].UnblockWrites()
	waitFor(func() bool { return atomic.LoadInt64(&closeN) != 0 }, n.cons.nEvents, time.Second)
	waitFor(func() bool { return false }, func() int64 { return int64(n.trs[a].NWrites()) }, 150*time.Millisecond)
	cn := atomic.LoadInt64(&closeN)
	rep.Eval(1)
	if inWrite {
		rep.Count("close_order_runs_with_writer_inside_write", 1)
	}
	if cn == 0 {
		rep.Violation("what=no-close ep=custom", "a channel whose read side failed while its writer was inside Write was never reported closed after the write returned", nil)
	}
	for _, w := range n.trs[a].Writes() {
		f, _, st := ref.ParseAt(w.Data, 0)
		if st != ref.ParseOK {
			continue
		}
		if uid, ok := uidOfWire(f); ok && uid>>56 == fam && cn != 0 && w.Seq > cn {
			rep.Violation("what=write-after-close ep=custom", fmt.Sprintf("item %d addressed to a channel went to the transport after that channel's close event had been delivered (the endpoint's next channel owns the transport by then)", uid&0xFF),
				map[string]interface{}{"write_seq": w.Seq, "close_event_seq": cn, "writer_was_inside_write": inWrite})
			break
		}
	}
	if !safeClose(rep, n.node) {
		return
	}
	<-n.cons.done
	rep.Count("scenarios_close_order", 1)
	rep.Distinct("closeorder", idx, k, a)
}

// c11partialDrain: a link that stalls until its queue has overflowed (items beyond the bound are rightly discarded), takes a
// few items, and stalls again: the backlog is below the bound now, so what is written at this moment is not dropped.
func c11partialDrain(rep *vh.Report, seed uint64, idx int) {
	if aborted() {
		return
	}
	r := vh.Sub(seed, fmt.Sprintf("c11-partial-%d", idx))
	hookReset(r.U64(), false, false)
	k := 1 + r.Intn(3)
	n := c13start(rep, k, false, false)
	if n == nil {
		return
	}
	n.cons.prop = "C11"
	const fam = 0xCC
	v := r.Intn(k)
	tr := n.trs[v]
	tr.BlockWrites()
	for i := 0; i < 70+r.Intn(30); i++ { // overflow
		_ = n.node.WriteMessageTo(n.chans[v], &MessageVfUid{Uid: uint64(fam)<<56 | uint64(i+1)})
	}
	waitFor(func() bool { return n.chans[v].VerifBacklog() >= 64 }, func() int64 { return int64(n.chans[v].VerifBacklog()) }, 300*time.Millisecond)
	if n.chans[v].VerifBacklog() < 64 {
		rep.Inconclusive("C11 partial drain: the queue did not fill")
		safeClose(rep, n.node)
		return
	}
	// the link takes a few items and stalls again
	take := 12 + r.Intn(20)
	base := tr.NWrites()
	tr.BlockAgainAfter(take)
	waitFor(func() bool { return tr.NWrites() >= base+take-1 && tr.Blocked() > 0 }, func() int64 { return int64(tr.NWrites()) }, 500*time.Millisecond)
	backlog := n.chans[v].VerifBacklog()
	var want []uint64
	if backlog <= 58 {
		for i := 0; i < 5; i++ {
			uid := uint64(fam+1)<<56 | uint64(i+1)
			want = append(want, uid)
			if i%2 == 0 {
				_ = n.node.WriteMessageTo(n.chans[v], &MessageVfUid{Uid: uid})
			} else {
				_ = n.node.WriteMessageAll(&MessageVfUid{Uid: uid})
			}
			time.Sleep(300 * time.Microsecond)
		}
	}
	tr.UnblockWrites()
	waitFor(func() bool { acc, _ := wireUIDs(tr, fam+1); return len(acc) >= len(want) }, func() int64 { return int64(tr.NWrites()) }, 800*time.Millisecond)
	got, _ := wireUIDs(tr, fam+1)
	rep.Eval(1)
	if len(want) == 0 {
		rep.Inconclusive(fmt.Sprintf("C11 partial drain: backlog %d after the link took %d items, nothing written", backlog, take))
	} else if fmt.Sprint(got) != fmt.Sprint(want) {
		rep.Violation("what=lost ep=custom", fmt.Sprintf("items written while the backlog was %d (< 64) after an earlier overflow: %d of %d came out", backlog, len(got), len(want)),
			map[string]interface{}{"backlog_when_written": backlog, "taken_before": take, "got": got, "want": want})
	}
	if !safeClose(rep, n.node) {
		return
	}
	<-n.cons.done
	rep.Count("scenarios_partial_drain", 1)
	rep.Distinct("partial", idx, k, v, take)
}

// c11tcp: the same fan-out properties over real TCP connections (server endpoint, k loopback peers).
var c11tcpRefused int32

func c11tcp(rep *vh.Report, seed uint64, idx int) {
	if aborted() {
		return
	}
	r := vh.Sub(seed, fmt.Sprintf("c11-tcp-%d", idx))
	hookReset(r.U64(), true, true)
	k := 2 + r.Intn(4)
	G := 2 + r.Intn(3)
	W := 48 / G
	if W > 10 {
		W = 10
	}
	port := freeTCPPort()
	node := &gomavlib.Node{Endpoints: []gomavlib.EndpointConf{gomavlib.EndpointTCPServer{Address: fmt.Sprintf("127.0.0.1:%d", port)}},
		Dialect: testDialect, OutVersion: gomavlib.V2, OutSystemID: 42, OutComponentID: 7, HeartbeatDisable: true, IdleTimeout: 10 * time.Second}
	if err := node.Initialize(); err != nil {
		rep.Inconclusive("C11 tcp: " + err.Error())
		return
	}
	cons := newConsumer(rep, "C11", "tcp", node)
	cons.start()
	type peer struct {
		conn  net.Conn
		label string
		mu    sync.Mutex
		uids  []uint64
		bad   string
		seen  [8]int32 // per goroutine: items received
	}
	peers := make([]*peer, k)
	var rwg sync.WaitGroup
	for i := range peers {
		c, err := net.Dial("tcp4", fmt.Sprintf("127.0.0.1:%d", port))
		if err != nil {
			rep.Inconclusive("C11 tcp: dial: " + err.Error())
			if !safeClose(rep, node) {
				return
			}
			return
		}
		p := &peer{conn: c, label: "tcp:" + c.LocalAddr().String()}
		peers[i] = p
		_, _ = c.Write(uidFrame(uint64(i), 0, 9, false, nil, 0)) // make the node see us
		rwg.Add(1)
		go func() {
			defer rwg.Done()
			var buf []byte
			tmp := make([]byte, 4096)
			for {
				n, err := p.conn.Read(tmp)
				buf = append(buf, tmp[:n]...)
				for len(buf) > 0 {
					f, ln, st := ref.ParseAt(buf, 0)
					if st == ref.ParseIncomplete {
						break
					}
					if st != ref.ParseOK {
						p.mu.Lock()
						p.bad = "byte stream on the wire is not a sequence of whole frames"
						p.mu.Unlock()
						return
					}
					if crc, ok := crcExtraOf(f.MsgID); ok && f.Checksum != ref.ChecksumOfWire(buf[:ln], crc) {
						p.mu.Lock()
						p.bad = "frame with a wrong checksum on the wire"
						p.mu.Unlock()
					}
					if uid, ok := uidOfWire(f); ok && uid>>56 == 0xC1 {
						p.mu.Lock()
						p.uids = append(p.uids, uid)
						p.mu.Unlock()
						if g := int(uid >> 40 & 0xFFFF); g < 8 {
							atomic.AddInt32(&p.seen[g], 1)
						}
					}
					buf = buf[ln:]
				}
				if err != nil {
					return
				}
			}
		}()
	}
	if !cons.waitOpen(k, 3*time.Second) {
		rep.Inconclusive("C11 tcp: channels did not open")
		if !safeClose(rep, node) {
			return
		}
		return
	}
	chans := make([]*gomavlib.Channel, k)
	for _, ci := range cons.openChannels() {
		for i, p := range peers {
			if ci.Label == p.label {
				chans[i] = ci.Ch
			}
		}
	}
	for _, ch := range chans {
		if ch == nil {
			rep.HarnessError("C11 tcp: a peer could not be matched to a channel by its label")
			if !safeClose(rep, node) {
				return
			}
			return
		}
	}
	nOps := vh.Pick(300, 2000)
	sent := make([][]int32, G) // [g][peer] items that must reach that peer
	for g := range sent {
		sent[g] = make([]int32, k)
	}
	type call struct {
		g, target int
		op        string
		uid       uint64
	}
	var cmu sync.Mutex
	var calls []call
	var wg sync.WaitGroup
	for g := 0; g < G; g++ {
		wg.Add(1)
		gr := r.Fork()
		go func(g int) {
			defer wg.Done()
			for i := 0; i < nOps/G; i++ {
				uid := c11uid(g, i)
				op := []string{"MsgAll", "MsgTo", "MsgExcept", "FrameAll"}[gr.Intn(4)]
				target := gr.Intn(k)
				for ti := 0; ti < k; ti++ {
					recv := op == "MsgAll" || op == "FrameAll" || (op == "MsgTo" && ti == target) || (op == "MsgExcept" && ti != target)
					if !recv {
						continue
					}
					for spins := 0; sent[g][ti]-atomic.LoadInt32(&peers[ti].seen[g]) >= int32(W); spins++ {
						time.Sleep(50 * time.Microsecond)
						if spins > 60000 || (spins > 3000 && atomic.LoadInt32(&c11flowStuckN) > 0) {
							// items were lost on a healthy connection: stop writing, the checks below name them
							atomic.AddInt32(&c11flowStuckN, 1)
							return
						}
					}
					sent[g][ti]++
				}
				cmu.Lock()
				calls = append(calls, call{g, target, op, uid})
				cmu.Unlock()
				m := &MessageVfUid{Uid: uid, Kind: 2, Pad: [3]uint8{9, 9, 9}}
				switch op {
				case "MsgAll":
					_ = node.WriteMessageAll(m)
				case "MsgTo":
					_ = node.WriteMessageTo(chans[target], m)
				case "MsgExcept":
					_ = node.WriteMessageExcept(chans[target], m)
				case "FrameAll":
					_ = node.WriteFrameAll(&frame.V2Frame{SequenceNumber: byte(i), SystemID: 3, ComponentID: 4, Message: m})
				}
				if gr.Chance(1, 6) {
					// directly behind it, an item the links refuse (an id outside the dialect): it costs nothing but itself
					_ = node.WriteMessageAll(&message.MessageRaw{ID: 99999, Payload: []byte{1, 2, 3}})
					atomic.AddInt32(&c11tcpRefused, 1)
				}
			}
		}(g)
	}
	wg.Wait()
	rep.Count("tcp_refused_items_written_directly_behind_good_ones", int(atomic.SwapInt32(&c11tcpRefused, 0)))
	total := func() int64 {
		var n int64
		for _, p := range peers {
			for g := 0; g < G; g++ {
				n += int64(atomic.LoadInt32(&p.seen[g]))
			}
		}
		return n
	}
	waitFor(func() bool {
		for ti, p := range peers {
			for g := 0; g < G; g++ {
				if atomic.LoadInt32(&p.seen[g]) < sent[g][ti] {
					return false
				}
			}
		}
		return true
	}, total, 1500*time.Millisecond)
	if !safeClose(rep, node) {
		return
	}
	<-cons.done
	for _, p := range peers {
		p.conn.Close()
	}
	rwg.Wait()
	byUID := map[uint64]call{}
	for _, c := range calls {
		byUID[c.uid] = c
	}
	for ti, p := range peers {
		if p.bad != "" {
			rep.Violation("what=torn ep=tcp", p.bad, nil)
			continue
		}
		count := map[uint64]int{}
		last := map[int]int{}
		for _, uid := range p.uids {
			rep.Count("wire_frames_tcp", 1)
			count[uid]++
			c, ok := byUID[uid]
			if !ok || count[uid] > 1 {
				rep.Violation("what=duplicate ep=tcp", "an item appeared twice (or an unknown item appeared) on a TCP channel", fmt.Sprintf("%x", uid))
				continue
			}
			if (c.op == "MsgTo" && c.target != ti) || (c.op == "MsgExcept" && c.target == ti) {
				rep.Violation("what=leak:"+c.op+" ep=tcp", fmt.Sprintf("an item written with %s (target %d) appeared on channel %d", c.op, c.target, ti), nil)
			}
			i := int(uid & 0xFFFFFFFF)
			if prev, ok := last[c.g]; ok && i <= prev {
				rep.Violation("what=reorder ep=tcp", "items of one goroutine out of submission order on a TCP channel", nil)
			}
			last[c.g] = i
		}
		for _, c := range calls {
			must := c.op == "MsgAll" || c.op == "FrameAll" || (c.op == "MsgTo" && c.target == ti) || (c.op == "MsgExcept" && c.target != ti)
			if must && count[c.uid] == 0 {
				rep.Violation("what=loss:"+c.op+" ep=tcp", fmt.Sprintf("an item written with %s never reached TCP channel %d (backlog stayed below 64)", c.op, ti), nil)
				break
			}
		}
	}
	rep.Eval(len(calls))
	rep.Count("write_calls", len(calls))
	rep.Count("scenarios_tcp", 1)
	rep.Distinct("sig", hookSignature())
}

// c11clients: fan-out over the endpoint kinds the other scenarios do not use — TCP client, UDP client, UDP broadcast and
// serial (fake opener) — with two goroutines writing unique items through All / To / Except. Stream links: every
// expected item exactly once, per-goroutine order, whole frames. Datagram links: every datagram is exactly one whole
// frame, no item twice, per-goroutine order, nothing that was not addressed to the link (loss is the network's right).
func c11clients(rep *vh.Report, seed uint64, idx int) {
	if aborted() {
		return
	}
	r := vh.Sub(seed, fmt.Sprintf("c11-clients-%d", idx))
	hookReset(r.U64(), true, false)
	ln, err := net.Listen("tcp4", "127.0.0.1:0")
	if err != nil {
		rep.Inconclusive("C11 clients: " + err.Error())
		return
	}
	defer ln.Close()
	upc, err := net.ListenPacket("udp4", "127.0.0.1:0")
	if err != nil {
		rep.Inconclusive("C11 clients: " + err.Error())
		return
	}
	defer upc.Close()
	bport := freeUDPPort()
	bpc, err := net.ListenPacket("udp4", fmt.Sprintf("127.255.255.255:%d", bport))
	if err != nil {
		rep.Inconclusive("C11 clients: cannot listen on the loopback broadcast address: " + err.Error())
		return
	}
	defer bpc.Close()
	sf := &serialFake{errOpen: fmt.Errorf("open failed")}
	gomavlib.VerifSetSerialOpenFunc(sf.open)
	node := &gomavlib.Node{
		Endpoints: []gomavlib.EndpointConf{
			gomavlib.EndpointTCPClient{Address: ln.Addr().String()},
			gomavlib.EndpointUDPClient{Address: upc.LocalAddr().String()},
			gomavlib.EndpointUDPBroadcast{BroadcastAddress: fmt.Sprintf("127.255.255.255:%d", bport), LocalAddress: fmt.Sprintf("127.0.0.1:%d", bport)},
			gomavlib.EndpointSerial{Device: "/dev/ttyFAKE", Baud: 57600},
		},
		Dialect: testDialect, OutVersion: gomavlib.V2, OutSystemID: 44, OutComponentID: 7, HeartbeatDisable: true, IdleTimeout: 10 * time.Second,
	}
	if err := node.Initialize(); err != nil {
		rep.Inconclusive("C11 clients: " + err.Error())
		return
	}
	cons := newConsumer(rep, "C11", "clients", node)
	cons.start()
	const fam = 0xC9
	// receivers
	type link struct {
		kind  string
		mu    sync.Mutex
		uids  []uint64
		bad   string
		count int32
	}
	links := map[string]*link{"tcp-client": {kind: "tcp-client"}, "udp-client": {kind: "udp-client"}, "udp-broadcast": {kind: "udp-broadcast"}, "serial": {kind: "serial"}}
	record := func(l *link, f *ref.FrameSpec) {
		if uid, ok := uidOfWire(f); ok && uid>>56 == fam {
			l.mu.Lock()
			l.uids = append(l.uids, uid)
			l.mu.Unlock()
			atomic.AddInt32(&l.count, 1)
		}
	}
	var rwg sync.WaitGroup
	rwg.Add(1)
	go func() { // TCP: a byte stream of whole frames
		defer rwg.Done()
		_ = ln.(*net.TCPListener).SetDeadline(time.Now().Add(3 * time.Second))
		conn, err := ln.Accept()
		if err != nil {
			return
		}
		defer conn.Close()
		l := links["tcp-client"]
		var acc []byte
		buf := make([]byte, 8192)
		for {
			n, err := conn.Read(buf)
			acc = append(acc, buf[:n]...)
			for len(acc) > 0 {
				f, used, st := ref.ParseAt(acc, 0)
				if st == ref.ParseIncomplete {
					break
				}
				if st != ref.ParseOK {
					l.mu.Lock()
					l.bad = "the byte stream on the wire is not a sequence of whole frames"
					l.mu.Unlock()
					return
				}
				record(l, f)
				acc = acc[used:]
			}
			if err != nil {
				return
			}
		}
	}()
	dgram := func(pc net.PacketConn, l *link) {
		defer rwg.Done()
		buf := make([]byte, 4096)
		for {
			n, _, err := pc.ReadFrom(buf)
			if err != nil {
				return
			}
			f, used, st := ref.ParseAt(buf[:n], 0)
			if st != ref.ParseOK || used != n {
				l.mu.Lock()
				l.bad = fmt.Sprintf("a datagram of %d bytes is not exactly one whole frame", n)
				l.mu.Unlock()
				continue
			}
			record(l, f)
		}
	}
	rwg.Add(2)
	go dgram(upc, links["udp-client"])
	go dgram(bpc, links["udp-broadcast"])
	if !cons.waitOpen(4, 2*time.Second) {
		rep.Inconclusive(fmt.Sprintf("C11 clients: only %d of 4 channels opened", len(cons.openChannels())))
		safeClose(rep, node)
		return
	}
	chOf := map[string]*gomavlib.Channel{}
	for _, ci := range cons.openChannels() {
		switch {
		case strings.HasPrefix(ci.Label, "tcp:"):
			chOf["tcp-client"] = ci.Ch
		case ci.Label == "udp:"+upc.LocalAddr().String():
			chOf["udp-client"] = ci.Ch
		case strings.HasPrefix(ci.Label, "udp:127.255.255.255"):
			chOf["udp-broadcast"] = ci.Ch
		case strings.HasPrefix(ci.Label, "serial"):
			chOf["serial"] = ci.Ch
		}
	}
	if len(chOf) != 4 {
		rep.Inconclusive("C11 clients: could not tell the four channels apart by their labels")
		safeClose(rep, node)
		return
	}
	kinds := []string{"tcp-client", "udp-client", "udp-broadcast", "serial"}
	// writers
	want := map[string][][]uint64{} // per link, per goroutine: the items addressed to it, in submission order
	for _, k := range kinds {
		want[k] = make([][]uint64, 2)
	}
	var wmu sync.Mutex
	var wwg sync.WaitGroup
	nItems := vh.Pick(120, 600)
	for g := 0; g < 2; g++ {
		wwg.Add(1)
		gr := r.Fork()
		go func(g int) {
			defer wwg.Done()
			for i := 0; i < nItems; i++ {
				uid := uint64(fam)<<56 | uint64(g)<<32 | uint64(i+1)
				m := &MessageVfUid{Uid: uid, Kind: 1, Pad: [3]uint8{1, 2, 3}}
				k := kinds[gr.Intn(4)]
				var to []string
				switch gr.Intn(3) {
				case 0:
					to = kinds
					_ = node.WriteMessageAll(m)
				case 1:
					to = []string{k}
					_ = node.WriteMessageTo(chOf[k], m)
				case 2:
					for _, x := range kinds {
						if x != k {
							to = append(to, x)
						}
					}
					_ = node.WriteFrameExcept(chOf[k], &frame.V2Frame{SequenceNumber: byte(i), SystemID: 5, ComponentID: 6, Message: m})
				}
				wmu.Lock()
				for _, x := range to {
					want[x][g] = append(want[x][g], uid)
				}
				wmu.Unlock()
				// flow control: at most ~20 items of this goroutine outstanding on the stream links
				if i%16 == 15 {
					need := int32(0)
					wmu.Lock()
					need = int32(len(want["tcp-client"][0]) + len(want["tcp-client"][1]) - 40)
					wmu.Unlock()
					waitFor(func() bool { return atomic.LoadInt32(&links["tcp-client"].count) >= need }, func() int64 { return int64(atomic.LoadInt32(&links["tcp-client"].count)) }, 300*time.Millisecond)
				}
				time.Sleep(100 * time.Microsecond)
			}
		}(g)
	}
	wwg.Wait()
	// the serial link is the fake port
	_, ports := sf.snapshot()
	serialTr := ports[len(ports)-1]
	total := func(k string) int { return len(want[k][0]) + len(want[k][1]) }
	waitFor(func() bool {
		acc, _ := wireUIDs(serialTr, fam)
		return int(atomic.LoadInt32(&links["tcp-client"].count)) >= total("tcp-client") && len(acc) >= total("serial") &&
			int(atomic.LoadInt32(&links["udp-client"].count)) >= total("udp-client") && int(atomic.LoadInt32(&links["udp-broadcast"].count)) >= total("udp-broadcast")
	}, func() int64 {
		return int64(atomic.LoadInt32(&links["tcp-client"].count)+atomic.LoadInt32(&links["udp-client"].count)+atomic.LoadInt32(&links["udp-broadcast"].count)) + int64(serialTr.NWrites())
	}, 800*time.Millisecond)
	if !safeClose(rep, node) {
		return
	}
	upc.Close()
	bpc.Close()
	rwg.Wait()
	<-cons.done
	for _, w := range serialTr.Writes() {
		f, used, st := ref.ParseAt(w.Data, 0)
		if st != ref.ParseOK || used != len(w.Data) {
			links["serial"].bad = "a write to the serial port is not exactly one whole frame"
			continue
		}
		record(links["serial"], f)
	}
	for _, k := range kinds {
		l := links[k]
		wit := map[string]interface{}{"endpoint": k, "received": len(l.uids), "addressed": total(k)}
		if l.bad != "" {
			rep.Violation("what=interleaved ep="+k, l.bad, wit)
			continue
		}
		stream := k == "tcp-client" || k == "serial"
		seen := map[uint64]bool{}
		pos := [2]int{}
		ok := true
		for _, u := range l.uids {
			g := int(u >> 32 & 1)
			if seen[u] {
				rep.Violation("what=duplicate ep="+k, fmt.Sprintf("item %x reached the link twice", u), wit)
				ok = false
				break
			}
			seen[u] = true
			// per-goroutine order: u must be found further on in that goroutine's expected sequence
			j := pos[g]
			for j < len(want[k][g]) && want[k][g][j] != u {
				j++
			}
			if j == len(want[k][g]) {
				what := "what=isolation ep=" + k
				msg := fmt.Sprintf("item %x was not addressed to this link", u)
				for _, e := range want[k][g][:pos[g]] {
					if e == u {
						what, msg = "what=fifo ep="+k, fmt.Sprintf("item %x of goroutine %d overtaken by a later one", u, g)
					}
				}
				rep.Violation(what, msg, wit)
				ok = false
				break
			}
			if stream && j != pos[g] {
				rep.Violation("what=lost ep="+k, fmt.Sprintf("item %x of goroutine %d never reached the stream link although its successor did", want[k][g][pos[g]], g), wit)
				ok = false
				break
			}
			pos[g] = j + 1
		}
		if ok && stream && len(l.uids) != total(k) {
			rep.Violation("what=lost ep="+k, fmt.Sprintf("%d of the %d items addressed to the link arrived (backlog was kept below the queue size)", len(l.uids), total(k)), wit)
		}
		if !stream && len(l.uids) < total(k) {
			rep.Count("clients_datagrams_not_delivered", total(k)-len(l.uids))
			if len(l.uids) == 0 && total(k) > 0 {
				rep.Violation("what=lost ep="+k, "nothing of what was addressed to the link arrived", wit)
			}
		}
		rep.Count("clients_items_"+k, len(l.uids))
	}
	rep.Eval(1)
	rep.Count("scenarios_clients", 1)
	rep.Distinct("clients", idx)
}

// c11manyChannels: a node with several hundred channels (more than any chunk size a fan-out might be cut into). One
// goroutine writes an item to all channels and, directly afterwards, an item to one channel (or to all again): on every
// channel its items come out in the order it wrote them.
func c11manyChannels(rep *vh.Report, seed uint64, idx int) {
	if aborted() {
		return
	}
	r := vh.Sub(seed, fmt.Sprintf("c11-many-%d", idx))
	hookReset(r.U64(), false, false)
	K := 300 + r.Intn(80)
	trs := make([]*fake.Transport, K)
	var eps []gomavlib.EndpointConf
	for i := range trs {
		trs[i] = fake.NewTransport(fmt.Sprintf("m%d", i))
		eps = append(eps, gomavlib.EndpointCustom{ReadWriteCloser: trs[i]})
	}
	node := &gomavlib.Node{Endpoints: eps, Dialect: testDialect, OutVersion: gomavlib.V2, OutSystemID: 42, OutComponentID: 7, HeartbeatDisable: true}
	if err := node.Initialize(); err != nil {
		rep.HarnessError(err.Error())
		return
	}
	cons := newConsumer(rep, "C11", "custom", node)
	cons.start()
	if !cons.waitOpen(K, 5*time.Second) {
		rep.HarnessError(fmt.Sprintf("C11 many channels: %d of %d channels opened", len(cons.openChannels()), K))
		safeClose(rep, node)
		return
	}
	chOf := map[*fake.Transport]*gomavlib.Channel{}
	for _, ci := range cons.openChannels() {
		chOf[ci.Tr] = ci.Ch
	}
	const fam = 0xCE
	rounds := 40
	want := make([][]uint64, K)
	for i := 0; i < rounds; i++ {
		a, b := uint64(fam)<<56|uint64(2*i+1), uint64(fam)<<56|uint64(2*i+2)
		_ = node.WriteMessageAll(&MessageVfUid{Uid: a})
		for t := range want {
			want[t] = append(want[t], a)
		}
		if i%3 == 2 {
			_ = node.WriteMessageAll(&MessageVfUid{Uid: b})
			for t := range want {
				want[t] = append(want[t], b)
			}
		} else {
			t := r.Intn(K)
			_ = node.WriteMessageTo(chOf[trs[t]], &MessageVfUid{Uid: b})
			want[t] = append(want[t], b)
		}
		// (the backlog of every channel stays far below its bound: two items per round, and the round ends when they are out)
		waitFor(func() bool {
			for t, tr := range trs {
				if tr.NWrites() < len(want[t]) {
					return false
				}
			}
			return true
		}, func() int64 {
			n := 0
			for _, tr := range trs {
				n += tr.NWrites()
			}
			return int64(n)
		}, 500*time.Millisecond)
	}
	rep.Eval(1)
	rep.Count("many_channel_runs", 1)
	rep.Count("many_channel_channels", K)
	rep.Distinct("many", idx, K)
	for t, tr := range trs {
		var got []uint64
		for _, w := range tr.Writes() {
			if f, _, st := ref.ParseAt(w.Data, 0); st == ref.ParseOK {
				if uid, ok := uidOfWire(f); ok && uid>>56 == fam {
					got = append(got, uid)
				}
			}
		}
		if !eqU64(got, want[t]) {
			rep.Violation("what="+classifySeq(got, want[t])+" ep=custom", fmt.Sprintf("node with %d channels, one goroutine writing an item to all and then one to a single channel (or to all again): channel %d received %d of its %d items, or not in the order written", K, t, len(got), len(want[t])),
				map[string]interface{}{"got_tail": got[max(0, len(got)-6):], "want_tail": want[t][max(0, len(want[t])-6):]})
			break
		}
	}
	if !safeClose(rep, node) {
		return
	}
	<-cons.done
}
