package nodeprops

import (
	"context"
	"errors"
	"fmt"
	"io"
	"net"
	"os"
	"strings"
	"sync"
	"sync/atomic"
	"syscall"
	"testing"
	"time"

	"github.com/bluenviron/gomavlib/v3"
	"github.com/bluenviron/gomavlib/v3/pkg/timednetconn"

	"github.com/bluenviron/gomavlib/v3/pkg/frame"
	"github.com/bluenviron/gomavlib/v3/pkg/message"
	"go.bug.st/serial"

	"verifharness/fake"
	"verifharness/ref"
	"verifharness/vh"
)

// C14 — channel lifecycle under faults: errors reported, reconnects, idle expiry.

const c14reconnect = 40 * time.Millisecond

// lifecycle collects open/close events of one node with the time sampled BEFORE the receive
// that returned them (a sound lower bound for "the event had been delivered by then").
type lifeEvt struct {
	Open  bool
	Ch    *gomavlib.Channel
	Label string
	Err   error
	TPre  time.Time // sampled before blocking on Events()
	TPost time.Time
}

type lifeLog struct {
	mu   sync.Mutex
	evts []lifeEvt
	n    int64
	done chan struct{}
}

func watchLife(node *gomavlib.Node) *lifeLog {
	l := &lifeLog{done: make(chan struct{})}
	go func() {
		defer close(l.done)
		for {
			pre := time.Now()
			evt, ok := <-node.Events()
			if !ok {
				return
			}
			post := time.Now()
			atomic.AddInt64(&l.n, 1)
			switch e := evt.(type) {
			case *gomavlib.EventChannelOpen:
				l.mu.Lock()
				l.evts = append(l.evts, lifeEvt{Open: true, Ch: e.Channel, Label: e.Channel.String(), TPre: pre, TPost: post})
				l.mu.Unlock()
			case *gomavlib.EventChannelClose:
				l.mu.Lock()
				l.evts = append(l.evts, lifeEvt{Ch: e.Channel, Label: e.Channel.String(), Err: e.Error, TPre: pre, TPost: post})
				l.mu.Unlock()
			}
		}
	}()
	return l
}

func (l *lifeLog) snapshot() []lifeEvt {
	l.mu.Lock()
	defer l.mu.Unlock()
	return append([]lifeEvt(nil), l.evts...)
}

func (l *lifeLog) count(open bool) int {
	c := 0
	for _, e := range l.snapshot() {
		if e.Open == open {
			c++
		}
	}
	return c
}

func (l *lifeLog) progress() int64 { return atomic.LoadInt64(&l.n) }

// checkAlternation: one channel at a time — open and close events strictly alternate, and
// every channel object is new.
func checkAlternation(rep *vh.Report, kind string, evts []lifeEvt) {
	open := false
	seen := map[*gomavlib.Channel]bool{}
	for i, e := range evts {
		if e.Open {
			if open {
				rep.Violation("ep="+kind+" what=two-open", "a client-type endpoint had two channels open at once", map[string]interface{}{"event_index": i})
				return
			}
			if seen[e.Ch] {
				rep.Violation("ep="+kind+" what=shared-channel", "a channel object was opened twice", nil)
			}
			seen[e.Ch] = true
			open = true
		} else {
			if !open {
				rep.Violation("ep="+kind+" what=two-open", "a close event without a preceding open", map[string]interface{}{"event_index": i})
				return
			}
			open = false
		}
	}
}

// ---- TCP client: the harness is the server ----

func c14tcpClient(rep *vh.Report, seed uint64, idx int) {
	if aborted() {
		return
	}
	r := vh.Sub(seed, fmt.Sprintf("c14-tcpc-%d", idx))
	ln, err := net.Listen("tcp4", "127.0.0.1:0")
	if err != nil {
		rep.Inconclusive("no loopback listener")
		return
	}
	addr := ln.Addr().String()
	node := &gomavlib.Node{Endpoints: []gomavlib.EndpointConf{gomavlib.EndpointTCPClient{Address: addr}}, Dialect: testDialect, OutVersion: gomavlib.V2, OutSystemID: 31,
		HeartbeatDisable: true, ReadTimeout: 150 * time.Millisecond, WriteTimeout: 150 * time.Millisecond, IdleTimeout: 3 * time.Second}
	if idx%3 == 2 {
		// a connection-attempt timeout that is SHORTER than the reconnect delay (loopback connections are made, or refused, in
		// microseconds): the delay between attempts is the reconnect delay all the same, and the endpoint keeps trying
		node.ReadTimeout = c14reconnect / 2
		rep.Count("tcp_client_runs_with_connect_timeout_below_reconnect_delay", 1)
	}
	if err := node.Initialize(); err != nil {
		rep.HarnessError(err.Error())
		return
	}
	life := watchLife(node)
	nFail := 2 + r.Intn(vh.Pick(5, 19))
	type acc struct {
		t    time.Time
		conn net.Conn
	}
	accepts := make(chan acc, 64)
	var lnMu sync.Mutex
	acceptLoop := func(l net.Listener) {
		for {
			c, err := l.Accept()
			if err != nil {
				return
			}
			accepts <- acc{time.Now(), c}
		}
	}
	go acceptLoop(ln)
	var faults []time.Time
	var acceptTimes []time.Time
	ok := true
	for f := 0; f <= nFail && ok; f++ {
		var a acc
		select {
		case a = <-accepts:
		case <-time.After(3 * time.Second):
			// no-progress: reconnect period 40 ms, read timeout 150 ms, nothing else pending
			rep.Violation("ep=tcp-client what=no-reconnect", fmt.Sprintf("after %d consecutive failures the endpoint did not reconnect within 3 s (reconnect period %v)", f, c14reconnect),
				map[string]interface{}{"failures": f})
			ok = false
			continue
		}
		acceptTimes = append(acceptTimes, a.t)
		if f == nFail {
			a.conn.Close()
			break
		}
		// let the channel open, send 0..3 frames, then fail in one of several ways
		waitFor(func() bool { return life.count(true) > f }, life.progress, time.Second)
		nfr := r.Intn(4)
		for i := 0; i < nfr; i++ {
			_, _ = a.conn.Write(uidFrame(uint64(f)<<32|uint64(i), byte(i), 2, false, nil, 0))
		}
		mode := r.Intn(4)
		switch mode {
		case 1: // reset
			if tc, ok := a.conn.(*net.TCPConn); ok {
				_ = tc.SetLinger(0)
			}
		case 2: // half a frame, then close: failure in the middle of a frame
			w := uidFrame(7, 0, 2, false, nil, 0)
			_, _ = a.conn.Write(w[:len(w)/2])
		}
		faults = append(faults, time.Now())
		if mode == 3 {
			// also refuse connections for a while (longer than the read timeout): failed connection attempts
			lnMu.Lock()
			ln.Close()
			lnMu.Unlock()
			a.conn.Close()
			time.Sleep(time.Duration(200+r.Intn(250)) * time.Millisecond)
			for tries := 0; ; tries++ {
				l2, err := net.Listen("tcp4", addr)
				if err == nil {
					ln = l2
					go acceptLoop(l2)
					break
				}
				if tries > 200 {
					rep.Inconclusive("C14: could not re-listen on " + addr)
					ok = false
					break
				}
				time.Sleep(5 * time.Millisecond)
			}
			rep.Count("refused_phases", 1)
		} else {
			a.conn.Close()
		}
		waitFor(func() bool { return life.count(false) > f }, life.progress, 2*time.Second)
	}
	evts := life.snapshot() // once the node is closing events may be dropped: only what arrived before counts
	if !safeClose(rep, node) {
		return
	}
	ln.Close()
	<-life.done
	checkAlternation(rep, "tcp-client", evts)
	// every close carries a cause
	ci := 0
	for _, e := range evts {
		if e.Open {
			continue
		}
		if ci < len(faults) {
			if e.Err == nil {
				rep.Violation("ep=tcp-client what=no-cause", "close event without a cause after the peer disconnected", nil)
			}
			// back-off lower bound: next connection attempt >= reconnect period after the close event had been delivered
			if ci+1 < len(acceptTimes) {
				lower := e.TPre
				if faults[ci].After(lower) {
					lower = faults[ci]
				}
				if gap := acceptTimes[ci+1].Sub(lower); gap < c14reconnect-2*time.Millisecond && gap > 0 {
					// accept time is taken after Accept returns: it can only be later than the attempt
					rep.Violation("ep=tcp-client what=early-reconnect", fmt.Sprintf("reconnected %v after the close event (reconnect period %v)", gap, c14reconnect), nil)
				}
			}
		}
		ci++
	}
	if ok && ci < len(faults) {
		rep.Violation("ep=tcp-client what=no-cause", fmt.Sprintf("%d disconnections produced only %d close events", len(faults), ci), nil)
	}
	rep.Eval(len(faults))
	rep.Count("tcp_client_failures", len(faults))
	rep.Distinct("tcpc", nFail, idx)
}

// ---- serial through the fake opener ----

func c14serial(rep *vh.Report, seed uint64, idx int) {
	if aborted() {
		return
	}
	r := vh.Sub(seed, fmt.Sprintf("c14-serial-%d", idx))
	sf := &serialFake{errOpen: errors.New("serial open failed"), asPort: idx%2 == 1}
	if idx%3 == 1 {
		// the error value the real opener returns for a path that is there but is no serial port (a device node re-created
		// with other permissions, a regular file under the device's name): a failed attempt like any other
		if f, ferr := os.CreateTemp("", "verif-not-a-tty"); ferr == nil {
			name := f.Name()
			f.Close()
			if _, oerr := serial.Open(name, &serial.Mode{BaudRate: 57600}); oerr != nil {
				sf.errOpen = oerr
				rep.Count("serial_scenarios_failing_with_the_real_openers_error", 1)
				rep.Observe("the real serial opener on a regular file: " + oerr.Error())
			}
			os.Remove(name)
		}
	}
	var opensMu sync.Mutex
	var openTimes []time.Time
	injected := map[int]error{}
	sf.onOpen = func(n int, tr *fake.Transport) {
		opensMu.Lock()
		openTimes = append(openTimes, time.Now())
		opensMu.Unlock()
	}
	gomavlib.VerifSetSerialOpenFunc(sf.open)
	node := &gomavlib.Node{Endpoints: []gomavlib.EndpointConf{gomavlib.EndpointSerial{Device: "/dev/ttyFAKE", Baud: 57600}}, Dialect: testDialect,
		OutVersion: gomavlib.V2, OutSystemID: 32, HeartbeatDisable: true}
	if err := node.Initialize(); err != nil {
		rep.HarnessError(err.Error())
		return
	}
	life := watchLife(node)
	nFail := 2 + r.Intn(vh.Pick(5, 19))
	var faultT []time.Time
	for f := 0; f < nFail; f++ {
		if !waitFor(func() bool { return life.count(true) > f }, life.progress, 2*time.Second) {
			rep.Violation("ep=serial what=no-reconnect", fmt.Sprintf("after %d consecutive failures the serial endpoint did not open a fresh channel", f), nil)
			break
		}
		_, ports := sf.snapshot()
		cur := ports[len(ports)-1]
		// persistent read failure at operation j, at an item boundary or in the middle of a frame
		nfr := r.Intn(4)
		for i := 0; i < nfr; i++ {
			cur.Feed(uidFrame(uint64(i), byte(i), 2, false, nil, 0))
		}
		if r.Chance(1, 2) {
			w := uidFrame(9, 0, 2, false, nil, 0)
			cur.Feed(w[:len(w)/2])
		}
		cause := fmt.Errorf("injected serial failure #%d", f)
		if f%3 == 1 {
			// a driver error that calls itself temporary (EINTR, EAGAIN and the like): a read failure all the same
			cause = &c14tempErr{n: f}
			rep.Count("read_failures_that_call_themselves_temporary", 1)
		}
		injected[f] = cause
		if r.Chance(1, 3) {
			// the device has stopped taking output: the channel's writer sits inside Write when the read side fails
			// (only closing the port releases it)
			cur.BlockWrites()
			for k := 0; k < 3; k++ {
				_ = node.WriteMessageAll(&MessageVfUid{Uid: uint64(k)})
			}
			waitFor(func() bool { return cur.Blocked() > 0 }, func() int64 { return int64(cur.WriteCalls()) }, 300*time.Millisecond)
			if cur.Blocked() > 0 {
				rep.Count("serial_failures_with_writer_inside_write", 1)
			}
		}
		// some failed open attempts before the next success (never in the scenarios numbered with a multiple of four: there the
		// first attempt that fails is the one after the device has gone away for good)
		if r.Chance(1, 2) && idx%4 != 0 {
			sf.mu.Lock()
			sf.failN = 1 + r.Intn(4)
			sf.slowFail = 0
			if r.Chance(1, 2) {
				sf.slowFail = c14reconnect * 3 / 2 // attempts that take longer to fail than the back-off lasts
				rep.Count("serial_slow_failing_opens_scheduled", 1)
			}
			sf.mu.Unlock()
			rep.Count("serial_failed_opens_scheduled", 1)
		}
		faultT = append(faultT, time.Now())
		for k := 0; k < 50; k++ {
			cur.FeedError(cause) // persistent: every later read fails the same way
		}
		waitFor(func() bool { return life.count(false) > f }, life.progress, 2*time.Second)
	}
	waitFor(func() bool { return life.count(true) > nFail }, life.progress, 2*time.Second)
	if idx%2 == 0 && life.count(true) > nFail {
		// the device goes away for good: the last channel fails, the attempts to open the port again fail one after the other,
		// and the node is closed while the device is still away
		sf.mu.Lock()
		sf.failN, sf.slowFail = 1<<30, 0
		opens0 := sf.opens
		sf.mu.Unlock()
		_, ports := sf.snapshot()
		last := ports[len(ports)-1]
		closes0 := life.count(false)
		for k := 0; k < 50; k++ {
			last.FeedError(errors.New("device unplugged"))
		}
		waitFor(func() bool { return life.count(false) > closes0 }, life.progress, 2*time.Second)
		// (no look at the opener's own counters from here on: under the race detector - this scenario is re-run by C15 - taking
		// its mutex would order the endpoint's goroutine before this one and hide what Close may race with)
		_ = opens0
		time.Sleep(200*time.Millisecond + time.Duration(idx%3)*60*time.Millisecond)
		rep.Count("serial_nodes_closed_while_the_device_is_away_after_failed_reopens", 1)
	}
	evts := life.snapshot()
	opensBeforeClose := life.count(true)
	if !safeClose(rep, node) {
		return
	}
	<-life.done
	checkAlternation(rep, "serial", evts)
	ci := 0
	for _, e := range evts {
		if e.Open {
			continue
		}
		if ci < nFail {
			if !errors.Is(e.Err, injected[ci]) {
				rep.Violation("ep=serial what=no-cause", fmt.Sprintf("close event carries %v, the injected cause was %v", e.Err, injected[ci]), nil)
			}
		}
		ci++
	}
	if opensBeforeClose <= nFail {
		rep.Violation("ep=serial what=no-reconnect", fmt.Sprintf("%d failures but only %d channels were opened", nFail, opensBeforeClose), nil)
	}
	// every port closed exactly once, and before the next one was opened
	_, ports := sf.snapshot()
	for i, p := range ports {
		if p.Closes() != 1 {
			rep.Violation("ep=serial what=two-open", fmt.Sprintf("serial port #%d was closed %d times", i+1, p.Closes()), nil)
		}
	}
	// back-off lower bound between a close event and the next open attempt
	opensMu.Lock()
	ot := append([]time.Time(nil), openTimes...)
	opensMu.Unlock()
	ci = 0
	for _, e := range evts {
		if e.Open || ci >= len(faultT) {
			continue
		}
		lower := e.TPre
		if faultT[ci].After(lower) {
			lower = faultT[ci]
		}
		for _, t := range ot {
			if t.After(lower) {
				if gap := t.Sub(lower); gap < c14reconnect-2*time.Millisecond {
					rep.Violation("ep=serial what=early-reconnect", fmt.Sprintf("port re-opened %v after the close event (reconnect period %v)", gap, c14reconnect), nil)
				}
				break
			}
		}
		ci++
	}
	// after a failed attempt the next one starts a whole reconnect period after the failure, however long the attempt took
	sf.mu.Lock()
	calls := append([]serialCall(nil), sf.calls...)
	sf.mu.Unlock()
	for i := 0; i+1 < len(calls); i++ {
		if calls[i].ok || i == 0 {
			continue // the first call is the probe open of Initialize
		}
		rep.Count("serial_retry_gaps_checked", 1)
		if gap := calls[i+1].start.Sub(calls[i].end); gap < c14reconnect-2*time.Millisecond {
			rep.Violation("ep=serial what=early-reconnect", fmt.Sprintf("after an open attempt that took %v to fail, the next attempt started %v later (reconnect period %v)",
				calls[i].end.Sub(calls[i].start).Round(time.Millisecond), gap.Round(100*time.Microsecond), c14reconnect), nil)
			break
		}
	}
	rep.Eval(nFail)
	rep.Count("serial_failures", nFail)
	rep.Distinct("serial", nFail, idx)
}

// ---- custom endpoint: cause reported, one channel at a time ----

func c14custom(rep *vh.Report, seed uint64, idx int) {
	if aborted() {
		return
	}
	r := vh.Sub(seed, fmt.Sprintf("c14-custom-%d", idx))
	tr := fake.NewTransport("c14")
	node := &gomavlib.Node{Endpoints: []gomavlib.EndpointConf{gomavlib.EndpointCustom{ReadWriteCloser: tr}}, Dialect: testDialect, OutVersion: gomavlib.V2, OutSystemID: 33, HeartbeatDisable: true}
	if err := node.Initialize(); err != nil {
		rep.HarnessError(err.Error())
		return
	}
	life := watchLife(node)
	n := 3 + r.Intn(vh.Pick(8, 17))
	var causes []error
	for f := 0; f < n; f++ {
		waitFor(func() bool { return life.count(true) > f }, life.progress, time.Second)
		for i := 0; i < r.Intn(3); i++ {
			tr.Feed(uidFrame(uint64(i), 0, 2, false, nil, 0))
		}
		tr.WaitDrained(time.Second)
		c := fmt.Errorf("custom failure #%d", f)
		if f%3 == 2 {
			c = &c14tempErr{n: f}
			rep.Count("read_failures_that_call_themselves_temporary", 1)
		}
		if f%3 == 1 {
			// the peer goes away cleanly (io.EOF) right after the last thing the channel's writer handled had failed (an item
			// that cannot be encoded for the link; a failed transport write): the cause of the closure is still the EOF
			c = io.EOF
			if f%2 == 1 {
				_ = node.WriteMessageAll(&message.MessageRaw{ID: 99999, Payload: []byte{1, 2, 3}})
			} else {
				tr.FailWriteAt(tr.WriteCalls()+1, errWrite, false)
				_ = node.WriteMessageAll(&MessageVfUid{Uid: 77})
				waitFor(func() bool { return tr.NWrites() > 0 && tr.WriteAt(tr.NWrites()-1).Failed }, func() int64 { return int64(tr.WriteCalls()) }, 200*time.Millisecond)
			}
			time.Sleep(2 * time.Millisecond)
			rep.Count("clean_disconnects_after_a_failed_write", 1)
		}
		causes = append(causes, c)
		tr.FeedError(c)
		waitFor(func() bool { return life.count(false) > f }, life.progress, time.Second)
	}
	evts := life.snapshot()
	if !safeClose(rep, node) {
		return
	}
	<-life.done
	checkAlternation(rep, "custom", evts)
	ci := 0
	for _, e := range evts {
		if e.Open {
			continue
		}
		if ci < len(causes) && !errors.Is(e.Err, causes[ci]) {
			rep.Violation("ep=custom what=no-cause", fmt.Sprintf("close event carries %v, the injected cause was %v", e.Err, causes[ci]), nil)
		}
		ci++
	}
	if ci < len(causes) {
		rep.Violation("ep=custom what=no-cause", fmt.Sprintf("%d read failures produced %d close events", len(causes), ci), nil)
	}
	rep.Eval(n)
	rep.Count("custom_failures", n)
}

// c14tempErr is a net.Error that is not a timeout and calls itself temporary.
type c14tempErr struct{ n int }

func (e *c14tempErr) Error() string   { return fmt.Sprintf("interrupted system call (injected #%d)", e.n) }
func (e *c14tempErr) Timeout() bool   { return false }
func (e *c14tempErr) Temporary() bool { return true }

// ---- servers: every peer its own channel, listener keeps accepting ----

func c14servers(rep *vh.Report, seed uint64, idx int) {
	if aborted() {
		return
	}
	r := vh.Sub(seed, fmt.Sprintf("c14-srv-%d", idx))
	tport, uport := freeTCPPort(), freeUDPPort()
	node := &gomavlib.Node{Endpoints: []gomavlib.EndpointConf{gomavlib.EndpointTCPServer{Address: fmt.Sprintf("127.0.0.1:%d", tport)},
		gomavlib.EndpointUDPServer{Address: fmt.Sprintf("127.0.0.1:%d", uport)}}, Dialect: testDialect, OutVersion: gomavlib.V2, OutSystemID: 34,
		HeartbeatDisable: true, IdleTimeout: 2 * time.Second}
	if err := node.Initialize(); err != nil {
		rep.Inconclusive("C14 servers: " + err.Error())
		return
	}
	life := watchLife(node)
	m := 3 + r.Intn(vh.Pick(6, 20))
	var labels []string
	var tcpClosed int
	for p := 0; p < m; p++ {
		udp := r.Chance(1, 3)
		network, port := "tcp4", tport
		if udp {
			network, port = "udp4", uport
		}
		before := life.count(true)
		c, err := net.Dial(network, fmt.Sprintf("127.0.0.1:%d", port))
		if err != nil {
			rep.Violation("ep=tcp-server what=stopped-accepting", fmt.Sprintf("connection %d refused after earlier failures: %v", p, err), nil)
			continue
		}
		pre := "tcp:"
		if udp {
			pre = "udp:"
		}
		labels = append(labels, pre+c.LocalAddr().String())
		// what a peer says first need not start at a frame boundary (a bridge forwarding raw chunks, line noise): it is a
		// peer all the same and gets its channel
		first := uidFrame(uint64(p), 0, 2, false, nil, 0)
		how := "a frame"
		switch r.Intn(4) {
		case 1:
			first, how = first[5:], "the tail of a frame"
		case 2:
			first, how = []byte{0x00, 0x11, 0x22, 0x33, 0x44, 0x55, 0x66}, "bytes that are not a frame"
		case 3:
			first, how = []byte{0x7F}, "a single byte"
		}
		_, _ = c.Write(first)
		rep.Count("server_peers_first_saying_"+strings.ReplaceAll(how, " ", "_"), 1)
		if !waitFor(func() bool { return life.count(true) > before }, life.progress, 1500*time.Millisecond) {
			rep.Violation("ep="+strings.TrimSuffix(pre, ":")+"-server what=stopped-accepting", fmt.Sprintf("peer %d connected and sent %s but no channel was opened for it", p, how), nil)
		}
		if !udp {
			switch r.Intn(3) {
			case 0:
				if tc, ok := c.(*net.TCPConn); ok {
					_ = tc.SetLinger(0)
				}
				c.Close()
				tcpClosed++
			case 1:
				c.Close()
				tcpClosed++
			default:
				defer c.Close()
			}
		} else {
			defer c.Close()
		}
	}
	waitFor(func() bool { return life.count(false) >= tcpClosed }, life.progress, 1500*time.Millisecond)
	evts := life.snapshot() // close events caused by the node's own Close carry no error and are not looked at
	if !safeClose(rep, node) {
		return
	}
	<-life.done
	seenCh := map[*gomavlib.Channel]bool{}
	seenLabel := map[string]int{}
	for _, e := range evts {
		if e.Open {
			if seenCh[e.Ch] {
				rep.Violation("ep=server what=shared-channel", "two peers share one channel object", nil)
			}
			seenCh[e.Ch] = true
			seenLabel[e.Label]++
		} else if e.Err == nil {
			rep.Violation("ep=server what=no-cause", "close event without a cause", e.Label)
		}
	}
	for _, l := range labels {
		if seenLabel[l] != 1 {
			rep.Violation("ep=server what=shared-channel", fmt.Sprintf("peer %s got %d channels (its own, labelled with its address, expected)", l, seenLabel[l]), nil)
		}
	}
	rep.Eval(m)
	rep.Count("server_peers", m)
}

// ---- idle expiry ----

func c14idle(rep *vh.Report, seed uint64, idx int, kind string) {
	if aborted() {
		return
	}
	T := 300 * time.Millisecond
	var node *gomavlib.Node
	var conn net.Conn
	var ln net.Listener
	var pc net.PacketConn
	var peerAddr net.Addr
	switch kind {
	case "tcp-server", "udp-server":
		network, port := "tcp4", freeTCPPort()
		ep := gomavlib.EndpointConf(gomavlib.EndpointTCPServer{Address: fmt.Sprintf("127.0.0.1:%d", port)})
		if kind == "udp-server" {
			network, port = "udp4", freeUDPPort()
			ep = gomavlib.EndpointUDPServer{Address: fmt.Sprintf("127.0.0.1:%d", port)}
		}
		node = &gomavlib.Node{Endpoints: []gomavlib.EndpointConf{ep}, Dialect: testDialect, OutVersion: gomavlib.V2, OutSystemID: 35, HeartbeatDisable: true, IdleTimeout: T}
		if (kind == "tcp-server") == (idx%2 == 0) {
			// the node's own heartbeats are on, at their default period of 5 s (much longer than the idle timeout): the idle
			// timeout is about what the node RECEIVES and stays what was configured
			node.HeartbeatDisable = false
			rep.Count("idle_runs_with_default_heartbeats", 1)
		}
		if err := node.Initialize(); err != nil {
			rep.Inconclusive("C14 idle: " + err.Error())
			return
		}
		c, err := net.Dial(network, fmt.Sprintf("127.0.0.1:%d", port))
		if err != nil {
			if !safeClose(rep, node) {
				return
			}
			return
		}
		conn = c
	case "tcp-client":
		l, err := net.Listen("tcp4", "127.0.0.1:0")
		if err != nil {
			return
		}
		ln = l
		node = &gomavlib.Node{Endpoints: []gomavlib.EndpointConf{gomavlib.EndpointTCPClient{Address: l.Addr().String()}}, Dialect: testDialect, OutVersion: gomavlib.V2,
			OutSystemID: 35, HeartbeatDisable: true, IdleTimeout: T}
		if err := node.Initialize(); err != nil {
			rep.HarnessError(err.Error())
			return
		}
		c, err := l.Accept()
		if err != nil {
			if !safeClose(rep, node) {
				return
			}
			return
		}
		conn = c
	case "udp-client":
		p, err := net.ListenPacket("udp4", "127.0.0.1:0")
		if err != nil {
			return
		}
		pc = p
		node = &gomavlib.Node{Endpoints: []gomavlib.EndpointConf{gomavlib.EndpointUDPClient{Address: p.LocalAddr().String()}}, Dialect: testDialect, OutVersion: gomavlib.V2,
			OutSystemID: 35, HeartbeatPeriod: 20 * time.Millisecond, IdleTimeout: T}
		if err := node.Initialize(); err != nil {
			rep.HarnessError(err.Error())
			return
		}
		// learn the node's address from its first heartbeat
		buf := make([]byte, 512)
		_ = p.SetReadDeadline(time.Now().Add(2 * time.Second))
		_, a, err := p.ReadFrom(buf)
		if err != nil {
			rep.Inconclusive("C14 idle udp-client: no datagram from the node")
			if !safeClose(rep, node) {
				return
			}
			p.Close()
			return
		}
		peerAddr = a
		go func() {
			for {
				_ = p.SetReadDeadline(time.Now().Add(5 * time.Second))
				if _, _, err := p.ReadFrom(buf); err != nil {
					return
				}
			}
		}()
	}
	send := func(b []byte) {
		if pc != nil {
			_, _ = pc.WriteTo(b, peerAddr)
		} else {
			_, _ = conn.Write(b)
		}
	}
	life := watchLife(node)
	// phase 1: a frame every T/10 for 6 T: the channel must stay open
	send(uidFrame(1, 0, 2, false, nil, 0))
	waitFor(func() bool { return life.count(true) >= 1 }, life.progress, time.Second)
	start := time.Now()
	last := start
	var maxGap time.Duration
	for i := 0; time.Since(start) < 6*T; i++ {
		time.Sleep(T / 10)
		now := time.Now()
		if g := now.Sub(last); g > maxGap {
			maxGap = g
		}
		last = now
		send(uidFrame(uint64(2+i), byte(i), 2, false, nil, 0))
	}
	closedEarly := life.count(false) > 0
	if closedEarly {
		if maxGap < T/2 {
			var cerr error
			for _, e := range life.snapshot() {
				if !e.Open {
					cerr = e.Err
				}
			}
			rep.Violation("ep="+kind+" what=closed-while-active", fmt.Sprintf("a channel that received a frame every %v was closed although the idle timeout is %v (largest gap between our sends: %v): %v", T/10, T, maxGap, cerr), nil)
		} else {
			rep.Inconclusive(fmt.Sprintf("C14 idle %s: the harness's own send gap reached %v (>= T/2), activity verdict not taken", kind, maxGap))
		}
	}
	// phase 2: silence: the channel must be closed with a timeout error, no earlier than T after its last byte
	if midFrame := (kind == "tcp-server" && idx%2 == 0) || (kind == "tcp-client" && idx%2 == 1); !closedEarly && midFrame {
		// ... and the silence begins in the middle of a frame: the peer sent the beginning of one and went quiet
		w := uidFrame(0xABCDEF, 9, 2, false, nil, 0)
		send(w[:1+idx/2%(len(w)-1)])
		rep.Count("idle_runs_silence_begins_mid_frame", 1)
	}
	lastByte := time.Now()
	if !closedEarly {
		ok := waitFor(func() bool { return life.count(false) >= 1 }, func() int64 { return int64(time.Since(lastByte) / (4 * T)) }, 6*T)
		if !ok {
			rep.Violation("ep="+kind+" what=idle-not-closed", fmt.Sprintf("a silent channel was not closed (idle timeout %v, waited %v)", T, time.Since(lastByte)), nil)
		} else {
			for _, e := range life.snapshot() {
				if e.Open {
					continue
				}
				if e.TPost.Sub(lastByte) < T-T/10 {
					rep.Violation("ep="+kind+" what=closed-while-active", fmt.Sprintf("idle channel closed %v after its last byte (idle timeout %v)", e.TPost.Sub(lastByte), T), nil)
				}
				// ... and no later than the configured timeout allows: up to two periods when the silence began inside a frame, plus
				// 3 s for a loaded machine (a timeout that was silently raised to seconds is far beyond that)
				if late := e.TPost.Sub(lastByte); late > 2*T+3*time.Second {
					rep.Violation("ep="+kind+" what=idle-late", fmt.Sprintf("a silent channel was closed only %v after its last byte although the configured idle timeout is %v", late.Round(10*time.Millisecond), T),
						map[string]interface{}{"heartbeats_enabled": !node.HeartbeatDisable})
				}
				var ne net.Error
				if !errors.As(e.Err, &ne) || !ne.Timeout() {
					rep.Violation("ep="+kind+" what=no-cause", fmt.Sprintf("idle close carries %v, a timeout error was expected", e.Err), nil)
				}
			}
		}
	}
	// a client-type endpoint whose channel expired must open a fresh one after the reconnect delay
	if !closedEarly && life.count(false) >= 1 && (kind == "tcp-client" || kind == "udp-client") {
		if ln != nil {
			go func() {
				if c, err := ln.Accept(); err == nil {
					defer c.Close()
					buf := make([]byte, 256)
					for {
						if _, err := c.Read(buf); err != nil {
							return
						}
					}
				}
			}()
		}
		if !waitFor(func() bool { return life.count(true) >= 2 }, life.progress, 1500*time.Millisecond) {
			rep.Violation("ep="+kind+" what=no-reconnect", "after its channel was closed for idleness the client endpoint did not open a fresh channel", nil)
		}
		rep.Count("idle_reconnects_checked", 1)
	}
	if !safeClose(rep, node) {
		return
	}
	<-life.done
	if conn != nil {
		conn.Close()
	}
	if ln != nil {
		ln.Close()
	}
	if pc != nil {
		pc.Close()
	}
	rep.Eval(1)
	rep.Count("idle_runs_"+kind, 1)
	rep.Distinct("idle", kind, idx)
}

// ---- timednetconn in isolation ----

type recConn struct {
	mu    sync.Mutex
	calls []string
	times []time.Time
	dl    []time.Time
	// failArm != nil: arming a deadline fails with this error
	failArm error
}

func (c *recConn) rec(what string, d time.Time) {
	c.mu.Lock()
	c.calls = append(c.calls, what)
	c.times = append(c.times, time.Now())
	c.dl = append(c.dl, d)
	c.mu.Unlock()
}
func (c *recConn) Read(p []byte) (int, error)         { c.rec("read", time.Time{}); return len(p), nil }
func (c *recConn) Write(p []byte) (int, error)        { c.rec("write", time.Time{}); return len(p), nil }
func (c *recConn) Close() error                       { c.rec("close", time.Time{}); return nil }
func (c *recConn) LocalAddr() net.Addr                { return nil }
func (c *recConn) RemoteAddr() net.Addr               { return nil }
func (c *recConn) SetDeadline(t time.Time) error      { c.rec("setdeadline", t); return nil }
func (c *recConn) SetReadDeadline(t time.Time) error  { c.rec("setread", t); return c.failArm }
func (c *recConn) SetWriteDeadline(t time.Time) error { c.rec("setwrite", t); return c.failArm }

func c14timed(rep *vh.Report, seed uint64) {
	r := vh.Sub(seed, "c14-timed")
	for run := 0; run < vh.Pick(30, 600); run++ {
		rt := time.Duration(50+r.Intn(500)) * time.Millisecond
		wt := time.Duration(50+r.Intn(500)) * time.Millisecond
		rc := &recConn{}
		tc := timednetconn.New(rt, wt, rc)
		n := 5 + r.Intn(60)
		type op struct {
			read          bool
			before, after time.Time
		}
		var ops []op
		buf := make([]byte, 8)
		for i := 0; i < n; i++ {
			o := op{read: r.Chance(1, 2), before: time.Now()}
			if o.read {
				_, _ = tc.Read(buf)
			} else {
				_, _ = tc.Write(buf)
			}
			o.after = time.Now()
			ops = append(ops, o)
			if r.Chance(1, 6) {
				time.Sleep(time.Duration(r.Intn(3000)) * time.Microsecond) // a deadline armed once would go stale
			}
		}
		_ = tc.Close()
		// every Read / Write must be immediately preceded by its own SetRead/WriteDeadline with a fresh deadline
		oi := 0
		for i, c := range rc.calls {
			if c != "read" && c != "write" {
				continue
			}
			o := ops[oi]
			oi++
			rep.Eval(1)
			rep.Count("timed_calls", 1)
			want, T, what := "setwrite", wt, "w"
			if c == "read" {
				want, T, what = "setread", rt, "r"
			}
			if i == 0 || rc.calls[i-1] != want {
				rep.Violation("ep=timednetconn what=deadline:"+what, "a "+c+" was not immediately preceded by arming its deadline", map[string]interface{}{"call_index": i, "calls": rc.calls[:i+1]})
				break
			}
			d := rc.dl[i-1]
			if d.Before(o.before.Add(T)) || d.After(o.after.Add(T)) {
				rep.Violation("ep=timednetconn what=deadline:"+what,
					fmt.Sprintf("deadline armed for a %s is not now+timeout of that call: off by %v", c, d.Sub(o.before.Add(T))), nil)
				break
			}
		}
		if rc.calls[len(rc.calls)-1] != "close" {
			rep.Violation("ep=timednetconn what=deadline:close", "Close was not forwarded to the wrapped connection", nil)
		}
		rep.Distinct("timed", run, n)
	}
	// a connection on which the deadline cannot be armed: the call must fail with that error instead of
	// reading / writing without a bound
	for run := 0; run < vh.Pick(10, 100); run++ {
		armErr := fmt.Errorf("vf-arm-%d", run)
		rc := &recConn{failArm: armErr}
		tc := timednetconn.New(time.Second, time.Second, rc)
		buf := make([]byte, 8)
		for i := 0; i < 4+r.Intn(10); i++ {
			var err error
			what := "w"
			if r.Chance(1, 2) {
				what = "r"
				_, err = tc.Read(buf)
			} else {
				_, err = tc.Write(buf)
			}
			rep.Eval(1)
			rep.Count("timed_unarmed_calls", 1)
			if !errors.Is(err, armErr) {
				rep.Violation("ep=timednetconn what=deadline:unarmed:"+what, fmt.Sprintf("arming the deadline failed but the call returned %v instead of that error", err), nil)
				break
			}
		}
		for _, c := range rc.calls {
			if c == "read" || c == "write" {
				rep.Violation("ep=timednetconn what=deadline:unarmed", "a "+c+" went to the connection although its deadline could not be armed (an unbounded call)", map[string]interface{}{"calls": rc.calls})
				break
			}
		}
		rep.Distinct("timed-unarmed", run)
	}
}

func TestC14(t *testing.T) {
	rep := vh.NewReport("C14")
	defer rep.Finish(t)
	rep.Rule("fault sequences per endpoint kind with the reconnect period shortened to 40 ms through the verif hook: TCP client (peer closes orderly / by reset / in the middle of a frame after 0..3 frames, " +
		"listener down for 200-450 ms > read timeout so that connection attempts fail, connection attempts that time out against a full backlog-0 accept queue, 2..20 consecutive failures), serial through a fake opener (persistent read error at an item boundary or mid-frame, " +
		"1..4 failed opens in between), custom (one-shot read error), TCP/UDP servers with 3..20 peers connecting, failing and staying; idle expiry on TCP/UDP client and server (frame every T/10 for 6 T, then silence; T = 300 ms); " +
		"pkg/timednetconn alone on a recording net.Conn. Oracles: cause in the close event, strict open/close alternation with fresh channel objects, reconnection after every failure (no-progress criterion), " +
		"back-off lower bound from the delivery of the close event, serial port closed before the next open, one channel per peer labelled with its address, idle closed / active not closed, " +
		"deadline armed afresh within [before+T, after+T] immediately before every Read/Write. distinct = scenario instances")
	rep.RuleAdd("Also: silence that begins in the middle of a frame; a clean disconnect (io.EOF) right after a failed write (cause still EOF); active peers with a stalled writer; slow-failing opens. Connection attempts hanging for the whole dial timeout: next start no earlier than dial timeout + reconnect delay after the previous start.")
	rep.RuleAdd("Rounds 12-15: silence beginning in mid-frame, EOF after a failed write, dial gaps (lower bound), idle expiry with an upper bound of 2T+3 s, resets while the application is busy, UDP clients to closed ports, read failures that call themselves temporary.")
	rep.RuleAdd("Rounds 16-17: a UDP client whose old local port is taken during the reconnect delay; a serial device that goes away for good (node closed while it is away); re-open attempts failing with the real opener's error value; a TCP client whose host name moves to another address.")
	rep.Assume("idle 'not closed while active' is judged only if the harness's own largest send gap stayed below T/2, else inconclusive")
	seed := shardSeed()
	shard, nsh := shardInfo()
	prev := gomavlib.VerifSetReconnectPeriod(c14reconnect)
	defer gomavlib.VerifSetReconnectPeriod(prev)
	gomavlib.VerifSetHook(nil)
	job := 0
	run := func(f func()) {
		job++
		if job%nsh == shard {
			f()
		}
	}
	for i := 0; i < vh.Pick(4, 160); i++ {
		i := i
		run(func() { c14tcpClient(rep, seed, i) })
		run(func() { c14serial(rep, seed, i) })
		run(func() { c14custom(rep, seed, i) })
		run(func() { c14servers(rep, seed, i) })
	}
	for i := 0; i < vh.Pick(1, 10); i++ {
		for _, kind := range []string{"tcp-server", "udp-server", "tcp-client", "udp-client"} {
			i, kind := i, kind
			run(func() { c14idle(rep, seed, i, kind) })
		}
	}
	for i := 0; i < vh.Pick(1, 6); i++ {
		i := i
		run(func() { c14dialTimeout(rep, seed, i) })
	}
	for i := 0; i < vh.Pick(2, 16); i++ {
		i := i
		run(func() { c14resetWhileBusy(rep, seed, i) })
		run(func() { c14udpClientClosedPort(rep, seed, i) })
		run(func() { c14udpClientOldPortTaken(rep, seed, i) })
		run(func() { c14clientNameMoves(rep, seed, i) })
	}
	for i := 0; i < vh.Pick(2, 12); i++ {
		i := i
		run(func() { c14activeStalled(rep, seed, i, i%2 == 1) })
	}
	if shard == 0 {
		c14timed(rep, seed)
	}
	rep.Sample(map[string]interface{}{"tcp-client": "accept, 2 frames, reset; listener down 320 ms; accept, half a frame, close; ...", "idle": "udp-server: frame every 30 ms for 1.8 s, then silence"})
	var _ = io.EOF
}

// c14resetWhileBusy: a TCP peer resets (or closes) its connection while the application is busy and takes no events - the
// channel's reader holds a received frame - and the application writes to the link in that window (so that it is the
// WRITER that meets the dead connection first). The close event that follows carries the transport's cause (reset / EOF),
// not an error that the library's own teardown produced ("use of closed network connection").
func c14resetWhileBusy(rep *vh.Report, seed uint64, idx int) {
	if aborted() {
		return
	}
	port := freeTCPPort()
	node := &gomavlib.Node{Endpoints: []gomavlib.EndpointConf{gomavlib.EndpointTCPServer{Address: fmt.Sprintf("127.0.0.1:%d", port)}}, Dialect: testDialect, OutVersion: gomavlib.V2, OutSystemID: 37,
		HeartbeatDisable: true, IdleTimeout: 5 * time.Second, WriteTimeout: time.Second}
	if err := node.Initialize(); err != nil {
		rep.Inconclusive("C14 reset-while-busy: " + err.Error())
		return
	}
	conn, err := net.Dial("tcp4", fmt.Sprintf("127.0.0.1:%d", port))
	if err != nil {
		safeClose(rep, node)
		return
	}
	// the application: takes the open event and the first frame, then is busy for a while
	gate := make(chan struct{})
	var closeErr error
	var nClose int32
	done := make(chan struct{})
	go func() {
		defer close(done)
		frames := 0
		for e := range node.Events() {
			switch ev := e.(type) {
			case *gomavlib.EventFrame:
				frames++
				if frames == 1 {
					<-gate
				}
			case *gomavlib.EventChannelClose:
				closeErr = ev.Error
				atomic.AddInt32(&nClose, 1)
			}
		}
	}()
	_, _ = conn.Write(uidFrame(1, 0, 2, false, nil, 0))
	_, _ = conn.Write(uidFrame(2, 1, 2, false, nil, 0)) // the reader now holds this one, waiting for the application
	time.Sleep(15 * time.Millisecond)
	reset := idx%2 == 0
	if tc, ok := conn.(*net.TCPConn); ok && reset {
		_ = tc.SetLinger(0) // RST
	}
	conn.Close()
	time.Sleep(10 * time.Millisecond)
	for i := 0; i < 6; i++ {
		_ = node.WriteMessageAll(&MessageVfUid{Uid: uint64(100 + i)})
		time.Sleep(3 * time.Millisecond)
	}
	close(gate)
	waitFor(func() bool { return atomic.LoadInt32(&nClose) > 0 }, func() int64 { return int64(atomic.LoadInt32(&nClose)) }, time.Second)
	if !safeClose(rep, node) {
		return
	}
	<-done
	rep.Eval(1)
	rep.Count("reset_while_busy_runs", 1)
	rep.Distinct("reset-busy", idx)
	switch {
	case atomic.LoadInt32(&nClose) == 0:
		rep.Violation("ep=tcp-server what=no-close", "a TCP peer went away while the application was busy and the node was writing to it: no close event followed", map[string]interface{}{"reset": reset})
	case closeErr == nil:
		rep.Violation("ep=tcp-server what=no-cause", "the close event of a connection that the peer reset / closed carries no error", map[string]interface{}{"reset": reset})
	case errors.Is(closeErr, net.ErrClosed):
		rep.Violation("ep=tcp-server what=no-cause", fmt.Sprintf("the close event carries %q - the trace of the library closing the connection itself - instead of the cause (the peer's reset / end of stream)", closeErr.Error()),
			map[string]interface{}{"reset": reset})
	}
}

// c14udpClientClosedPort: a UDP client endpoint whose remote port is closed (the kernel answers every datagram with "port
// unreachable") while the node keeps writing heartbeats more often than the idle timeout: the channel ends with a cause
// ("connection refused", or the idle timeout at the latest) and the endpoint opens a fresh one, again and again; it does
// not stay open for ever receiving nothing.
func c14udpClientClosedPort(rep *vh.Report, seed uint64, idx int) {
	if aborted() {
		return
	}
	T := 300 * time.Millisecond
	port := freeUDPPort() // nobody listens there
	node := &gomavlib.Node{Endpoints: []gomavlib.EndpointConf{gomavlib.EndpointUDPClient{Address: fmt.Sprintf("127.0.0.1:%d", port)}}, Dialect: testDialect, OutVersion: gomavlib.V2, OutSystemID: 38,
		HeartbeatPeriod: 40 * time.Millisecond, IdleTimeout: T}
	if err := node.Initialize(); err != nil {
		rep.Inconclusive("C14 udp-client closed port: " + err.Error())
		return
	}
	life := watchLife(node)
	start := time.Now()
	waitFor(func() bool { return life.count(false) >= 2 }, func() int64 { return int64(time.Since(start) / (3 * T)) }, 4*T)
	closes := life.count(false)
	evts := life.snapshot()
	if !safeClose(rep, node) {
		return
	}
	<-life.done
	rep.Eval(1)
	rep.Count("udp_client_closed_port_runs", 1)
	rep.Distinct("udp-closed-port", idx)
	if closes < 2 {
		rep.Violation("ep=udp-client what=idle-not-closed", fmt.Sprintf("a UDP client channel whose remote port is closed (nothing is ever received; the node writes every 40 ms, idle timeout %v) was closed %d time(s) in %v: it neither fails nor expires", T, closes, time.Since(start).Round(10*time.Millisecond)), nil)
		return
	}
	for _, e := range evts {
		if !e.Open && e.Err == nil {
			rep.Violation("ep=udp-client what=no-cause", "the close event of a UDP client channel whose remote port is closed carries no error", nil)
			break
		}
	}
}

// c14udpClientOldPortTaken: the channel of a UDP client expires (the server is silent); during the reconnect delay another
// socket takes the local port the old channel had used. The endpoint provides a fresh channel all the same (from whatever
// local port), after the reconnect delay.
func c14udpClientOldPortTaken(rep *vh.Report, seed uint64, idx int) {
	if aborted() {
		return
	}
	T := 250 * time.Millisecond
	srv, err := net.ListenPacket("udp4", "127.0.0.1:0")
	if err != nil {
		rep.Inconclusive("C14 udp-client old port: " + err.Error())
		return
	}
	defer srv.Close()
	var smu sync.Mutex
	var lastSrc net.Addr
	var nDatagrams int64
	go func() {
		buf := make([]byte, 2048)
		for {
			_, a, err := srv.ReadFrom(buf)
			if err != nil {
				return
			}
			smu.Lock()
			lastSrc = a
			smu.Unlock()
			atomic.AddInt64(&nDatagrams, 1)
		}
	}()
	node := &gomavlib.Node{Endpoints: []gomavlib.EndpointConf{gomavlib.EndpointUDPClient{Address: srv.LocalAddr().String()}}, Dialect: testDialect, OutVersion: gomavlib.V2, OutSystemID: 39,
		HeartbeatPeriod: 30 * time.Millisecond, IdleTimeout: T}
	if err := node.Initialize(); err != nil {
		rep.Inconclusive("C14 udp-client old port: " + err.Error())
		return
	}
	life := watchLife(node)
	held := 0
	var squat net.PacketConn
	for round := 0; round < 6 && held == 0; round++ {
		if !waitFor(func() bool { return life.count(true) > round && atomic.LoadInt64(&nDatagrams) > 0 }, life.progress, 2*time.Second) {
			break
		}
		smu.Lock()
		src := lastSrc
		smu.Unlock()
		// the channel expires (nothing is ever received); the moment it is reported closed, somebody else binds its port
		if !waitFor(func() bool { return life.count(false) > round }, life.progress, 4*T+2*time.Second) {
			break
		}
		if pc, err := net.ListenPacket("udp4", src.String()); err == nil {
			squat = pc
			held++
			opensBefore := life.count(true)
			ok := waitFor(func() bool { return life.count(true) > opensBefore }, life.progress, 2*time.Second)
			rep.Count("udp_client_reconnects_with_the_old_local_port_taken", 1)
			if !ok {
				rep.Violation("ep=udp-client what=no-reconnect", fmt.Sprintf("after its channel had expired and another socket had taken the local port %s the old channel used, the UDP client endpoint provided no fresh channel within 2 s (reconnect period %v)", src, c14reconnect), nil)
			}
		} else {
			rep.Count("udp_client_old_port_not_free_at_once", 1)
		}
	}
	if squat != nil {
		squat.Close()
	}
	if !safeClose(rep, node) {
		return
	}
	<-life.done
	rep.Eval(1)
	rep.Distinct("udp-old-port", idx)
	if held == 0 {
		rep.Count("udp_client_old_port_runs_without_a_taken_port", 1)
	}
}

// c14dialTimeout: connection attempts that get NO answer (they time out after ReadTimeout instead of being refused)
// are failed connection attempts too: the client must keep retrying and connect once the server answers again.
func c14dialTimeout(rep *vh.Report, seed uint64, idx int) {
	if aborted() {
		return
	}
	fd, err := syscall.Socket(syscall.AF_INET, syscall.SOCK_STREAM, 0)
	if err != nil {
		rep.Inconclusive("C14 dial-timeout: no raw socket")
		return
	}
	defer syscall.Close(fd)
	_ = syscall.SetsockoptInt(fd, syscall.SOL_SOCKET, syscall.SO_REUSEADDR, 1)
	if err := syscall.Bind(fd, &syscall.SockaddrInet4{Port: 0, Addr: [4]byte{127, 0, 0, 1}}); err != nil {
		rep.Inconclusive("C14 dial-timeout: bind: " + err.Error())
		return
	}
	if err := syscall.Listen(fd, 0); err != nil { // backlog 0: one queued connection, further SYNs are dropped
		rep.Inconclusive("C14 dial-timeout: listen: " + err.Error())
		return
	}
	sa, _ := syscall.Getsockname(fd)
	port := sa.(*syscall.SockaddrInet4).Port
	addr := fmt.Sprintf("127.0.0.1:%d", port)
	// fill the accept queue
	var fillers []net.Conn
	for i := 0; i < 3; i++ {
		c, err := (&net.Dialer{Timeout: 150 * time.Millisecond}).Dial("tcp4", addr)
		if err != nil {
			break // queue full: this dial hung
		}
		fillers = append(fillers, c)
	}
	defer func() {
		for _, c := range fillers {
			c.Close()
		}
	}()
	// sanity: a dial must hang now, otherwise the scenario does not apply on this kernel
	if c, err := (&net.Dialer{Timeout: 150 * time.Millisecond}).Dial("tcp4", addr); err == nil {
		c.Close()
		rep.Inconclusive("C14 dial-timeout: the kernel still accepts connections with a full backlog-0 queue")
		return
	}
	// the instants at which the endpoint starts its connection attempts
	var amu sync.Mutex
	var attempts []time.Time
	gomavlib.VerifSetHook(func(point string, _ *gomavlib.Channel) {
		if point == "client.beforeConnect" {
			amu.Lock()
			attempts = append(attempts, time.Now())
			amu.Unlock()
		}
	})
	defer gomavlib.VerifSetHook(nil)
	const dialTimeout = 200 * time.Millisecond
	node := &gomavlib.Node{Endpoints: []gomavlib.EndpointConf{gomavlib.EndpointTCPClient{Address: addr}}, Dialect: testDialect, OutVersion: gomavlib.V2, OutSystemID: 36,
		HeartbeatDisable: true, ReadTimeout: dialTimeout, IdleTimeout: 3 * time.Second}
	if err := node.Initialize(); err != nil {
		rep.HarnessError(err.Error())
		return
	}
	life := watchLife(node)
	// let at least two attempts time out, then start answering
	time.Sleep(700 * time.Millisecond)
	// every one of these attempts hung for the whole dial timeout and failed; the next one may start only after the reconnect
	// delay has passed SINCE THE FAILURE: two starts are at least (dial timeout + reconnect delay) apart (neither timer
	// can fire early, so load cannot make this bound fail)
	amu.Lock()
	at := append([]time.Time(nil), attempts...)
	amu.Unlock()
	for i := 1; i < len(at); i++ {
		rep.Count("slow_failing_attempt_gaps_checked", 1)
		if gap := at[i].Sub(at[i-1]); gap < dialTimeout+c14reconnect-2*time.Millisecond {
			rep.Violation("ep=tcp-client what=no-delay", fmt.Sprintf("a connection attempt that hung for the dial timeout (%v) and failed was followed by the next attempt %v after its START: less than the reconnect delay (%v) after its failure", dialTimeout, gap, c14reconnect),
				map[string]interface{}{"attempt": i})
			break
		}
	}
	if life.count(true) != 0 {
		rep.Inconclusive("C14 dial-timeout: the node connected although the queue was full")
		if !safeClose(rep, node) {
			return
		}
		<-life.done
		return
	}
	stop := make(chan struct{})
	go func() {
		for {
			select {
			case <-stop:
				return
			default:
			}
			nfd, _, err := syscall.Accept(fd)
			if err != nil {
				return
			}
			defer syscall.Close(nfd)
		}
	}()
	ok := waitFor(func() bool { return life.count(true) >= 1 }, func() int64 { return int64(time.Now().UnixNano() / int64(3*time.Second)) }, 3*time.Second)
	if !ok {
		rep.Violation("ep=tcp-client what=no-reconnect", "after connection attempts that timed out (no answer for ReadTimeout) the client endpoint never connected although the server answers again", nil)
	}
	close(stop)
	if !safeClose(rep, node) {
		return
	}
	<-life.done
	rep.Eval(1)
	rep.Count("dial_timeout_runs", 1)
	rep.Distinct("dialtimeout", idx)
}

// c14activeStalled: a TCP peer that keeps sending but has stopped reading, while the node writes so much that its
// writes run into the write timeout. The channel keeps receiving: it must not be closed (neither by the idle timer nor
// because of the write side).
func c14activeStalled(rep *vh.Report, seed uint64, idx int, asClient bool) {
	if aborted() {
		return
	}
	r := vh.Sub(seed, fmt.Sprintf("c14-active-stalled-%d", idx))
	hookReset(r.U64(), false, false)
	defer gomavlib.VerifSetHook(nil)
	T := 500 * time.Millisecond
	wt := time.Duration(80+r.Intn(60)) * time.Millisecond
	port := freeTCPPort()
	var ep gomavlib.EndpointConf = gomavlib.EndpointTCPServer{Address: fmt.Sprintf("127.0.0.1:%d", port)}
	var ln net.Listener
	if asClient {
		var err error
		ln, err = (&net.ListenConfig{Control: smallRcvBuf}).Listen(context.Background(), "tcp4", fmt.Sprintf("127.0.0.1:%d", port))
		if err != nil {
			rep.Inconclusive("C14 active-stalled: " + err.Error())
			return
		}
		defer ln.Close()
		ep = gomavlib.EndpointTCPClient{Address: fmt.Sprintf("127.0.0.1:%d", port)}
	}
	node := &gomavlib.Node{Endpoints: []gomavlib.EndpointConf{ep}, Dialect: testDialect, OutVersion: gomavlib.V2, OutSystemID: 36, HeartbeatDisable: true,
		WriteTimeout: wt, IdleTimeout: T}
	if err := node.Initialize(); err != nil {
		rep.Inconclusive("C14 active-stalled: " + err.Error())
		return
	}
	life := watchLife(node)
	var conn net.Conn
	var err error
	if asClient {
		conn, err = ln.Accept()
	} else {
		conn, err = (&net.Dialer{Control: smallRcvBuf}).Dial("tcp4", fmt.Sprintf("127.0.0.1:%d", port))
	}
	if err != nil {
		safeClose(rep, node)
		return
	}
	defer conn.Close()
	// the peer sends a frame every T/12 and never reads
	var stop int32
	var maxGap int64
	sdone := make(chan struct{})
	go func() {
		defer close(sdone)
		last := time.Now()
		for i := 0; atomic.LoadInt32(&stop) == 0; i++ {
			if _, err := conn.Write(uidFrame(uint64(i+1), byte(i), 2, false, nil, 0)); err != nil {
				return
			}
			time.Sleep(T / 12)
			now := time.Now()
			if g := int64(now.Sub(last)); g > atomic.LoadInt64(&maxGap) {
				atomic.StoreInt64(&maxGap, g)
			}
			last = now
		}
	}()
	if !waitFor(func() bool { return life.count(true) >= 1 }, life.progress, 2*time.Second) {
		atomic.StoreInt32(&stop, 1)
		<-sdone
		rep.Inconclusive("C14 active-stalled: the channel did not open")
		safeClose(rep, node)
		return
	}
	var ch *gomavlib.Channel
	for _, e := range life.snapshot() {
		if e.Open {
			ch = e.Ch
		}
	}
	// flood until writes have been held up for the write timeout, then for longer than the idle timeout on top
	big := make([]byte, 250)
	for i := range big {
		big[i] = byte(1 + i%250)
	}
	sp := &ref.FrameSpec{Version: 2, Sys: 9, Comp: 1, MsgID: 5000, Payload: big}
	ref.Seal(sp, uidLayout.CRCExtra, nil)
	lastDeq, heldUp := -1, 0
	lastDeqAt, firstHeld := time.Now(), time.Time{}
	start := time.Now()
	for time.Since(start) < 8*time.Second && life.count(false) == 0 {
		for k := 0; k < 50; k++ {
			_ = node.WriteFrameTo(ch, &frame.V2Frame{SystemID: 9, ComponentID: 1, Checksum: sp.Checksum, Message: &message.MessageRaw{ID: 5000, Payload: big}})
		}
		time.Sleep(time.Millisecond)
		deq := hookHits()["ch.writer.dequeue"]
		if deq != lastDeq || ch.VerifBacklog() == 0 {
			lastDeq, lastDeqAt = deq, time.Now()
		} else if time.Since(lastDeqAt) > wt*9/10 {
			heldUp++
			if firstHeld.IsZero() {
				firstHeld = time.Now()
			}
			lastDeqAt = time.Now()
		}
		if heldUp >= 1 && time.Since(firstHeld) > T+3*wt {
			break
		}
	}
	atomic.StoreInt32(&stop, 1)
	<-sdone
	gap := time.Duration(atomic.LoadInt64(&maxGap))
	rep.Count("active_stalled_writes_held_up", heldUp)
	switch {
	case heldUp == 0:
		rep.Inconclusive("C14 active-stalled: 8 s of output without one write held up for the write timeout")
	case life.count(false) > 0 && gap < T/2:
		var cerr error
		for _, e := range life.snapshot() {
			if !e.Open {
				cerr = e.Err
			}
		}
		rep.Violation("ep=tcp what=closed-while-active", fmt.Sprintf("a channel whose peer sent a frame every %v (largest gap %v, idle timeout %v) was closed while the node's writes ran into the write timeout (%v): %v", T/12, gap, T, wt, cerr),
			map[string]interface{}{"as_client": asClient, "writes_held_up": heldUp})
	case life.count(false) > 0:
		rep.Inconclusive(fmt.Sprintf("C14 active-stalled: the harness's own send gap reached %v (>= T/2), activity verdict not taken", gap))
	default:
		rep.Count("active_stalled_channels_kept_open", 1)
		// the peer has gone silent now (and still does not read): while the node's writes keep running into their timeout,
		// the idle timeout must still end the channel
		silentSince := time.Now()
		limit := T + 4*wt + 2*time.Second
		for time.Since(silentSince) < limit && life.count(false) == 0 {
			for k := 0; k < 50; k++ {
				_ = node.WriteFrameTo(ch, &frame.V2Frame{SystemID: 9, ComponentID: 1, Checksum: sp.Checksum, Message: &message.MessageRaw{ID: 5000, Payload: big}})
			}
			time.Sleep(time.Millisecond)
		}
		if life.count(false) == 0 {
			rep.Violation("ep=tcp what=no-idle-close", fmt.Sprintf("a peer that has sent nothing for %v (idle timeout %v) while the node's writes to it time out (write timeout %v) still has its channel", time.Since(silentSince).Round(10*time.Millisecond), T, wt),
				map[string]interface{}{"as_client": asClient, "writes_held_up": heldUp})
		} else {
			rep.Count("silent_stalled_channels_closed_by_idle_expiry", 1)
		}
	}
	if !safeClose(rep, node) {
		return
	}
	<-life.done
	rep.Eval(1)
	rep.Distinct("active-stalled", idx, asClient)
}

// fakeDNS answers A queries for any name with the address it currently holds (AAAA: no records). It is plugged into
// net.DefaultResolver through Dial: every query gets a pipe of its own, with DNS-over-TCP framing (two length bytes).
type fakeDNS struct {
	mu      sync.Mutex
	ip      [4]byte
	queries int
}

func (d *fakeDNS) set(ip [4]byte) { d.mu.Lock(); d.ip = ip; d.mu.Unlock() }

func (d *fakeDNS) dial(ctx context.Context, network, address string) (net.Conn, error) {
	c1, c2 := net.Pipe()
	go func() {
		defer c2.Close()
		for {
			var l [2]byte
			if _, err := io.ReadFull(c2, l[:]); err != nil {
				return
			}
			q := make([]byte, int(l[0])<<8|int(l[1]))
			if _, err := io.ReadFull(c2, q); err != nil || len(q) < 17 {
				return
			}
			// question: name, type, class
			i := 12
			for i < len(q) && q[i] != 0 {
				i += int(q[i]) + 1
			}
			if i+5 > len(q) {
				return
			}
			qend := i + 5
			qtype := int(q[i+1])<<8 | int(q[i+2])
			resp := append([]byte{q[0], q[1], 0x81, 0x80, 0, 1, 0, 0, 0, 0, 0, 0}, q[12:qend]...)
			if qtype == 1 {
				d.mu.Lock()
				ip := d.ip
				d.queries++
				d.mu.Unlock()
				resp[7] = 1
				resp = append(resp, 0xC0, 0x0C, 0, 1, 0, 1, 0, 0, 0, 0, 0, 4, ip[0], ip[1], ip[2], ip[3])
			}
			out := append([]byte{byte(len(resp) >> 8), byte(len(resp))}, resp...)
			if _, err := c2.Write(out); err != nil {
				return
			}
		}
	}()
	return c1, nil
}

// c14clientNameMoves: a TCP client addressed by host name. After its first channel the name resolves to another address
// (the peer has moved: DHCP, fail-over) and the old address refuses connections. The endpoint dials what is configured -
// the name - and opens a fresh channel to the new address after the reconnect delay.
func c14clientNameMoves(rep *vh.Report, seed uint64, idx int) {
	if aborted() {
		return
	}
	var l1, l2 net.Listener
	var port int
	for try := 0; try < 20 && l2 == nil; try++ {
		port = freeTCPPort()
		a, err := net.Listen("tcp4", fmt.Sprintf("127.0.0.1:%d", port))
		if err != nil {
			continue
		}
		b, err := net.Listen("tcp4", fmt.Sprintf("127.0.0.2:%d", port))
		if err != nil {
			a.Close()
			continue
		}
		l1, l2 = a, b
	}
	if l2 == nil {
		rep.Inconclusive("C14 name moves: no port free on both loopback addresses")
		return
	}
	defer l2.Close()
	dns := &fakeDNS{ip: [4]byte{127, 0, 0, 1}}
	old := net.DefaultResolver
	net.DefaultResolver = &net.Resolver{PreferGo: true, Dial: dns.dial}
	defer func() { net.DefaultResolver = old }()
	accepted := make(chan string, 8)
	for _, l := range []net.Listener{l1, l2} {
		l := l
		go func() {
			for {
				c, err := l.Accept()
				if err != nil {
					return
				}
				accepted <- c.LocalAddr().String()
				go func() { _, _ = io.Copy(io.Discard, c); c.Close() }()
				if l == l1 {
					// the peer at the first address takes one connection, then goes away for good
					time.Sleep(100 * time.Millisecond)
					c.Close()
					l1.Close()
					return
				}
			}
		}()
	}
	node := &gomavlib.Node{Endpoints: []gomavlib.EndpointConf{gomavlib.EndpointTCPClient{Address: fmt.Sprintf("verif-moving-%d.example:%d", idx, port)}}, Dialect: testDialect,
		OutVersion: gomavlib.V2, OutSystemID: 41, HeartbeatDisable: true}
	if err := node.Initialize(); err != nil {
		l1.Close()
		rep.Observe("C14 name moves: Initialize refused a client endpoint addressed by name: " + err.Error())
		return
	}
	life := watchLife(node)
	first := ""
	select {
	case first = <-accepted:
	case <-time.After(3 * time.Second):
	}
	if first == "" {
		l1.Close()
		rep.Inconclusive("C14 name moves: the client never connected to the address its name resolved to")
		safeClose(rep, node)
		<-life.done
		return
	}
	// the name now points elsewhere
	dns.set([4]byte{127, 0, 0, 2})
	second := ""
	select {
	case second = <-accepted:
	case <-time.After(4 * time.Second):
	}
	waitFor(func() bool { return life.count(true) >= 2 }, life.progress, time.Second)
	opens := life.count(true)
	if !safeClose(rep, node) {
		return
	}
	<-life.done
	rep.Eval(1)
	rep.Count("tcp_clients_whose_name_moved_to_another_address", 1)
	rep.Distinct("name-moves", idx)
	if second == "" || opens < 2 {
		dns.mu.Lock()
		q := dns.queries
		dns.mu.Unlock()
		rep.Violation("ep=tcp-client what=no-reconnect", fmt.Sprintf("a TCP client addressed by name connected to %s; then the name resolved to 127.0.0.2 and the old address refused connections: no fresh channel within 4 s (reconnect period %v; %d channels opened, %d address queries answered)", first, c14reconnect, opens, q), nil)
	}
}
