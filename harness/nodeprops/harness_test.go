package nodeprops

import (
	"bytes"
	"fmt"
	"os"
	"reflect"
	"runtime"
	"sort"
	"strconv"
	"strings"
	"sync"
	"sync/atomic"
	"time"

	"github.com/bluenviron/gomavlib/v3"
	"github.com/bluenviron/gomavlib/v3/pkg/dialect"
	"github.com/bluenviron/gomavlib/v3/pkg/dialects/common"
	"github.com/bluenviron/gomavlib/v3/pkg/frame"
	"github.com/bluenviron/gomavlib/v3/pkg/message"

	"verifharness/fake"
	"verifharness/ref"
	"verifharness/vh"
)

// ---------------------------------------------------------------------------------------------
// messages with unique ids

// MessageVfUid carries a unique 64-bit id so that histories are unambiguous.
type MessageVfUid struct {
	Uid  uint64
	Kind uint8
	Pad  [3]uint8
}

// GetID implements message.Message.
func (*MessageVfUid) GetID() uint32 { return 5000 }

// MessageVfLow is the same with a v1-compatible id, a payload that may end in a zero byte and an extension field.
type MessageVfLow struct {
	Uid  uint64
	Kind uint8
	Ext  uint8 `mavext:"true"`
}

// GetID implements message.Message.
func (*MessageVfLow) GetID() uint32 { return 200 }

var (
	uidLayout, lowLayout, hbLayout, rdsLayout *ref.Layout
	testDialect                               *dialect.Dialect
)

func init() {
	var err error
	if uidLayout, err = ref.LayoutOf(reflect.TypeOf(MessageVfUid{})); err != nil {
		panic(err)
	}
	if lowLayout, err = ref.LayoutOf(reflect.TypeOf(MessageVfLow{})); err != nil {
		panic(err)
	}
	if hbLayout, err = ref.LayoutOf(reflect.TypeOf(common.MessageHeartbeat{})); err != nil {
		panic(err)
	}
	if rdsLayout, err = ref.LayoutOf(reflect.TypeOf(common.MessageRequestDataStream{})); err != nil {
		panic(err)
	}
	testDialect = &dialect.Dialect{Version: 3, Messages: []message.Message{
		&common.MessageHeartbeat{}, &common.MessageRequestDataStream{}, &MessageVfUid{}, &MessageVfLow{},
	}}
}

func crcExtraOf(id uint32) (byte, bool) {
	switch id {
	case 5000:
		return uidLayout.CRCExtra, true
	case 200:
		return lowLayout.CRCExtra, true
	case 0:
		return hbLayout.CRCExtra, true
	case 66:
		return rdsLayout.CRCExtra, true
	}
	return 0, false
}

// uidFrame builds the wire image of a valid frame carrying uid (v2 unless v1 is set).
func uidFrame(uid uint64, seq byte, sys byte, v1 bool, keyRaw []byte, ts uint64) []byte {
	s := &ref.FrameSpec{Version: 2, Seq: seq, Sys: sys, Comp: 1, MsgID: 5000}
	lay := uidLayout
	var val interface{} = &MessageVfUid{Uid: uid, Kind: 1, Pad: [3]uint8{1, 2, 3}}
	if uid&1 == 0 {
		val = &MessageVfUid{Uid: uid, Kind: 1} // zero tail: truncated on the wire, zero-extended by the (shared) decoder
	}
	if v1 {
		s.Version = 1
		s.MsgID = 200
		lay = lowLayout
		val = &MessageVfLow{Uid: uid, Kind: 1}
	}
	s.Payload = lay.Encode(reflect.ValueOf(val), !v1)
	if keyRaw != nil && !v1 {
		s.Signed = true
		s.LinkID = 1
		s.Timestamp = ts
	}
	ref.Seal(s, lay.CRCExtra, keyRaw)
	return ref.Serialize(s)
}

// uidOf extracts the unique id of a received message, if it carries one.
// bigUidFrame is a v2 frame of message 5000 with a 250-byte payload: the uid, then non-zero bytes a receiver of the known
// definition ignores as unknown trailing (extension) bytes. 262 bytes on the wire.
func bigUidFrame(uid uint64, seq byte, sys byte) []byte {
	p := make([]byte, 250)
	for i := range p {
		p[i] = byte(1 + i%200)
	}
	for i := 0; i < 8; i++ {
		p[i] = byte(uid >> (8 * uint(i)))
	}
	p[8], p[9], p[10], p[11] = 1, 1, 2, 3 // Kind, Pad
	s := &ref.FrameSpec{Version: 2, Seq: seq, Sys: sys, Comp: 1, MsgID: 5000, Payload: p}
	ref.Seal(s, uidLayout.CRCExtra, nil)
	return ref.Serialize(s)
}

// uidFrameUntruncated is a v2 frame of message 5000 whose sender did not strip the trailing zero bytes of the payload
// (legal); damaged: with a checksum that is wrong for it.
func uidFrameUntruncated(uid uint64, seq byte, sys byte, damaged bool) []byte {
	val := &MessageVfUid{Uid: uid, Kind: 1}
	s := &ref.FrameSpec{Version: 2, Seq: seq, Sys: sys, Comp: 1, MsgID: 5000, Payload: uidLayout.EncodeFull(reflect.ValueOf(val), true)}
	ref.Seal(s, uidLayout.CRCExtra, nil)
	if damaged {
		s.Checksum ^= 0x0180
	}
	return ref.Serialize(s)
}

func uidOf(m message.Message) (uint64, bool) {
	switch x := m.(type) {
	case *MessageVfUid:
		return x.Uid, true
	case *MessageVfLow:
		return x.Uid, true
	case *message.MessageRaw:
		if (x.ID == 5000 || x.ID == 200) && len(x.Payload) >= 1 {
			var b [8]byte
			copy(b[:], x.Payload)
			var u uint64
			for i := 7; i >= 0; i-- {
				u = u<<8 | uint64(b[i])
			}
			return u, true
		}
	}
	return 0, false
}

// uidOfWire extracts the uid from a frame parsed by the reference.
func uidOfWire(f *ref.FrameSpec) (uint64, bool) {
	if f.MsgID != 5000 && f.MsgID != 200 {
		return 0, false
	}
	var b [8]byte
	copy(b[:], f.Payload)
	var u uint64
	for i := 7; i >= 0; i-- {
		u = u<<8 | uint64(b[i])
	}
	return u, true
}

// ---------------------------------------------------------------------------------------------
// hook: trace recording, schedule perturbation, fault placement

type hookState struct {
	mu       sync.Mutex
	hits     map[string]int
	trace    []string
	traceOn  bool
	seed     uint64
	perturb  bool
	trapPt   string // when this point is hit for the trapK-th time, signal and hold
	trapK    int
	trapHit  chan struct{}
	trapGo   chan struct{}
	trapDone bool
	total    int64
}

var hook = &hookState{hits: map[string]int{}}

func hookFn(point string, ch *gomavlib.Channel) {
	h := hook
	h.mu.Lock()
	h.hits[point]++
	n := h.hits[point]
	atomic.AddInt64(&h.total, 1)
	if h.traceOn && len(h.trace) < 4000 {
		h.trace = append(h.trace, point)
	}
	trap := !h.trapDone && h.trapPt == point && n == h.trapK
	var hit, goon chan struct{}
	if trap {
		h.trapDone = true
		hit, goon = h.trapHit, h.trapGo
	}
	perturb, seed := h.perturb, h.seed
	h.mu.Unlock()
	if trap {
		close(hit)
		<-goon
		return
	}
	if perturb {
		x := seed
		for i := 0; i < len(point); i++ {
			x = (x ^ uint64(point[i])) * 0x100000001B3
		}
		x = (x ^ uint64(n)) * 0x9E3779B97F4A7C15
		x ^= x >> 29
		switch x % 40 {
		case 0, 1, 2, 3:
			runtime.Gosched()
		case 4:
			time.Sleep(time.Duration(20+x>>8%200) * time.Microsecond)
		case 5:
			time.Sleep(time.Duration(200+x>>8%800) * time.Microsecond)
		}
	}
}

// hookReset prepares the hook for a scenario.
// hookOff != 0: scenarios run without any hook installed. The hook function takes a process-wide mutex, and a mutex
// orders the goroutines that pass through it: under the race detector that hides races between library goroutines
// (reader of one channel / writer of another) that hit hook points in between. C15 runs most of its workloads this way.
var hookOff int32

func hookReset(seed uint64, perturb, trace bool) {
	h := hook
	if atomic.LoadInt32(&hookOff) != 0 {
		h.mu.Lock()
		h.hits = map[string]int{}
		h.trace = nil
		h.trapPt, h.trapK, h.trapDone = "", 0, true
		h.mu.Unlock()
		gomavlib.VerifSetHook(nil)
		return
	}
	h.mu.Lock()
	h.hits = map[string]int{}
	h.trace = nil
	h.traceOn = trace
	h.seed = seed
	h.perturb = perturb
	h.trapPt, h.trapK, h.trapDone = "", 0, true
	h.mu.Unlock()
	gomavlib.VerifSetHook(hookFn)
}

// hookTrap arms a trap: the k-th hit of point holds its goroutine until released.
func hookTrap(point string, k int) (hit chan struct{}, release func()) {
	h := hook
	h.mu.Lock()
	h.trapPt, h.trapK, h.trapDone = point, k, false
	h.trapHit = make(chan struct{})
	h.trapGo = make(chan struct{})
	hit = h.trapHit
	goon := h.trapGo
	h.mu.Unlock()
	var once sync.Once
	return hit, func() { once.Do(func() { close(goon) }) }
}

// hookHits returns a copy of the per-point hit counters.
func hookHits() map[string]int {
	h := hook
	h.mu.Lock()
	defer h.mu.Unlock()
	out := map[string]int{}
	for k, v := range h.hits {
		out[k] = v
	}
	return out
}

// hookSignature hashes the recorded trace (interleaving signature).
func hookSignature() string {
	h := hook
	h.mu.Lock()
	defer h.mu.Unlock()
	return vh.Short8([]byte(strings.Join(h.trace, ",")))
}

// ---------------------------------------------------------------------------------------------
// event consumer with the per-channel automaton (DESIGN §8.2)

type evRec struct {
	N     int64
	T     int64
	Type  string // open close frame parse streamreq
	Ch    *gomavlib.Channel
	ChIdx int
	UID   uint64
	HasID bool
	Err   error
	Sys   byte
	Comp  byte
	MsgID uint32
	Frame frame.Frame
}

type chanInfo struct {
	Idx      int
	Ch       *gomavlib.Channel
	Label    string
	Tr       *fake.Transport // custom endpoints
	Session  int             // index of this channel among the channels of the same transport / label
	State    int             // 0 init 1 open 2 closed
	OpenN    int64
	CloseN   int64
	CloseErr error
	UIDs     []uint64
	Frames   int
	Parse    int
}

type consumer struct {
	rep    *vh.Report
	prop   string
	epKind string
	node   *gomavlib.Node

	mu          sync.Mutex
	chans       map[*gomavlib.Channel]*chanInfo
	order       []*chanInfo
	perTr       map[*fake.Transport]int
	events      int64
	counts      map[string]int
	log         []evRec
	keep        bool // keep the full event log
	noAutomaton bool

	pace     func(n int64)                // called before handling each event (slow / bursty consumers)
	onEvent  func(e *evRec, ci *chanInfo) // scenario-specific reaction, runs in the consumer goroutine
	done     chan struct{}
	stopped  int32
	openCond *sync.Cond
}

func newConsumer(rep *vh.Report, prop, epKind string, node *gomavlib.Node) *consumer {
	c := &consumer{rep: rep, prop: prop, epKind: epKind, node: node, chans: map[*gomavlib.Channel]*chanInfo{}, perTr: map[*fake.Transport]int{},
		counts: map[string]int{}, done: make(chan struct{})}
	c.openCond = sync.NewCond(&c.mu)
	return c
}

func (c *consumer) violate(what, msg string, e *evRec) {
	if c.noAutomaton {
		return // the node is (about to be) closed in this scenario: events may legitimately be dropped
	}
	key := fmt.Sprintf("what=%s ep=%s", what, c.epKind)
	c.rep.Violation(key, msg, map[string]interface{}{"event_n": e.N, "event": e.Type, "channel": fmt.Sprint(e.Ch), "uid": e.UID})
}

// handle runs the automaton for one event.
func (c *consumer) handle(evt gomavlib.Event) {
	e := evRec{N: fake.NextSeq(), T: fake.Now()}
	switch ev := evt.(type) {
	case *gomavlib.EventChannelOpen:
		e.Type, e.Ch = "open", ev.Channel
	case *gomavlib.EventChannelClose:
		e.Type, e.Ch, e.Err = "close", ev.Channel, ev.Error
	case *gomavlib.EventFrame:
		e.Type, e.Ch, e.Frame = "frame", ev.Channel, ev.Frame
		e.Sys, e.Comp = ev.SystemID(), ev.ComponentID()
		e.MsgID = ev.Message().GetID()
		e.UID, e.HasID = uidOf(ev.Message())
	case *gomavlib.EventParseError:
		e.Type, e.Ch, e.Err = "parse", ev.Channel, ev.Error
	case *gomavlib.EventStreamRequested:
		e.Type, e.Ch, e.Sys, e.Comp = "streamreq", ev.Channel, ev.SystemID, ev.ComponentID
	default:
		c.rep.Violation("what=unknown-event ep="+c.epKind, fmt.Sprintf("unknown event type %T", evt), nil)
		return
	}
	c.mu.Lock()
	c.events++
	c.counts[e.Type]++
	ci := c.chans[e.Ch]
	if ci == nil {
		ci = &chanInfo{Idx: len(c.order), Ch: e.Ch}
		if e.Ch != nil {
			ci.Label = e.Ch.String()
			if cc, ok := e.Ch.Endpoint().Conf().(gomavlib.EndpointCustom); ok {
				if tr, ok := cc.ReadWriteCloser.(*fake.Transport); ok {
					ci.Tr = tr
					ci.Session = c.perTr[tr]
					c.perTr[tr]++
				}
			}
		}
		c.chans[e.Ch] = ci
		c.order = append(c.order, ci)
	}
	e.ChIdx = ci.Idx
	switch ci.State {
	case 0:
		if e.Type == "open" {
			ci.State, ci.OpenN = 1, e.N
		} else {
			c.violate("before-open", "an event of a channel arrived before its open event", &e)
		}
	case 1:
		switch e.Type {
		case "open":
			c.violate("second-open", "a second open event for the same channel", &e)
		case "close":
			ci.State, ci.CloseN, ci.CloseErr = 2, e.N, e.Err
		case "frame":
			ci.Frames++
			if e.HasID {
				ci.UIDs = append(ci.UIDs, e.UID)
			}
		case "parse":
			ci.Parse++
		}
	case 2:
		c.violate("after-close", "an event of a channel arrived after its close event ("+e.Type+")", &e)
	}
	if c.keep {
		c.log = append(c.log, e)
	}
	c.openCond.Broadcast()
	cb := c.onEvent
	c.mu.Unlock()
	if cb != nil {
		cb(&e, ci)
	}
}

// run consumes events until the event channel is closed.
func (c *consumer) run() {
	defer close(c.done)
	var n int64
	for evt := range c.node.Events() {
		n++
		c.mu.Lock()
		pace := c.pace
		c.mu.Unlock()
		if pace != nil {
			pace(n)
		}
		c.handle(evt)
	}
}

func (c *consumer) start() { go c.run() }

// nEvents returns the number of events handled so far.
func (c *consumer) nEvents() int64 {
	c.mu.Lock()
	defer c.mu.Unlock()
	return c.events
}

// openChannels returns the channels currently open, in order of their open events.
func (c *consumer) openChannels() []*chanInfo {
	c.mu.Lock()
	defer c.mu.Unlock()
	var out []*chanInfo
	for _, ci := range c.order {
		if ci.State == 1 {
			out = append(out, ci)
		}
	}
	return out
}

func (c *consumer) allChannels() []*chanInfo {
	c.mu.Lock()
	defer c.mu.Unlock()
	return append([]*chanInfo(nil), c.order...)
}

// snapshot returns a copy of a channel's info.
func (c *consumer) snapshot(ci *chanInfo) chanInfo {
	c.mu.Lock()
	defer c.mu.Unlock()
	cp := *ci
	cp.UIDs = append([]uint64(nil), ci.UIDs...)
	return cp
}

// waitOpen waits until n channels are open (no-progress criterion with quiet period).
func (c *consumer) waitOpen(n int, quiet time.Duration) bool {
	return waitFor(func() bool { return len(c.openChannels()) >= n }, func() int64 { return c.nEvents() }, quiet)
}

// waitFor polls cond; it gives up when progress() has not changed over quiet.
func waitFor(cond func() bool, progress func() int64, quiet time.Duration) bool {
	last := int64(-1 << 62)
	lastChange := time.Now()
	hard := time.Now().Add(20*time.Second + 10*quiet) // progress without end (e.g. an open/close storm) is not waited for forever
	for {
		if cond() {
			return true
		}
		if time.Now().After(hard) {
			return false
		}
		p := progress()
		if p != last {
			last, lastChange = p, time.Now()
		} else if time.Since(lastChange) > quiet {
			return cond()
		}
		time.Sleep(150 * time.Microsecond)
	}
}

// ---------------------------------------------------------------------------------------------
// goroutine monitor

// libGoroutines returns the stacks of goroutines that have a gomavlib or pion frame.
func libGoroutines() []string {
	buf := make([]byte, 1<<20)
	for {
		n := runtime.Stack(buf, true)
		if n < len(buf) {
			buf = buf[:n]
			break
		}
		buf = make([]byte, 2*len(buf))
	}
	var out []string
	for _, g := range strings.Split(string(buf), "\n\n") {
		if strings.Contains(g, "github.com/bluenviron/gomavlib/v3.") || strings.Contains(g, "github.com/bluenviron/gomavlib/v3/pkg/") ||
			strings.Contains(g, "pion/transport") {
			// the harness's own frames calling into the library (e.g. a test goroutine inside Node.Close) are kept:
			// the caller decides what to expect
			out = append(out, g)
		}
	}
	return out
}

// topFrame returns the first function of a goroutine stack.
func topFrame(g string) string {
	lines := strings.Split(g, "\n")
	for i := 1; i < len(lines); i++ {
		l := strings.TrimSpace(lines[i])
		if l != "" && !strings.HasPrefix(l, "/") && !strings.HasPrefix(l, "runtime.") && !strings.HasPrefix(l, "sync.") &&
			!strings.HasPrefix(l, "internal/") && !strings.HasPrefix(l, "time.") && !strings.HasPrefix(l, "net.") && !strings.HasPrefix(l, "os.") &&
			!strings.HasPrefix(l, "syscall.") && !strings.HasPrefix(l, "io.") && !strings.HasPrefix(l, "bufio.") {
			if i := strings.Index(l, "("); i > 0 {
				l = l[:i]
			}
			return l
		}
	}
	return "?"
}

// goroutineHeader strips the volatile parts of a stack (durations, addresses) for comparison.
func goroutineShape(g string) string {
	var sb strings.Builder
	for _, l := range strings.Split(g, "\n") {
		if strings.HasPrefix(l, "goroutine ") {
			if i := strings.Index(l, "["); i > 0 {
				st := l[i:]
				if j := strings.Index(st, ","); j > 0 {
					st = st[:j] + "]"
				}
				sb.WriteString(st)
			}
			continue
		}
		if strings.HasPrefix(strings.TrimSpace(l), "/") {
			continue
		}
		if i := strings.Index(l, "("); i > 0 {
			l = l[:i]
		}
		sb.WriteString(l)
		sb.WriteByte('\n')
	}
	return sb.String()
}

// waitNoLibGoroutines waits for library goroutines to end; returns the survivors once two
// samples taken `settle` apart show the same parked goroutines.
func waitNoLibGoroutines(exclude func(g string) bool, settle time.Duration) []string {
	var prev string
	deadline := time.Now().Add(20 * settle)
	for {
		var left []string
		for _, g := range libGoroutines() {
			if exclude != nil && exclude(g) {
				continue
			}
			left = append(left, g)
		}
		if len(left) == 0 {
			return nil
		}
		shapes := make([]string, len(left))
		for i, g := range left {
			shapes[i] = goroutineShape(g)
		}
		sort.Strings(shapes)
		cur := strings.Join(shapes, "\n--\n")
		if cur == prev || time.Now().After(deadline) {
			return left
		}
		prev = cur
		time.Sleep(settle)
	}
}

// ---------------------------------------------------------------------------------------------
// misc

func shardInfo() (int, int) {
	s, _ := strconv.Atoi(os.Getenv("VERIF_SHARD"))
	n, _ := strconv.Atoi(os.Getenv("VERIF_NSHARDS"))
	if n <= 0 {
		n = 1
	}
	return s, n
}

// shardSeed derives the seed of this shard.
func shardSeed() uint64 {
	s, _ := shardInfo()
	return vh.Sub(vh.Seed(), fmt.Sprintf("shard-%d", s)).U64()
}

// parseCapture tokenises a transport capture into frames with the reference.
func parseCapture(writes []fake.WriteRec) (frames []*ref.FrameSpec, wires [][]byte, recs []fake.WriteRec, torn string) {
	for _, w := range writes {
		if w.Failed {
			continue
		}
		f, n, st := ref.ParseAt(w.Data, 0)
		if st != ref.ParseOK || n != len(w.Data) {
			return frames, wires, recs, fmt.Sprintf("transport write %d is not exactly one whole frame: %s", w.Seq, vh.Hex(w.Data[:minInt(len(w.Data), 48)]))
		}
		if crc, ok := crcExtraOf(f.MsgID); ok && f.Checksum != ref.ChecksumOfWire(w.Data, crc) {
			return frames, wires, recs, fmt.Sprintf("frame with a wrong checksum on the wire: %s", vh.Hex(w.Data))
		}
		frames = append(frames, f)
		wires = append(wires, w.Data)
		recs = append(recs, w)
	}
	return frames, wires, recs, ""
}

func minInt(a, b int) int {
	if a < b {
		return a
	}
	return b
}

var _ = bytes.Equal

type gomavlibFrameV2 = frame.V2Frame

var hbSeq uint32

// hbFrame builds a valid v2 HEARTBEAT frame from (sys, comp) with the given autopilot type.
func hbFrame(sys, comp, autopilot byte, custom uint32) []byte {
	hb := &common.MessageHeartbeat{Type: 2, Autopilot: common.MAV_AUTOPILOT(autopilot), BaseMode: 0, CustomMode: custom, SystemStatus: 4, MavlinkVersion: 3}
	s := &ref.FrameSpec{Version: 2, Seq: byte(atomic.AddUint32(&hbSeq, 1)), Sys: sys, Comp: comp, MsgID: 0}
	s.Payload = hbLayout.Encode(reflect.ValueOf(hb), true)
	ref.Seal(s, hbLayout.CRCExtra, nil)
	return ref.Serialize(s)
}

var closeStuck int32

// safeClose calls Node.Close under a watchdog. A Close that does not return is property C12's business: the
// scenario that runs into it records an inconclusive verdict and the remaining scenarios of this child are skipped
// (the stuck node keeps its goroutines and would distort them).
func safeClose(rep *vh.Report, node *gomavlib.Node) bool {
	done := make(chan struct{})
	go func() { node.Close(); close(done) }()
	select {
	case <-done:
		return true
	case <-time.After(25 * time.Second):
		atomic.StoreInt32(&closeStuck, 1)
		rep.Inconclusive("Node.Close did not return within 25 s in a scenario of this property (all timers <= 1 s): see property C12; remaining scenarios skipped")
		return false
	}
}

// aborted reports whether an earlier scenario left a stuck node behind.
func aborted() bool { return atomic.LoadInt32(&closeStuck) != 0 || atomic.LoadInt32(&writeStuck) != 0 }

// writeStuck is set when a Write* call of the node was seen not to return (reported as a violation where it was seen): the
// scenarios that follow would sit in the same call for ever, so they are skipped.
var writeStuck int32
