package nodeprops

import (
	"context"
	"errors"
	"fmt"
	"io"
	"net"
	"os"
	"sort"
	"strconv"
	"strings"
	"sync"
	"sync/atomic"
	"testing"
	"time"

	"github.com/bluenviron/gomavlib/v3"
	"github.com/bluenviron/gomavlib/v3/pkg/dialect"
	"github.com/bluenviron/gomavlib/v3/pkg/message"

	"go.bug.st/serial"

	"verifharness/fake"
	"verifharness/vh"
)

// C12 — Close always terminates and releases everything (fault enumeration over hook points).

type c12env struct {
	kind     string
	node     *gomavlib.Node
	customs  []*fake.Transport
	serials  *serialFake
	tcpPorts []int
	udpPorts []int
	mu       sync.Mutex
	peers    []net.Conn     // harness-side connections to / from the node
	lns      []net.Listener // harness-side listeners (targets of client endpoints)
	stop     int32
	wg       sync.WaitGroup
}

// serialFake is installed through VerifSetSerialOpenFunc.
type serialCall struct {
	start, end time.Time
	ok         bool
}

type serialFake struct {
	mu    sync.Mutex
	opens int
	failN int // fail the next n opens
	// slowFail: a failing open takes this long to fail (a wedged adapter, a slow driver)
	slowFail time.Duration
	calls    []serialCall
	asPort   bool // hand out serial.Port values instead of plain io.ReadWriteClosers
	ports    []*fake.Transport
	onOpen   func(n int, tr *fake.Transport)
	log      []string
	errOpen  error
}

// fakePort is a fake.Transport with the control surface of a serial port.
type fakePort struct {
	*fake.Transport
	failControl bool
}

var errPortControl = errors.New("serial: device did not answer the control request")

func (p *fakePort) ctl() error {
	if p.failControl {
		return errPortControl
	}
	return nil
}
func (p *fakePort) SetMode(*serial.Mode) error         { return p.ctl() }
func (p *fakePort) Drain() error                       { return p.ctl() }
func (p *fakePort) ResetInputBuffer() error            { return p.ctl() }
func (p *fakePort) ResetOutputBuffer() error           { return p.ctl() }
func (p *fakePort) SetDTR(bool) error                  { return p.ctl() }
func (p *fakePort) SetRTS(bool) error                  { return p.ctl() }
func (p *fakePort) SetReadTimeout(time.Duration) error { return p.ctl() }
func (p *fakePort) Break(time.Duration) error          { return p.ctl() }
func (p *fakePort) GetModemStatusBits() (*serial.ModemStatusBits, error) {
	return &serial.ModemStatusBits{}, p.ctl()
}

var _ serial.Port = (*fakePort)(nil)

func (s *serialFake) open(device string, baud int) (io.ReadWriteCloser, error) {
	t0 := time.Now()
	s.mu.Lock()
	s.opens++
	n := s.opens
	if s.failN > 0 {
		s.failN--
		s.log = append(s.log, fmt.Sprintf("open#%d failed", n))
		slow := s.slowFail
		s.mu.Unlock()
		if slow > 0 {
			time.Sleep(slow)
		}
		s.mu.Lock()
		s.calls = append(s.calls, serialCall{t0, time.Now(), false})
		s.mu.Unlock()
		return nil, s.errOpen
	}
	s.calls = append(s.calls, serialCall{t0, time.Now(), true})
	// the previous port must have been closed before a new one is opened
	tr := fake.NewTransport(fmt.Sprintf("serial%d", n))
	if s.asPort {
		// what a real opener returns: a full serial.Port; on some opens the device answers every control request (flush,
		// mode, modem lines, timeouts) with an error although it opened fine
		s.ports = append(s.ports, tr)
		s.log = append(s.log, fmt.Sprintf("open#%d ok (serial.Port)", n))
		cb := s.onOpen
		fp := &fakePort{Transport: tr, failControl: n%3 == 2}
		s.mu.Unlock()
		if cb != nil {
			cb(n, tr)
		}
		return fp, nil
	}
	s.ports = append(s.ports, tr)
	s.log = append(s.log, fmt.Sprintf("open#%d ok", n))
	cb := s.onOpen
	s.mu.Unlock()
	if cb != nil {
		cb(n, tr)
	}
	return tr, nil
}

func (s *serialFake) snapshot() (int, []*fake.Transport) {
	s.mu.Lock()
	defer s.mu.Unlock()
	return s.opens, append([]*fake.Transport(nil), s.ports...)
}

// connTransport is a fake transport that also implements net.Conn.
type connTransport struct {
	*fake.Transport
}

type c12addr string

func (a c12addr) Network() string { return "fake" }
func (a c12addr) String() string  { return string(a) }

func (c *connTransport) LocalAddr() net.Addr                { return c12addr("local") }
func (c *connTransport) RemoteAddr() net.Addr               { return c12addr("remote") }
func (c *connTransport) SetDeadline(t time.Time) error      { return nil }
func (c *connTransport) SetReadDeadline(t time.Time) error  { return nil }
func (c *connTransport) SetWriteDeadline(t time.Time) error { return nil }

var _ net.Conn = (*connTransport)(nil)

var c12kinds = []string{"custom", "tcp-server", "tcp-client", "tcp-client-refused", "udp-server", "udp-client", "udp-broadcast", "serial", "serial-backoff", "serial-blocked-readfail", "blocked-writer", "mixed"}

func (e *c12env) addPeer(c net.Conn) {
	e.mu.Lock()
	e.peers = append(e.peers, c)
	e.mu.Unlock()
}

// build creates and initialises a node of the given scenario kind and starts its traffic.
func c12build(kind string, r *vh.RNG) (*c12env, error) {
	e := &c12env{kind: kind}
	var eps []gomavlib.EndpointConf
	has := func(k string) bool { return kind == k || kind == "mixed" }
	if has("custom") || kind == "blocked-writer" {
		n := 1 + r.Intn(2)
		for i := 0; i < n; i++ {
			tr := fake.NewTransport(fmt.Sprintf("cu%d", i))
			e.customs = append(e.customs, tr)
			if i == 1 || kind == "mixed" {
				// a custom transport that happens to be a network connection (net.Pipe end, TLS / unix connection): still the
				// application's transport, closed by the node exactly once
				eps = append(eps, gomavlib.EndpointCustom{ReadWriteCloser: &connTransport{Transport: tr}})
			} else {
				eps = append(eps, gomavlib.EndpointCustom{ReadWriteCloser: tr})
			}
		}
		if kind == "blocked-writer" {
			e.customs[0].BlockWritesFrom(2)
		}
	}
	if has("tcp-server") {
		p := freeTCPPort()
		e.tcpPorts = append(e.tcpPorts, p)
		eps = append(eps, gomavlib.EndpointTCPServer{Address: fmt.Sprintf("127.0.0.1:%d", p)})
	}
	if has("udp-server") {
		p := freeUDPPort()
		e.udpPorts = append(e.udpPorts, p)
		eps = append(eps, gomavlib.EndpointUDPServer{Address: fmt.Sprintf("127.0.0.1:%d", p)})
	}
	if has("tcp-client") {
		ln, err := net.Listen("tcp4", "127.0.0.1:0")
		if err != nil {
			return nil, err
		}
		e.lns = append(e.lns, ln)
		eps = append(eps, gomavlib.EndpointTCPClient{Address: ln.Addr().String()})
		e.wg.Add(1)
		go func() {
			defer e.wg.Done()
			nAcc := 0
			for {
				c, err := ln.Accept()
				if err != nil {
					return
				}
				e.addPeer(c)
				nAcc++
				if nAcc%2 == 1 {
					// the first connection of the client ends with a half close by the peer: the client reconnects
					go e.peerHalfClose(c, 3)
					continue
				}
				go e.peerTraffic(c, 300)
			}
		}()
	}
	if has("tcp-client-refused") {
		// nobody listens there: the provider alternates between connect attempts and back-off
		eps = append(eps, gomavlib.EndpointTCPClient{Address: fmt.Sprintf("127.0.0.1:%d", freeTCPPort())})
	}
	if has("udp-client") {
		pc, err := net.ListenPacket("udp4", "127.0.0.1:0")
		if err != nil {
			return nil, err
		}
		eps = append(eps, gomavlib.EndpointUDPClient{Address: pc.LocalAddr().String()})
		e.wg.Add(1)
		go func() {
			defer e.wg.Done()
			defer pc.Close()
			buf := make([]byte, 600)
			for atomic.LoadInt32(&e.stop) == 0 {
				_ = pc.SetReadDeadline(time.Now().Add(20 * time.Millisecond))
				n, addr, err := pc.ReadFrom(buf)
				if err == nil && n > 0 {
					_, _ = pc.WriteTo(uidFrame(uint64(n), 1, 3, false, nil, 0), addr)
				}
			}
		}()
	}
	if has("udp-broadcast") {
		p := freeUDPPort()
		e.udpPorts = append(e.udpPorts, p)
		eps = append(eps, gomavlib.EndpointUDPBroadcast{BroadcastAddress: fmt.Sprintf("127.255.255.255:%d", p), LocalAddress: fmt.Sprintf("127.0.0.1:%d", p)})
	}
	if has("serial") || kind == "serial-backoff" || kind == "serial-blocked-readfail" {
		e.serials = &serialFake{errOpen: errors.New("serial open failed")}
		sf := e.serials
		gomavlib.VerifSetSerialOpenFunc(sf.open)
		eps = append(eps, gomavlib.EndpointSerial{Device: "/dev/ttyFAKE", Baud: 57600})
		sf.onOpen = func(n int, tr *fake.Transport) {
			if n == 1 {
				return // the probe open of Initialize
			}
			tr.Feed(uidFrame(uint64(n), 0, 4, false, nil, 0))
			if kind == "serial-blocked-readfail" {
				// the line does not take output (flow control): the writer sits inside Write (a serial port has no write
				// deadline); then the read side of the same port fails. The port is closed, which releases the writer, and the
				// endpoint re-opens - over and over
				tr.BlockWritesFrom(1)
				go func() {
					time.Sleep(12 * time.Millisecond)
					tr.FeedError(errSession)
				}()
			}
			if kind == "serial-backoff" {
				// the port dies at once and the next opens fail: the provider sits in its back-off
				tr.FeedError(errSession)
				sf.mu.Lock()
				sf.failN = 1000
				sf.mu.Unlock()
			}
		}
	}
	e.node = &gomavlib.Node{
		Endpoints: eps, Dialect: testDialect, OutVersion: gomavlib.V2, OutSystemID: 12,
		HeartbeatPeriod: 3 * time.Millisecond, StreamRequestEnable: true,
		ReadTimeout: 200 * time.Millisecond, WriteTimeout: 200 * time.Millisecond, IdleTimeout: 300 * time.Millisecond,
	}
	if err := e.node.Initialize(); err != nil {
		e.cleanup()
		return nil, err
	}
	// traffic towards the node
	for i, tr := range e.customs {
		e.wg.Add(1)
		go func(i int, tr *fake.Transport) {
			defer e.wg.Done()
			for n := 0; atomic.LoadInt32(&e.stop) == 0 && n < 400; n++ {
				tr.Feed(uidFrame(uint64(i)<<32|uint64(n), byte(n), 3, false, nil, 0))
				if n%5 == 0 {
					// an ArduPilot heartbeat: triggers stream requests
					tr.Feed(apHeartbeat(byte(1+n/5%200), 1))
				}
				time.Sleep(200 * time.Microsecond)
			}
		}(i, tr)
	}
	for _, p := range e.tcpPorts {
		for k := 0; k < 3; k++ {
			c, err := net.Dial("tcp4", fmt.Sprintf("127.0.0.1:%d", p))
			if err == nil {
				e.addPeer(c)
				e.wg.Add(1)
				if k == 2 {
					// a peer that says a few things, ends its side of the stream and goes on listening: the node sees EOF first,
					// the peer must still see the connection released
					nSay := r.Intn(6)
					go func() { defer e.wg.Done(); e.peerHalfClose(c, nSay) }()
					continue
				}
				go func() { defer e.wg.Done(); e.peerTraffic(c, 300) }()
			}
		}
	}
	for i, p := range e.udpPorts {
		if kind == "udp-broadcast" || (kind == "mixed" && i > 0) {
			continue
		}
		c, err := net.Dial("udp4", fmt.Sprintf("127.0.0.1:%d", p))
		if err == nil {
			e.addPeer(c)
			e.wg.Add(1)
			go func() { defer e.wg.Done(); e.peerTraffic(c, 300) }()
		}
	}
	return e, nil
}

func apHeartbeat(sys, comp byte) []byte {
	return hbFrame(sys, comp, 3, 0)
}

func (e *c12env) peerTraffic(c net.Conn, n int) {
	go func() { // drain what the node sends
		buf := make([]byte, 2048)
		for {
			if _, err := c.Read(buf); err != nil {
				return
			}
		}
	}()
	for i := 0; i < n && atomic.LoadInt32(&e.stop) == 0; i++ {
		if _, err := c.Write(uidFrame(uint64(i), byte(i), 6, false, nil, 0)); err != nil {
			return
		}
		// ArduPilot heartbeats from ever new senders: every one makes the reader issue 7 stream requests and an event
		if _, err := c.Write(apHeartbeat(byte(1+i%250), byte(1+i/250%250))); err != nil {
			return
		}
		time.Sleep(300 * time.Microsecond)
	}
}

// peerHalfClose sends n frames, shuts down the sending side of the connection and keeps the receiving side open.
func (e *c12env) peerHalfClose(c net.Conn, n int) {
	for i := 0; i < n; i++ {
		if _, err := c.Write(uidFrame(uint64(i), byte(i), 7, false, nil, 0)); err != nil {
			return
		}
	}
	if tc, ok := c.(*net.TCPConn); ok {
		_ = tc.CloseWrite()
	}
}

// socketFDs lists the sockets this process holds (inode numbers).
func socketFDs() map[string]bool {
	out := map[string]bool{}
	ents, err := os.ReadDir("/proc/self/fd")
	if err != nil {
		return out
	}
	for _, en := range ents {
		if l, err := os.Readlink("/proc/self/fd/" + en.Name()); err == nil && strings.HasPrefix(l, "socket:") {
			out[l] = true
		}
	}
	return out
}

// portHeldBySelf tells whether a socket of this very process is bound to the local port (a port that cannot be bound
// again may also have been taken by another process in the meantime: that is not the node's doing).
func portHeldBySelf(proto string, port int) bool {
	mine := socketFDs()
	data, err := os.ReadFile("/proc/net/" + proto)
	if err != nil {
		return true
	}
	want := fmt.Sprintf(":%04X", port)
	for _, line := range strings.Split(string(data), "\n") {
		fs := strings.Fields(line)
		if len(fs) < 10 || !strings.HasSuffix(fs[1], want) {
			continue
		}
		if mine["socket:["+fs[9]+"]"] {
			return true
		}
	}
	return false
}

// describeSockets looks the inodes up in /proc/net/{tcp,udp}.
func describeSockets(inodes []string) []string {
	var out []string
	for _, f := range []string{"/proc/net/tcp", "/proc/net/udp", "/proc/net/tcp6", "/proc/net/udp6"} {
		data, err := os.ReadFile(f)
		if err != nil {
			continue
		}
		for _, line := range strings.Split(string(data), "\n") {
			fs := strings.Fields(line)
			if len(fs) < 10 {
				continue
			}
			for _, in := range inodes {
				if "socket:["+fs[9]+"]" == in {
					out = append(out, f+": local "+fs[1]+" remote "+fs[2]+" state "+fs[3]+" inode "+fs[9])
				}
			}
		}
	}
	return out
}

func (e *c12env) cleanup() {
	atomic.StoreInt32(&e.stop, 1)
	for _, l := range e.lns {
		l.Close()
	}
	e.mu.Lock()
	for _, p := range e.peers {
		p.Close()
	}
	e.mu.Unlock()
	for _, tr := range e.customs {
		tr.UnblockWrites()
	}
	e.wg.Wait()
}

// checkReleased runs the post-Close monitors.
func (e *c12env) checkReleased(rep *vh.Report, where string, closeReturned bool) {
	wit := map[string]interface{}{"scenario": e.kind, "close_placed_at": where}
	for _, tr := range e.customs {
		if n := tr.Closes(); n != 1 {
			rep.Violation(fmt.Sprintf("what=close-count=%d", n), fmt.Sprintf("custom transport closed %d times (exactly once expected)", n), wit)
		}
	}
	for _, p := range e.tcpPorts {
		ln, err := net.Listen("tcp4", fmt.Sprintf("127.0.0.1:%d", p))
		if err != nil {
			if portHeldBySelf("tcp", p) {
				rep.Violation("what=port:tcp", "TCP port still bound after Close returned: "+err.Error(), wit)
			} else {
				rep.Count("ports_taken_by_another_process_meanwhile", 1) // ports are picked from the ephemeral range; other checks run next to this one
			}
		} else {
			ln.Close()
		}
	}
	for _, p := range e.udpPorts {
		pc, err := net.ListenPacket("udp4", fmt.Sprintf("127.0.0.1:%d", p))
		if err != nil {
			if portHeldBySelf("udp", p) {
				rep.Violation("what=port:udp", "UDP port still bound after Close returned: "+err.Error(), wit)
			} else {
				rep.Count("ports_taken_by_another_process_meanwhile", 1)
			}
		} else {
			pc.Close()
		}
	}
	// accepted connections are released: every TCP peer sees EOF / reset
	e.mu.Lock()
	peers := append([]net.Conn(nil), e.peers...)
	e.mu.Unlock()
	for _, p := range peers {
		if _, ok := p.(*net.TCPConn); !ok {
			continue
		}
		_ = p.SetReadDeadline(time.Now().Add(2 * time.Second))
		buf := make([]byte, 4096)
		for {
			_, err := p.Read(buf)
			if err == nil {
				continue
			}
			if ne, ok := err.(net.Error); ok && ne.Timeout() {
				rep.Violation("what=port:conn", "a TCP connection of the node is still open 2 s after Close returned", wit)
			}
			break
		}
	}
	if e.serials != nil {
		_, ports := e.serials.snapshot()
		for i, tr := range ports {
			if n := tr.Closes(); n != 1 {
				rep.Violation(fmt.Sprintf("what=close-count=%d", n), fmt.Sprintf("serial port #%d closed %d times after Close", i+1, n), wit)
			}
		}
	}
}

// placement runs one scenario with Close placed at (point, k). point=="" closes at a random instant.
func c12placement(rep *vh.Report, r *vh.RNG, kind, point string, k int, consumerOn bool, nWriters int, delay time.Duration) (reached bool) {
	hookReset(r.U64(), point == "", point == "")
	var hit chan struct{}
	release := func() {}
	if point != "" {
		hit, release = hookTrap(point, k)
	}
	socketsBefore := socketFDs()
	env, err := c12build(kind, r)
	if err != nil {
		release()
		rep.Inconclusive("C12: scenario " + kind + " could not be set up: " + err.Error())
		return false
	}
	where := fmt.Sprintf("%s#%d consumer=%v writers=%d", point, k, consumerOn, nWriters)
	cons := newConsumer(rep, "C12", kind, env.node)
	cons.noAutomaton = true
	var consStop int32
	consStopped := make(chan struct{})
	go func() {
		// a consumer that can be stopped: it stops receiving without draining
		defer close(consStopped)
		for atomic.LoadInt32(&consStop) == 0 {
			select {
			case evt, ok := <-env.node.Events():
				if !ok {
					close(cons.done)
					return
				}
				cons.handle(evt)
			case <-time.After(200 * time.Microsecond):
			}
		}
	}()
	// writers hammering Write* before, during and after Close
	var wstop int32
	var wwg sync.WaitGroup
	var inWrite int32
	var wpanic atomic.Value
	for w := 0; w < nWriters; w++ {
		wwg.Add(1)
		wr := r.Fork()
		go func(w int) {
			defer wwg.Done()
			defer func() {
				if p := recover(); p != nil {
					wpanic.Store(fmt.Sprint(p))
				}
			}()
			for i := 0; atomic.LoadInt32(&wstop) == 0; i++ {
				m := &MessageVfUid{Uid: uint64(w)<<32 | uint64(i)}
				open := cons.openChannels()
				atomic.AddInt32(&inWrite, 1)
				switch wr.Intn(6) {
				case 4:
					if len(open) > 0 {
						_ = env.node.WriteFrameTo(open[wr.Intn(len(open))].Ch, &frameV2{Message: m, SystemID: 3, ComponentID: 1})
					}
				case 5:
					if len(open) > 0 {
						_ = env.node.WriteFrameExcept(open[wr.Intn(len(open))].Ch, &frameV2{Message: m, SystemID: 3, ComponentID: 1})
					}
				case 0:
					_ = env.node.WriteMessageAll(m)
				case 1:
					if len(open) > 0 {
						_ = env.node.WriteMessageTo(open[wr.Intn(len(open))].Ch, m)
					}
				case 2:
					if len(open) > 0 {
						_ = env.node.WriteMessageExcept(open[wr.Intn(len(open))].Ch, m)
					}
				case 3:
					_ = env.node.WriteFrameAll(&frameV2{Message: m, SystemID: 3, ComponentID: 1})
				}
				atomic.AddInt32(&inWrite, -1)
				if i%8 == 0 {
					time.Sleep(50 * time.Microsecond)
				}
			}
		}(w)
	}

	if point != "" {
		select {
		case <-hit:
			reached = true
		case <-time.After(400 * time.Millisecond):
			// the point was not reached in this run (schedule variance): close anyway at this instant
		}
	} else {
		time.Sleep(time.Duration(r.Intn(8000)) * time.Microsecond)
		reached = true
	}
	if len(env.udpPorts) > 0 && kind != "udp-broadcast" && point != "" {
		// the first datagram of a NEW udp peer arriving during Close is the trigger of the known dependency crash (F9);
		// it is explored by the random-instant closes and by TestC12Known, not by every trap placement
		deadline := time.Now().Add(30 * time.Millisecond)
		for time.Now().Before(deadline) {
			found := false
			for _, ci := range cons.openChannels() {
				if strings.HasPrefix(ci.Label, "udp:") {
					found = true
				}
			}
			if found {
				break
			}
			time.Sleep(200 * time.Microsecond)
		}
	}
	if !consumerOn {
		atomic.StoreInt32(&consStop, 1)
		<-consStopped
	}
	closed := make(chan struct{})
	go func() { env.node.Close(); close(closed) }()
	if reached && point != "" && point != "api.write" && delay >= time.Millisecond {
		// the goroutine held at the trap is one the node started: as long as it is held, Close cannot have "ended every
		// goroutine the node started", so it must not return (a grace period after Close would hide a goroutine that
		// is merely late)
		select {
		case <-closed:
			rep.Violation("what=close-early@"+point, "Node.Close returned while a goroutine the node had started was still held inside the library (at the named point)",
				map[string]interface{}{"scenario": kind, "close_placed_at": where, "held_for": "the whole call"})
		case <-time.After(80 * time.Millisecond):
		}
		rep.Count("placements_with_goroutine_held_across_close", 1)
	} else if delay > 0 {
		time.Sleep(delay)
	}
	release()

	// (1) Close returns: all timers in this scenario are <= 300 ms
	returned := false
	select {
	case <-closed:
		returned = true
	case <-time.After(6 * time.Second):
	}
	if !returned {
		d1 := libGoroutines()
		time.Sleep(2 * time.Second)
		select {
		case <-closed:
			returned = true
		default:
		}
		if !returned {
			d2 := libGoroutines()
			same := len(d1) == len(d2)
			if same {
				a, b := make([]string, len(d1)), make([]string, len(d2))
				for i := range d1 {
					a[i], b[i] = goroutineShape(d1[i]), goroutineShape(d2[i])
				}
				sort.Strings(a)
				sort.Strings(b)
				same = strings.Join(a, "|") == strings.Join(b, "|")
			}
			if same {
				rep.Violation("what=close-stuck@"+point, "Node.Close did not return: every library goroutine is parked in the same place in two dumps 2 s apart",
					map[string]interface{}{"scenario": kind, "close_placed_at": where, "goroutines": strings.Join(d2, "\n\n")})
			} else {
				rep.Inconclusive("C12: Close had not returned after 8 s but goroutines were still moving (" + kind + " " + where + ")")
			}
			rep.Set("aborted_after_stuck_close", true)
			return reached
		}
	}
	// (6) writes during / after Close return without blocking or panicking
	time.Sleep(300 * time.Microsecond)
	atomic.StoreInt32(&wstop, 1)
	wdone := make(chan struct{})
	go func() { wwg.Wait(); close(wdone) }()
	select {
	case <-wdone:
	case <-time.After(5 * time.Second):
		rep.Violation("what=write-blocked", "a Write* call issued around Close is still blocked 5 s after Close returned",
			map[string]interface{}{"scenario": kind, "close_placed_at": where, "goroutines": strings.Join(libGoroutines(), "\n\n")})
	}
	if p := wpanic.Load(); p != nil {
		rep.Violation("what=write-panic", "a Write* call racing with Close panicked: "+p.(string), map[string]interface{}{"scenario": kind, "close_placed_at": where})
	}
	// writes after Close
	func() {
		defer func() {
			if p := recover(); p != nil {
				rep.Violation("what=write-panic", fmt.Sprintf("a Write* call after Close panicked: %v", p), nil)
			}
		}()
		done := make(chan struct{})
		go func() {
			_ = env.node.WriteMessageAll(&MessageVfUid{Uid: 1})
			_ = env.node.WriteFrameAll(&frameV2{Message: &MessageVfUid{Uid: 2}})
			// all six flavours, with channel objects that existed before the close
			for _, ci := range cons.allChannels() {
				if ci.Ch == nil {
					continue
				}
				_ = env.node.WriteMessageTo(ci.Ch, &MessageVfUid{Uid: 3})
				_ = env.node.WriteMessageExcept(ci.Ch, &MessageVfUid{Uid: 4})
				_ = env.node.WriteFrameTo(ci.Ch, &frameV2{Message: &MessageVfUid{Uid: 5}})
				_ = env.node.WriteFrameExcept(ci.Ch, &frameV2{Message: &MessageVfUid{Uid: 6}})
				break
			}
			_ = env.node.WriteMessageTo(nil, &MessageVfUid{Uid: 7})
			_ = env.node.WriteFrameTo(nil, &frameV2{Message: &MessageVfUid{Uid: 8}})
			_ = env.node.WriteMessageExcept(nil, &MessageVfUid{Uid: 9})
			_ = env.node.WriteFrameExcept(nil, &frameV2{Message: &MessageVfUid{Uid: 10}})
			close(done)
		}()
		select {
		case <-done:
		case <-time.After(3 * time.Second):
			rep.Violation("what=write-blocked", "a Write* call issued after Close blocks", map[string]interface{}{"scenario": kind})
		}
	}()
	// (5) ranging over Events() ends
	if !consumerOn {
		drained := make(chan struct{})
		go func() {
			for range env.node.Events() {
			}
			close(drained)
		}()
		select {
		case <-drained:
		case <-time.After(3 * time.Second):
			rep.Violation("what=events-open", "ranging over Events() does not end after Close returned (consumer was stopped before Close)",
				map[string]interface{}{"scenario": kind, "close_placed_at": where})
		}
	} else {
		select {
		case <-cons.done:
		case <-time.After(3 * time.Second):
			rep.Violation("what=events-open", "the event channel was not closed after Close returned", map[string]interface{}{"scenario": kind, "close_placed_at": where})
			atomic.StoreInt32(&consStop, 1)
		}
	}
	// (3)(4) ports, connections, close counts
	env.checkReleased(rep, where, true)
	env.cleanup()
	// every socket opened since the scenario began is gone once the node is closed and the harness has closed its own
	// (a connection whose peer went away first included)
	var leaked []string
	for i := 0; i < 60; i++ {
		leaked = leaked[:0]
		for s := range socketFDs() {
			if !socketsBefore[s] {
				leaked = append(leaked, s)
			}
		}
		if len(leaked) == 0 {
			break
		}
		time.Sleep(50 * time.Millisecond)
	}
	rep.Count("socket_fd_checks", 1)
	if len(leaked) > 0 {
		sort.Strings(leaked)
		// the property speaks of listening ports and connections: a socket is judged when it can be named as one (it is in the
		// kernel's TCP / UDP tables, IPv4 or IPv6). A descriptor of another family (netlink, unix) or one that is gone before it
		// can be looked up is counted and reported as an observation, not judged
		if desc := describeSockets(leaked); len(desc) > 0 {
			rep.Violation("what=port:fd", fmt.Sprintf("%d socket(s) opened during the scenario are still held by the process 3 s after Close returned and the peers closed theirs", len(desc)),
				map[string]interface{}{"scenario": kind, "close_placed_at": where, "sockets": desc})
		} else {
			rep.Count("socket_descriptors_seen_after_close_that_are_no_tcp_or_udp_sockets", len(leaked))
			rep.Observe(fmt.Sprintf("C12: %d socket descriptor(s) opened during a scenario (%s) were still there 3 s after Close but are in none of the kernel's TCP / UDP tables (another family, or closed before they could be looked up): not judged", len(leaked), kind))
		}
	}
	// (2) no goroutine the node started survives
	left := waitNoLibGoroutines(func(g string) bool {
		return strings.Contains(g, "verifharness/nodeprops") && !strings.Contains(g, "gomavlib/v3.(*")
	}, 30*time.Millisecond)
	for _, g := range left {
		rep.Violation("what=leak:"+topFrame(g), "a goroutine started by the node is still alive after Close returned",
			map[string]interface{}{"scenario": kind, "close_placed_at": where, "goroutine": g})
	}
	rep.Eval(1)
	rep.Count("placements", 1)
	rep.Count("placements_"+kind, 1)
	if reached && point != "" {
		rep.Count("placements_reached_trap", 1)
		rep.Distinct(kind, point, k, consumerOn, nWriters > 0)
	}
	return reached
}

// frameV2 is a local alias to keep call sites short.
type frameV2 = gomavlibFrameV2

func TestC12(t *testing.T) {
	rep := vh.NewReport("C12")
	defer rep.Finish(t)
	rep.Rule("fault enumeration: for each scenario kind (custom, TCP server with peers, connected TCP client, refused TCP client in back-off, UDP server, UDP client, UDP broadcast on 127.255.255.255, " +
		"fake serial, serial in back-off, blocked writer, all mixed; traffic both ways, 3 ms heartbeats, stream requests) a discovery run records which hook points are reached; then for each reached point and " +
		"occurrence k <= K the scenario is re-run and Node.Close is called while the goroutine that hit (point,k) is held, released 0 / 200 us / 1 ms later; x consumer {running, stopped before Close} x {0,3} " +
		"goroutines hammering Write*. Monitors: Close returns (goroutine-dump criterion), no library goroutine left, ports re-bindable, peers see EOF, custom / serial transports closed exactly once, " +
		"Events() range ends, writes return, no panic, no socket of the scenario left in /proc/self/fd; plus failed-Initialize configurations; plus, in a child process of its own, three nodes closed after 31.5 s of life (the 30 s housekeeping has run: without / with ArduPilot senders / silent). distinct = (scenario, point, occurrence, consumer, writers) placements whose trap was reached")
	rep.RuleAdd("Also: custom transports that are net.Conn values; a serial port that takes no output (writer inside Write) whose read side then fails, over and over; one node value living six lives; odd endpoint configurations.")
	rep.RuleAdd("Rounds 12-15: custom transports that are net.Conn values, serial lines that take no output while the read side fails, checkpoint and resume after the known pion crash.")
	rep.RuleAdd("Rounds 16-17: closes during name lookups that get no answer; the same Node value initialised again after a failed Initialize.")
	rep.Assume("fault model: a transport's blocked Read/Write is released by its Close (every real connection behaves so)")
	seed := shardSeed()
	shard, nsh := shardInfo()
	r := vh.Sub(seed, "c12")
	prev := gomavlib.VerifSetReconnectPeriod(60 * time.Millisecond)
	defer gomavlib.VerifSetReconnectPeriod(prev)
	K := vh.Pick(3, 12)
	stuck := false
	job := 0
	// one child process per group of scenario kinds: the known UDP-listener crash (DESIGN §5 F9) kills the
	// process it happens in, so the kinds that can trigger it are isolated from the others
	groups := [][]string{{"custom", "blocked-writer"}, {"tcp-server"}, {"tcp-client", "tcp-client-refused"}, {"udp-client", "udp-broadcast"},
		{"serial", "serial-backoff", "serial-blocked-readfail"}, {"udp-server"}, {"mixed"}}
	kinds := c12kinds
	byGroup := nsh == len(groups) || nsh == len(groups)+1
	// resumption after the known crash (which kills the child): the driver passes the number of the job that was under way
	// when the previous attempt died; jobs up to and including it are not repeated, what they observed is in the
	// checkpoint of that attempt
	resume, _ := strconv.Atoi(os.Getenv("VERIF_RESUME_JOB"))
	begin := func(job int) bool {
		if job <= resume {
			return false
		}
		if pf := os.Getenv("VERIF_PROGRESS"); pf != "" {
			_ = os.WriteFile(pf, []byte(strconv.Itoa(job)), 0o644)
		}
		return true
	}
	if nsh == len(groups)+1 && shard == nsh-1 {
		// a child process of its own: nodes that have been up for longer than the library's 30 s housekeeping period
		c12long(rep)
		rep.Floor("long_lived_nodes_closed", 3)
		return
	}
	if byGroup {
		kinds = groups[shard]
	}
	for _, kind := range kinds {
		if stuck {
			break
		}
		// discovery
		hookReset(r.U64(), false, false)
		env, err := c12build(kind, r)
		if err != nil {
			rep.Inconclusive("C12: scenario " + kind + " unavailable: " + err.Error())
			continue
		}
		cons := newConsumer(rep, "C12", kind, env.node)
		cons.noAutomaton = true
		cons.start()
		time.Sleep(25 * time.Millisecond)
		_ = env.node.WriteMessageAll(&MessageVfUid{Uid: 5})
		open := cons.openChannels()
		if len(open) > 0 {
			_ = env.node.WriteMessageTo(open[0].Ch, &MessageVfUid{Uid: 6})
			_ = env.node.WriteMessageExcept(open[0].Ch, &MessageVfUid{Uid: 7})
		}
		time.Sleep(5 * time.Millisecond)
		dclosed := make(chan struct{})
		go func() { env.node.Close(); close(dclosed) }()
		select {
		case <-dclosed:
		case <-time.After(10 * time.Second):
			rep.Violation("what=close-stuck@discovery", "Node.Close did not return within 10 s in a plain run of scenario "+kind+" (all timers <= 300 ms)",
				map[string]interface{}{"scenario": kind, "goroutines": strings.Join(libGoroutines(), "\n\n")})
			stuck = true
			continue
		}
		<-cons.done
		env.cleanup()
		hits := hookHits()
		var points []string
		for p := range hits {
			points = append(points, p)
		}
		sort.Strings(points)
		rep.Set("points_reached_"+kind, points)
		for _, p := range points {
			for k := 1; k <= K && k <= hits[p]; k++ {
				job++
				if !byGroup && job%nsh != shard {
					continue
				}
				if !begin(job) {
					continue
				}
				kk := k
				if k == K && hits[p] > K {
					kk = K + r.Intn(minInt(hits[p]-K, 40)) // a later occurrence
				}
				for _, mode := range [][2]int{{1, 0}, {0, 3}} {
					if !vh.Thorough() && mode[0] == 0 && job%2 == 0 {
						continue
					}
					delay := []time.Duration{0, 200 * time.Microsecond, time.Millisecond}[(job+k)%3]
					c12placement(rep, r, kind, p, kk, mode[0] == 1, mode[1], delay)
					if v, _ := repExtraBool(rep, "aborted_after_stuck_close"); v {
						stuck = true
					}
					if rep.NViolationEvents() >= 3 {
						stuck = true // enough witnesses: every further placement would wait for the same time-outs
					}
					if stuck {
						break
					}
				}
				rep.Checkpoint()
				if stuck {
					break
				}
			}
			if stuck {
				break
			}
		}
		// a few closes at random instants with everything on
		for i := 0; i < vh.Pick(6, 80) && !stuck; i++ {
			job++
			if !byGroup && job%nsh != shard {
				continue
			}
			if !begin(job) {
				continue
			}
			c12placement(rep, r, kind, "", 0, i%2 == 0, 3, 0)
			rep.Checkpoint()
			if rep.NViolationEvents() >= 3 {
				stuck = true
			}
		}
	}
	gomavlib.VerifSetHook(nil)

	// (7) failed Initialize leaves nothing behind
	if shard == 0 && !stuck {
		c12failedInit(rep, r)
		c12relife(rep, r)
		c12silentResolver(rep, r)
	}
	rep.Sample(map[string]interface{}{"placement": "scenario=tcp-server point=ch.reader.afterRead occurrence=2 consumer=stopped writers=3 release_delay=200us"})
	if resume == 0 {
		rep.Floor("placements", 10)
		rep.Floor("placements_reached_trap", 4)
	}
}

var stuckFlag int32

// c12silentResolver: client endpoints addressed by host name while the name server does not answer. Close lands during the
// first lookup or during one of the later attempts; it must not wait for the resolver to give up (5-10 s).
func c12silentResolver(rep *vh.Report, r *vh.RNG) {
	old := net.DefaultResolver
	defer func() { net.DefaultResolver = old }()
	var pipes []net.Conn
	var pmu sync.Mutex
	net.DefaultResolver = &net.Resolver{PreferGo: true, Dial: func(ctx context.Context, network, address string) (net.Conn, error) {
		c1, c2 := net.Pipe()
		go func() { _, _ = io.Copy(io.Discard, c2) }() // takes the query, never answers
		pmu.Lock()
		pipes = append(pipes, c1, c2)
		pmu.Unlock()
		return c1, nil
	}}
	defer func() {
		pmu.Lock()
		for _, c := range pipes {
			c.Close()
		}
		pmu.Unlock()
	}()
	for i := 0; i < 6; i++ {
		var ep gomavlib.EndpointConf = gomavlib.EndpointUDPClient{Address: fmt.Sprintf("verif-silent-%d.example:5600", i)}
		if i%2 == 1 {
			ep = gomavlib.EndpointTCPClient{Address: fmt.Sprintf("verif-silent-%d.example:5600", i)}
		}
		node := &gomavlib.Node{Endpoints: []gomavlib.EndpointConf{ep}, Dialect: testDialect, OutVersion: gomavlib.V2, OutSystemID: 1}
		rep.Eval(1)
		if err := node.Initialize(); err != nil {
			rep.Observe("C12 silent resolver: Initialize refused a client endpoint addressed by name: " + err.Error())
			continue
		}
		go func() {
			for range node.Events() {
			}
		}()
		time.Sleep(time.Duration([]int{5, 40, 150, 2100, 20, 80}[i]) * time.Millisecond)
		t0 := time.Now()
		cdone := make(chan struct{})
		go func() { node.Close(); close(cdone) }()
		select {
		case <-cdone:
			rep.Count("closes_during_a_name_lookup_that_gets_no_answer", 1)
			if d := time.Since(t0); d > 3*time.Second {
				rep.Violation("what=close-stuck@name-lookup", fmt.Sprintf("Node.Close took %v while a client endpoint (%T) was looking up a host name that the name server did not answer", d.Round(time.Millisecond), ep), nil)
			}
		case <-time.After(20 * time.Second):
			rep.Violation("what=close-stuck@name-lookup", fmt.Sprintf("Node.Close did not return within 20 s while a client endpoint (%T) was looking up a host name", ep), nil)
			return
		}
	}
}

// c12relife: one Node value that is initialised, used and closed several times in a row (an application that restarts its
// link layer). Every life ends like the first: Close returns, the event stream ends, the port is free, writes return.
func c12relife(rep *vh.Report, r *vh.RNG) {
	port := freeTCPPort()
	ln, err := net.Listen("tcp4", "127.0.0.1:0")
	if err != nil {
		return
	}
	defer ln.Close()
	go func() {
		for {
			c, err := ln.Accept()
			if err != nil {
				return
			}
			go func() { _, _ = io.Copy(io.Discard, c); c.Close() }()
		}
	}()
	node := &gomavlib.Node{Endpoints: []gomavlib.EndpointConf{gomavlib.EndpointTCPServer{Address: fmt.Sprintf("127.0.0.1:%d", port)}, gomavlib.EndpointTCPClient{Address: ln.Addr().String()}},
		Dialect: testDialect, OutVersion: gomavlib.V2, OutSystemID: 14, HeartbeatPeriod: 5 * time.Millisecond, StreamRequestEnable: true}
	before := socketFDs()
	for life := 1; life <= 6; life++ {
		wit := map[string]interface{}{"scenario": "relife", "life": life}
		// the configuration changes between lives: what was switched on in one life is off in the next, and back
		switch life {
		case 2:
			node.HeartbeatDisable = true
		case 3:
			node.HeartbeatDisable, node.StreamRequestEnable = false, false
		case 4:
			node.Dialect = nil
		case 5:
			node.Dialect, node.StreamRequestEnable = testDialect, true
		case 6:
			node.HeartbeatDisable, node.StreamRequestEnable = true, false
		}
		if err := node.Initialize(); err != nil {
			if life == 1 {
				rep.Inconclusive("C12 relife: " + err.Error())
			} else {
				rep.Violation("what=relife:init", fmt.Sprintf("the node value could be initialised %d time(s) but not once more after Close: %v", life-1, err), wit)
			}
			return
		}
		evDone := make(chan struct{})
		go func() {
			for range node.Events() {
			}
			close(evDone)
		}()
		c, derr := net.Dial("tcp4", fmt.Sprintf("127.0.0.1:%d", port))
		if derr == nil {
			_, _ = c.Write(hbFrame(byte(life), 1, 3, 0))
		}
		for i := 0; i < 20; i++ {
			_ = node.WriteMessageAll(&MessageVfUid{Uid: uint64(i)})
		}
		time.Sleep(time.Duration(5+r.Intn(20)) * time.Millisecond)
		closed := make(chan struct{})
		go func() { node.Close(); close(closed) }()
		select {
		case <-closed:
		case <-time.After(10 * time.Second):
			rep.Violation(fmt.Sprintf("what=close-stuck@relife"), fmt.Sprintf("Node.Close did not return within 10 s in life %d of a node value that is initialised and closed repeatedly (all timers <= 200 ms)", life),
				map[string]interface{}{"scenario": "relife", "life": life, "goroutines": strings.Join(libGoroutines(), "\n\n")})
			return
		}
		select {
		case <-evDone:
		case <-time.After(3 * time.Second):
			rep.Violation("what=events-open", fmt.Sprintf("the event channel was not closed after Close returned (life %d of a re-initialised node value)", life), wit)
			return
		}
		wd := make(chan struct{})
		go func() { _ = node.WriteMessageAll(&MessageVfUid{Uid: 1}); close(wd) }()
		select {
		case <-wd:
		case <-time.After(3 * time.Second):
			rep.Violation("what=write-blocked", fmt.Sprintf("a Write* call after Close blocks (life %d of a re-initialised node value)", life), wit)
			return
		}
		if x, err := net.Listen("tcp4", fmt.Sprintf("127.0.0.1:%d", port)); err != nil {
			if portHeldBySelf("tcp", port) {
				rep.Violation("what=port:tcp", fmt.Sprintf("TCP port still bound after Close returned (life %d of a re-initialised node value)", life), wit)
				return
			}
		} else {
			x.Close()
		}
		if c != nil {
			c.Close()
		}
		rep.Eval(1)
		rep.Count("node_value_lives", 1)
	}
	left := waitNoLibGoroutines(func(g string) bool {
		return strings.Contains(g, "verifharness/nodeprops") && !strings.Contains(g, "gomavlib/v3.(*")
	}, 30*time.Millisecond)
	for _, g := range left {
		rep.Violation("what=leak:"+topFrame(g), "a goroutine of a re-initialised node value is still alive after its last Close", map[string]interface{}{"scenario": "relife", "goroutine": g})
	}
	ln.Close()
	var leaked []string
	for i := 0; i < 40; i++ {
		leaked = leaked[:0]
		for sk := range socketFDs() {
			if !before[sk] {
				leaked = append(leaked, sk)
			}
		}
		if len(leaked) == 0 {
			break
		}
		time.Sleep(50 * time.Millisecond)
	}
	if len(leaked) > 0 {
		rep.Violation("what=port:fd", fmt.Sprintf("%d socket(s) of a re-initialised node value still held after its last Close", len(leaked)), map[string]interface{}{"sockets": describeSockets(leaked)})
	}
}

// c12long: three nodes that live for 31.5 s (the stream-request housekeeping runs every 30 s on a constant of the
// library): (a) no ArduPilot sender until after the first housekeeping run, then heartbeats on two channels, (b) ArduPilot
// senders from the start, (c) no traffic at all. Then Close: returns, leaves no goroutine, releases the port, closes the
// custom transports once, ends the event stream.
func c12long(rep *vh.Report) {
	type ln struct {
		name string
		node *gomavlib.Node
		trs  []*fake.Transport
		port int
		conn net.Conn
	}
	mk := func(name string) *ln {
		l := &ln{name: name, port: freeTCPPort()}
		l.trs = []*fake.Transport{fake.NewTransport(name + "0"), fake.NewTransport(name + "1")}
		l.node = &gomavlib.Node{Endpoints: []gomavlib.EndpointConf{gomavlib.EndpointCustom{ReadWriteCloser: l.trs[0]}, gomavlib.EndpointCustom{ReadWriteCloser: l.trs[1]},
			gomavlib.EndpointTCPServer{Address: fmt.Sprintf("127.0.0.1:%d", l.port)}},
			Dialect: testDialect, OutVersion: gomavlib.V2, OutSystemID: 13, HeartbeatPeriod: 200 * time.Millisecond, StreamRequestEnable: true, IdleTimeout: 60 * time.Second}
		if err := l.node.Initialize(); err != nil {
			rep.Inconclusive("C12 long: " + err.Error())
			return nil
		}
		go func() {
			for range l.node.Events() {
			}
		}()
		if c, err := net.Dial("tcp4", fmt.Sprintf("127.0.0.1:%d", l.port)); err == nil {
			l.conn = c
			go func() { _, _ = io.Copy(io.Discard, c) }()
		}
		return l
	}
	socketsBefore := socketFDs()
	nodes := []*ln{mk("quiet-then-ardupilot"), mk("ardupilot-throughout"), mk("silent")}
	for _, l := range nodes {
		if l == nil {
			return
		}
	}
	start := time.Now()
	for i := 0; time.Since(start) < 31500*time.Millisecond; i++ {
		late := time.Since(start) > 30500*time.Millisecond
		// (a): other traffic first, ArduPilot heartbeats only after the first housekeeping run
		a := nodes[0]
		a.trs[0].Feed(uidFrame(uint64(i), byte(i), 3, false, nil, 0))
		a.trs[1].Feed(hbFrame(9, 9, 8, 0)) // not an ArduPilot
		if late {
			a.trs[0].Feed(hbFrame(byte(1+i%200), 1, 3, 0))
			a.trs[1].Feed(hbFrame(byte(1+i%200), 2, 3, 0))
			if a.conn != nil {
				_, _ = a.conn.Write(hbFrame(byte(1+i%200), 3, 3, 0))
			}
		}
		// (b): ArduPilot senders all the time (new ones now and then)
		b := nodes[1]
		b.trs[0].Feed(hbFrame(byte(1+i/20%200), 1, 3, 0))
		if b.conn != nil {
			_, _ = b.conn.Write(hbFrame(byte(1+i/20%200), 2, 3, 0))
		}
		time.Sleep(50 * time.Millisecond)
	}
	for _, l := range nodes {
		closed := make(chan struct{})
		go func() { l.node.Close(); close(closed) }()
		select {
		case <-closed:
			rep.Count("long_lived_nodes_closed", 1)
		case <-time.After(10 * time.Second):
			rep.Violation("what=close-stuck@long:"+l.name, "Node.Close did not return within 10 s on a node that had been up for 31.5 s (all timers <= 200 ms)",
				map[string]interface{}{"scenario": "long:" + l.name, "goroutines": strings.Join(libGoroutines(), "\n\n")})
			return
		}
		for _, tr := range l.trs {
			if n := tr.Closes(); n != 1 {
				rep.Violation(fmt.Sprintf("what=close-count=%d", n), fmt.Sprintf("custom transport closed %d times (exactly once expected) on a long-lived node", n), map[string]interface{}{"scenario": "long:" + l.name})
			}
		}
		if x, err := net.Listen("tcp4", fmt.Sprintf("127.0.0.1:%d", l.port)); err != nil {
			if portHeldBySelf("tcp", l.port) {
				rep.Violation("what=port:tcp", "TCP port still bound after Close returned (long-lived node)", map[string]interface{}{"scenario": "long:" + l.name})
			}
		} else {
			x.Close()
		}
		if l.conn != nil {
			l.conn.Close()
		}
		rep.Eval(1)
	}
	left := waitNoLibGoroutines(func(g string) bool {
		return strings.Contains(g, "verifharness/nodeprops") && !strings.Contains(g, "gomavlib/v3.(*")
	}, 30*time.Millisecond)
	for _, g := range left {
		rep.Violation("what=leak:"+topFrame(g), "a goroutine started by a long-lived node is still alive after Close returned", map[string]interface{}{"scenario": "long", "goroutine": g})
	}
	var leaked []string
	for i := 0; i < 60; i++ {
		leaked = leaked[:0]
		for s := range socketFDs() {
			if !socketsBefore[s] {
				leaked = append(leaked, s)
			}
		}
		if len(leaked) == 0 {
			break
		}
		time.Sleep(50 * time.Millisecond)
	}
	if len(leaked) > 0 {
		rep.Violation("what=port:fd", fmt.Sprintf("%d socket(s) of long-lived nodes still held 3 s after Close", len(leaked)), map[string]interface{}{"sockets": describeSockets(leaked)})
	}
}

func repExtraBool(rep *vh.Report, name string) (bool, bool) {
	return rep.ExtraBool(name)
}

type MessageDup struct{ A uint8 }

func (*MessageDup) GetID() uint32 { return 5000 }

func c12failedInit(rep *vh.Report, r *vh.RNG) {
	busyT, _ := net.Listen("tcp4", "127.0.0.1:0")
	busyU, _ := net.ListenPacket("udp4", "127.0.0.1:0")
	defer busyT.Close()
	defer busyU.Close()
	sf := &serialFake{errOpen: errors.New("no such device"), failN: 1 << 30}
	type fc struct {
		name string
		bad  func() gomavlib.EndpointConf
		dial *dialect.Dialect
	}
	cases := []fc{
		{"tcp-port-in-use", func() gomavlib.EndpointConf { return gomavlib.EndpointTCPServer{Address: busyT.Addr().String()} }, nil},
		{"udp-port-in-use", func() gomavlib.EndpointConf { return gomavlib.EndpointUDPServer{Address: busyU.LocalAddr().String()} }, nil},
		{"invalid-address", func() gomavlib.EndpointConf { return gomavlib.EndpointTCPClient{Address: "no-port"} }, nil},
		{"invalid-server-address", func() gomavlib.EndpointConf { return gomavlib.EndpointUDPServer{Address: "nonsense"} }, nil},
		{"broadcast-invalid", func() gomavlib.EndpointConf { return gomavlib.EndpointUDPBroadcast{BroadcastAddress: "1.2.3:x"} }, nil},
		{"serial-open-error", func() gomavlib.EndpointConf { return gomavlib.EndpointSerial{Device: "/dev/none", Baud: 9600} }, nil},
		{"invalid-dialect", nil, &dialect.Dialect{Version: 1, Messages: []message.Message{&MessageVfUid{}, &MessageDup{}}}},
	}
	// configurations with out-of-range option values: whether Initialize accepts them is its own business, but IF it
	// returns an error nothing may be left behind
	odd := []func(n *gomavlib.Node){
		func(n *gomavlib.Node) { n.StreamRequestEnable, n.StreamRequestFrequency = true, 100000 },
		func(n *gomavlib.Node) { n.StreamRequestEnable, n.StreamRequestFrequency = true, -5 },
		func(n *gomavlib.Node) { n.HeartbeatSystemType, n.HeartbeatAutopilotType = 1<<20, -3 },
		func(n *gomavlib.Node) { n.HeartbeatSystemType = -1 },
		func(n *gomavlib.Node) { n.HeartbeatAutopilotType = -1 },
		func(n *gomavlib.Node) {
			n.OutComponentID = 255
			n.IdleTimeout = -1
			n.ReadTimeout = -1
			n.WriteTimeout = -1
		},
		func(n *gomavlib.Node) {
			n.StreamRequestEnable = true
			n.Dialect = &dialect.Dialect{Version: -7, Messages: testDialect.Messages}
		},
	}
	// endpoint configurations that are odd in one part and fine in another (a valid local address with a broadcast port that
	// is out of range / zero / not a number, ...): whether Initialize accepts them is its own business; afterwards (after
	// Close if it did) no socket opened for them may be left in this process
	for ei := 0; ei < 8; ei++ {
		bp := freeUDPPort()
		local := fmt.Sprintf("127.0.0.1:%d", bp)
		confs := []gomavlib.EndpointConf{
			gomavlib.EndpointUDPBroadcast{BroadcastAddress: "127.255.255.255:70000", LocalAddress: local},
			gomavlib.EndpointUDPBroadcast{BroadcastAddress: "127.255.255.255:0", LocalAddress: local},
			gomavlib.EndpointUDPBroadcast{BroadcastAddress: "127.255.255.255:http", LocalAddress: local},
			gomavlib.EndpointUDPBroadcast{BroadcastAddress: "127.255.255.255:-1", LocalAddress: local},
			gomavlib.EndpointUDPBroadcast{BroadcastAddress: "[::1]:5600", LocalAddress: local},
			gomavlib.EndpointUDPBroadcast{BroadcastAddress: "127.255.255.255:5600", LocalAddress: "127.0.0.1:99999"},
			gomavlib.EndpointUDPServer{Address: "127.0.0.1:99999"},
			gomavlib.EndpointTCPServer{Address: "256.0.0.1:5600"},
		}
		before := socketFDs()
		tr := fake.NewTransport("odd-ep")
		// a healthy listener first, the odd endpoint after it
		tp := freeTCPPort()
		node := &gomavlib.Node{Endpoints: []gomavlib.EndpointConf{gomavlib.EndpointCustom{ReadWriteCloser: tr}, gomavlib.EndpointTCPServer{Address: fmt.Sprintf("127.0.0.1:%d", tp)}, confs[ei]},
			Dialect: testDialect, OutVersion: gomavlib.V2, OutSystemID: 1}
		rep.Eval(1)
		rep.Count("odd_endpoint_configs", 1)
		var ierr error
		func() {
			defer func() {
				if p := recover(); p != nil {
					ierr = fmt.Errorf("panic: %v", p)
					rep.Observe(fmt.Sprintf("Initialize panics on an odd endpoint configuration (%d): %v", ei, p))
				}
			}()
			ierr = node.Initialize()
		}()
		if ierr == nil {
			rep.Count("odd_endpoint_configs_accepted", 1)
			if !safeClose(rep, node) {
				return
			}
		}
		var leaked []string
		for i := 0; i < 40; i++ {
			leaked = leaked[:0]
			for sk := range socketFDs() {
				if !before[sk] {
					leaked = append(leaked, sk)
				}
			}
			if len(leaked) == 0 {
				break
			}
			time.Sleep(50 * time.Millisecond)
		}
		if len(leaked) > 0 {
			what := "a failed Initialize"
			if ierr == nil {
				what = "Initialize + Close"
			}
			rep.Violation("what=init-leak:odd-endpoint", fmt.Sprintf("%s with an odd endpoint configuration left %d socket(s) behind", what, len(leaked)),
				map[string]interface{}{"configuration": fmt.Sprintf("%+v", confs[ei]), "initialize_error": fmt.Sprint(ierr), "sockets": describeSockets(leaked)})
		}
	}
	for oi, mod := range odd {
		tp, up := freeTCPPort(), freeUDPPort()
		tr := fake.NewTransport("odd")
		node := &gomavlib.Node{Endpoints: []gomavlib.EndpointConf{gomavlib.EndpointCustom{ReadWriteCloser: tr},
			gomavlib.EndpointTCPServer{Address: fmt.Sprintf("127.0.0.1:%d", tp)}, gomavlib.EndpointUDPServer{Address: fmt.Sprintf("127.0.0.1:%d", up)}},
			Dialect: testDialect, OutVersion: gomavlib.V2, OutSystemID: 1}
		mod(node)
		rep.Eval(1)
		rep.Count("odd_option_configs", 1)
		var ierr error
		func() {
			defer func() {
				if p := recover(); p != nil {
					ierr = fmt.Errorf("panic: %v", p)
					rep.Observe(fmt.Sprintf("Initialize panics on out-of-range options (configuration %d): %v", oi, p))
				}
			}()
			ierr = node.Initialize()
		}()
		if ierr == nil {
			cdone := make(chan struct{})
			go func() { node.Close(); close(cdone) }()
			select {
			case <-cdone:
			case <-time.After(10 * time.Second):
				rep.Violation("what=close-stuck@odd-options", fmt.Sprintf("Node.Close did not return for a node initialized with out-of-range options (configuration %d)", oi), nil)
				return
			}
			continue
		}
		rep.Count("odd_option_configs_refused", 1)
		wit := map[string]interface{}{"case": fmt.Sprintf("odd-options-%d", oi), "error": ierr.Error()}
		if ln, err := net.Listen("tcp4", fmt.Sprintf("127.0.0.1:%d", tp)); err != nil && !portHeldBySelf("tcp", tp) {
			rep.Count("ports_taken_by_another_process_meanwhile", 1)
		} else if err != nil {
			rep.Violation("what=init-leak:odd-options", "a failed Initialize left a TCP listener behind", wit)
		} else {
			ln.Close()
		}
		if pc, err := net.ListenPacket("udp4", fmt.Sprintf("127.0.0.1:%d", up)); err != nil && !portHeldBySelf("udp", up) {
			rep.Count("ports_taken_by_another_process_meanwhile", 1)
		} else if err != nil {
			rep.Violation("what=init-leak:odd-options", "a failed Initialize left a UDP socket behind", wit)
		} else {
			pc.Close()
		}
		left := waitNoLibGoroutines(func(g string) bool {
			return strings.Contains(g, "verifharness/nodeprops") && !strings.Contains(g, "gomavlib/v3.(*")
		}, 20*time.Millisecond)
		for _, g := range left {
			rep.Violation("what=init-leak:odd-options", "a failed Initialize left a goroutine behind: "+topFrame(g), map[string]interface{}{"goroutine": g})
		}
	}
	for _, c := range cases {
		for pos := 0; pos < 3; pos++ {
			gomavlib.VerifSetSerialOpenFunc(sf.open)
			tp, up := freeTCPPort(), freeUDPPort()
			tr := fake.NewTransport("fi")
			good := []gomavlib.EndpointConf{
				gomavlib.EndpointCustom{ReadWriteCloser: tr},
				gomavlib.EndpointTCPServer{Address: fmt.Sprintf("127.0.0.1:%d", tp)},
				gomavlib.EndpointUDPServer{Address: fmt.Sprintf("127.0.0.1:%d", up)},
			}
			var eps []gomavlib.EndpointConf
			eps = append(eps, good[:pos]...)
			if c.bad != nil {
				eps = append(eps, c.bad())
			}
			eps = append(eps, good[pos:]...)
			d := testDialect
			if c.dial != nil {
				d = c.dial
			}
			node := &gomavlib.Node{Endpoints: eps, Dialect: d, OutVersion: gomavlib.V2, OutSystemID: 1}
			err := node.Initialize()
			rep.Eval(1)
			rep.Count("failed_initialize_cases", 1)
			rep.Distinct("init", c.name, pos)
			wit := map[string]interface{}{"case": c.name, "failing_endpoint_position": pos}
			if err == nil {
				rep.Violation("what=init-leak:"+c.name, "Initialize succeeded on a configuration that must fail", wit)
				node.Close()
				continue
			}
			if ln, err := net.Listen("tcp4", fmt.Sprintf("127.0.0.1:%d", tp)); err != nil && !portHeldBySelf("tcp", tp) {
				rep.Count("ports_taken_by_another_process_meanwhile", 1)
			} else if err != nil {
				rep.Violation("what=init-leak:"+c.name, "a failed Initialize left a TCP listener behind", wit)
			} else {
				ln.Close()
			}
			if pc, err := net.ListenPacket("udp4", fmt.Sprintf("127.0.0.1:%d", up)); err != nil && !portHeldBySelf("udp", up) {
				rep.Count("ports_taken_by_another_process_meanwhile", 1)
			} else if err != nil {
				rep.Violation("what=init-leak:"+c.name, "a failed Initialize left a UDP socket behind", wit)
			} else {
				pc.Close()
			}
			if tr.Closes() > 1 {
				rep.Violation("what=init-leak:"+c.name, "a failed Initialize closed a custom transport more than once", wit)
			}
			left := waitNoLibGoroutines(func(g string) bool {
				return strings.Contains(g, "verifharness/nodeprops") && !strings.Contains(g, "gomavlib/v3.(*")
			}, 20*time.Millisecond)
			for _, g := range left {
				rep.Violation("what=init-leak:"+c.name, "a failed Initialize left a goroutine behind: "+topFrame(g), map[string]interface{}{"case": c.name, "goroutine": g})
			}
			// the application corrects its configuration and tries again ON THE SAME Node value: that life starts, works and
			// closes like any other
			tr2 := fake.NewTransport("fi-retry")
			tp2, up2 := freeTCPPort(), freeUDPPort()
			node.Endpoints = []gomavlib.EndpointConf{gomavlib.EndpointCustom{ReadWriteCloser: tr2},
				gomavlib.EndpointTCPServer{Address: fmt.Sprintf("127.0.0.1:%d", tp2)}, gomavlib.EndpointUDPServer{Address: fmt.Sprintf("127.0.0.1:%d", up2)}}
			node.Dialect = testDialect
			if err := node.Initialize(); err != nil {
				if strings.Contains(err.Error(), "address already in use") && !portHeldBySelf("tcp", tp2) && !portHeldBySelf("udp", up2) {
					// (another process on this machine took the port between the probe and the bind: nothing to judge)
					rep.Count("ports_taken_by_another_process_meanwhile", 1)
					continue
				}
				rep.Violation("what=init-leak:"+c.name+":retry", "after a failed Initialize the same Node value could not be initialised with a corrected configuration: "+err.Error(), wit)
				continue
			}
			rep.Count("nodes_initialised_again_after_a_failed_initialize", 1)
			go func(n *gomavlib.Node) {
				for range n.Events() {
				}
			}(node)
			_ = node.WriteMessageAll(&MessageVfUid{Uid: 1})
			cdone := make(chan struct{})
			go func() { node.Close(); close(cdone) }()
			select {
			case <-cdone:
			case <-time.After(10 * time.Second):
				rep.Violation("what=close-stuck@retry-after-failed-init", "Node.Close did not return within 10 s on a node that was initialised successfully after an earlier Initialize of the same value had failed ("+c.name+")", wit)
				return
			}
		}
	}
}

// TestC12Known tries to re-observe the known finding F9 (DESIGN §5): the UDP listener dependency panics when
// the first datagram of a new peer arrives while the node is closing. It runs in its own child process (the
// panic kills it); the driver turns the crash into the KNOWN-FINDING line. Not reproducing it is not a failure.
func TestC12Known(t *testing.T) {
	rep := vh.NewReport("C12")
	defer rep.Finish(t)
	rep.Rule("targeted re-observation of the known UDP-listener crash: Initialize a UDP server node, four goroutines send first datagrams from fresh sockets, Close; repeated")
	n := vh.Pick(300, 3000)
	for it := 0; it < n; it++ {
		port := freeUDPPort()
		node := &gomavlib.Node{Endpoints: []gomavlib.EndpointConf{gomavlib.EndpointUDPServer{Address: fmt.Sprintf("127.0.0.1:%d", port)}},
			Dialect: testDialect, OutVersion: gomavlib.V2, OutSystemID: 1, HeartbeatDisable: true}
		if err := node.Initialize(); err != nil {
			continue
		}
		go func() {
			for range node.Events() {
			}
		}()
		var stop int32
		for p := 0; p < 4; p++ {
			go func() {
				for atomic.LoadInt32(&stop) == 0 {
					c, err := net.Dial("udp4", fmt.Sprintf("127.0.0.1:%d", port))
					if err != nil {
						return
					}
					_, _ = c.Write(uidFrame(1, 0, 1, false, nil, 0))
					c.Close()
				}
			}()
		}
		time.Sleep(time.Duration(it%7) * 100 * time.Microsecond)
		node.Close()
		atomic.StoreInt32(&stop, 1)
		rep.Eval(1)
		rep.Distinct("known", it)
	}
	rep.Sample("UDP server node closed while new peers send their first datagram")
	rep.Count("known_finding_attempts", n)
}
