package nodeprops

import (
	"fmt"
	"io"
	"net"
	"sync"
	"sync/atomic"
	"testing"
	"time"

	"github.com/bluenviron/gomavlib/v3"
	"github.com/bluenviron/gomavlib/v3/pkg/dialect"
	"github.com/bluenviron/gomavlib/v3/pkg/dialects/common"
	"github.com/bluenviron/gomavlib/v3/pkg/frame"
	"github.com/bluenviron/gomavlib/v3/pkg/message"

	"verifharness/fake"
	"verifharness/ref"
	"verifharness/vh"
)

// C15 — concurrent use of a node is free of data races.
// The deciding monitor is the Go race detector: this test only has to drive the workloads;
// the driver parses the detector's log files and keeps the reports that touch library code.

func c15apiMix(rep *vh.Report, seed uint64, idx int) {
	if aborted() {
		return
	}
	r := vh.Sub(seed, fmt.Sprintf("c15-mix-%d", idx))
	hookReset(r.U64(), true, true)
	k := 3 + r.Intn(2)
	if idx%3 == 2 {
		k = 64 // many channels: their randomly drawn link ids collide with near certainty
	}
	var trs []*fake.Transport
	var eps []gomavlib.EndpointConf
	for i := 0; i < k; i++ {
		tr := fake.NewTransport(fmt.Sprintf("m%d", i))
		trs = append(trs, tr)
		eps = append(eps, gomavlib.EndpointCustom{ReadWriteCloser: tr})
	}
	port := freeTCPPort()
	eps = append(eps, gomavlib.EndpointTCPServer{Address: fmt.Sprintf("127.0.0.1:%d", port)})
	var outKey, inKey *frame.V2Key
	keyRaw := r.Bytes(32)
	// every fourth run: a node that signs and verifies with one key, peers that sign with it (their frames are accepted:
	// the reader's replay state is live while the writers sign)
	bothKeys := idx%4 == 1
	if r.Chance(1, 3) || k == 64 || bothKeys {
		outKey = frame.NewV2Key(keyRaw)
	}
	if bothKeys {
		inKey = outKey
	}
	// in half of the runs the peers sign everything they send (a router in a signed network without keys of its own)
	allSigned := idx%2 == 0 || bothKeys
	// every third run the application's own writers are slow, so that the queues have room for what the consumer forwards
	// (otherwise most forwarded frames are discarded at the full queues and never reach a writer goroutine)
	router := idx%3 == 1
	node := &gomavlib.Node{Endpoints: eps, Dialect: testDialect, OutVersion: gomavlib.V2, OutSystemID: 51, OutKey: outKey, InKey: inKey,
		HeartbeatPeriod: 5 * time.Millisecond, StreamRequestEnable: true, IdleTimeout: time.Second, WriteTimeout: 200 * time.Millisecond}
	if err := node.Initialize(); err != nil {
		rep.Inconclusive("C15: " + err.Error())
		return
	}
	// a second node of the same process on the same dialect value, with its own heartbeats (two link layers in one program)
	tr2 := fake.NewTransport("second-node")
	node2 := &gomavlib.Node{Endpoints: []gomavlib.EndpointConf{gomavlib.EndpointCustom{ReadWriteCloser: tr2}}, Dialect: testDialect, OutVersion: gomavlib.V2, OutSystemID: 52,
		HeartbeatPeriod: 3 * time.Millisecond, HeartbeatSystemType: 7, StreamRequestEnable: true}
	if err := node2.Initialize(); err == nil {
		go func() {
			for range node2.Events() {
			}
		}()
		defer node2.Close()
		rep.Count("api_mix_runs_with_a_second_node_on_the_same_dialect", 1)
	}
	peerKey := r.Bytes(32) // peers sign some of what they send
	if bothKeys {
		peerKey = keyRaw
		rep.Count("api_mix_runs_with_in_and_out_key", 1)
	}
	cons := newConsumer(rep, "C15", "mix", node)
	cons.noAutomaton = true
	var fwd int64
	// the consumer forwards received frames (router), fixing some of them first
	cons.onEvent = func(e *evRec, ci *chanInfo) {
		if e.Type != "frame" {
			return
		}
		n := atomic.AddInt64(&fwd, 1)
		if n%3 == 0 {
			if m, ok := e.Frame.GetMessage().(*MessageVfUid); ok {
				m.Kind++
				_ = node.FixFrame(e.Frame)
			}
		}
		if n%4 == 1 {
			// a router that forwards the received frame with one addressed write per destination: the same frame object
			// goes into several calls, one after the other
			for _, oc := range cons.openChannels() {
				if oc.Ch != e.Ch {
					_ = node.WriteFrameTo(oc.Ch, e.Frame)
				}
			}
			return
		}
		_ = node.WriteFrameExcept(e.Ch, e.Frame)
		if v2, ok := e.Frame.(*frame.V2Frame); ok && n%5 == 2 {
			// edit-and-resend: the original has just been handed to the channel writers; a value copy of it (sharing nothing
			// that the application writes) is re-stamped, fixed and sent as well
			cp := *v2
			cp.SystemID ^= 0x01
			_ = node.FixFrame(&cp)
			_ = node.WriteFrameExcept(e.Ch, &cp)
			rep.Count("copies_fixed_while_the_original_is_queued", 1)
		}
	}
	cons.start()
	var stop int32
	var wg sync.WaitGroup
	// TCP peers coming and going
	wg.Add(1)
	go func() {
		defer wg.Done()
		for i := 0; atomic.LoadInt32(&stop) == 0; i++ {
			c, err := net.Dial("tcp4", fmt.Sprintf("127.0.0.1:%d", port))
			if err != nil {
				return
			}
			go func() {
				buf := make([]byte, 4096)
				for {
					if _, err := c.Read(buf); err != nil {
						return
					}
				}
			}()
			for j := 0; j < 30 && atomic.LoadInt32(&stop) == 0; j++ {
				_, _ = c.Write(uidFrame(uint64(j), byte(j), 8, j%4 == 0, nil, 0))
				_, _ = c.Write(hbFrame(byte(1+j%200), byte(1+i%50), 3, 0))
				if j%3 == 1 || allSigned {
					// a signed frame (the node checks no signatures): its signature block travels with the forwarded frame
					_, _ = c.Write(uidFrame(uint64(j)|1<<40, byte(j), 8, false, peerKey, uint64(1000+i*100+j)))
				}
				time.Sleep(200 * time.Microsecond)
			}
			c.Close()
		}
	}()
	// incoming traffic on the custom links: frames (v1, v2 and signed v2) and ArduPilot heartbeats from new senders on >= 3 channels at once
	for ti, tr := range trs {
		if ti >= 6 {
			break
		}
		wg.Add(1)
		go func(ti int, tr *fake.Transport) {
			defer wg.Done()
			for i := 0; atomic.LoadInt32(&stop) == 0; i++ {
				tr.Feed(uidFrame(uint64(ti)<<32|uint64(i), byte(i), 9, i%3 == 0, nil, 0))
				tr.Feed(hbFrame(byte(1+i%250), byte(1+(i/250)%250), 3, uint32(i)))
				if i%3 == 2 || allSigned {
					tr.Feed(uidFrame(uint64(ti)<<32|uint64(i)|1<<40, byte(i), 9, false, peerKey, uint64(1000+i)))
					rep.Count("signed_frames_fed", 1)
				}
				if i%4 == 1 {
					// a frame whose id is not in the node's dialect, with a payload: forwarded as it is by the consumer
					u := &ref.FrameSpec{Version: 2, Seq: byte(i), Sys: 7, Comp: 7, MsgID: 77777, Payload: []byte{1, 2, 3, 4, 5, 6, 7, 8, 9, 10, 11, 12, byte(i)}, Checksum: uint16(i)}
					tr.Feed(ref.Serialize(u))
				}
				if ti == 0 && i%40 == 39 {
					tr.FeedError(errSession) // the channel closes and re-opens
				}
				time.Sleep(150 * time.Microsecond)
			}
		}(ti, tr)
	}
	// 8 goroutines: all six Write* flavours; one message value shared by all of them (the API only reads it)
	shared := &MessageVfUid{Uid: 0x5A5A, Kind: 9}
	// an already encoded message with a zero-padded payload, shared by every writer and every channel
	sharedRaw := &message.MessageRaw{ID: 5000, Payload: []byte{1, 2, 3, 4, 5, 6, 7, 8, 9, 0, 0, 0}}
	for g := 0; g < 8; g++ {
		wg.Add(1)
		gr := r.Fork()
		go func(g int) {
			defer wg.Done()
			for i := 0; atomic.LoadInt32(&stop) == 0; i++ {
				open := cons.openChannels()
				var ch *gomavlib.Channel
				if len(open) > 0 {
					ch = open[gr.Intn(len(open))].Ch
				}
				var m message.Message = shared
				if i%2 == 0 {
					m = &MessageVfUid{Uid: uint64(g)<<32 | uint64(i)}
				} else if i%7 == 1 {
					m = sharedRaw
				}
				// own frame objects: v2 and v1, decoded messages
				var fr frame.Frame = &frame.V2Frame{SystemID: byte(g + 1), ComponentID: 1, SequenceNumber: byte(i), Message: &MessageVfUid{Uid: uint64(i)}}
				if i%3 == 0 {
					fr = &frame.V1Frame{SystemID: byte(g + 1), ComponentID: 1, SequenceNumber: byte(i), Message: &MessageVfLow{Uid: uint64(i)}}
				}
				if i%5 == 0 {
					fr = &frame.V1Frame{SystemID: byte(g + 1), ComponentID: 1, Message: &common.MessageHeartbeat{Type: 2, MavlinkVersion: 3}}
				}
				switch gr.Intn(7) {
				case 0:
					_ = node.WriteMessageAll(m)
				case 1:
					_ = node.WriteMessageTo(ch, m)
				case 2:
					_ = node.WriteMessageExcept(ch, m)
				case 3:
					_ = node.WriteFrameAll(fr)
				case 4:
					_ = node.WriteFrameTo(ch, fr)
				case 5:
					_ = node.WriteFrameExcept(ch, fr)
				case 6:
					_ = node.FixFrame(fr)
					_ = node.WriteFrameAll(fr)
					if i%2 == 0 {
						_ = node.WriteFrameTo(ch, fr) // the same frame object again, by the same goroutine
					}
				}
				if i%16 == 0 {
					time.Sleep(50 * time.Microsecond)
				}
				if router {
					time.Sleep(400 * time.Microsecond)
				}
			}
		}(g)
	}
	time.Sleep(time.Duration(vh.Pick(120, 400)+r.Intn(100)) * time.Millisecond)
	// Close races with everything
	if !safeClose(rep, node) {
		return
	}
	atomic.StoreInt32(&stop, 1)
	wg.Wait()
	<-cons.done
	rep.Eval(1)
	rep.Count("api_mix_runs", 1)
	if router {
		rep.Count("api_mix_runs_router_mode", 1)
		n := 0
		for _, tr := range trs {
			n += tr.NWrites()
		}
		rep.Count("router_mode_frames_written_to_custom_links", n)
	}
	rep.Count("frames_forwarded_by_consumer", int(atomic.LoadInt64(&fwd)))
	if atomic.LoadInt32(&hookOff) != 0 {
		rep.Distinct("unhooked", idx, k, outKey != nil, allSigned, router)
	} else {
		rep.Distinct("sig", hookSignature())
	}
	for p, n := range hookHits() {
		rep.Count("hook:"+p, n)
	}
}

func TestC15(t *testing.T) {
	rep := vh.NewReport("C15")
	defer rep.Finish(t)
	rep.Rule("Go race detector (GORACE halt_on_error=0, reports kept when a frame of github.com/bluenviron/gomavlib/v3 is on a stack, de-duplicated by outermost library entry points) over: an API mix " +
		"(3-4 custom channels + a TCP server with peers coming and going, incoming v1 / v2 / signed v2 frames and frames of unknown ids, heartbeats at 5 ms, stream requests triggered from >= 3 channels at once, eight goroutines issuing all six Write* flavours with " +
		"their own v1/v2 frame objects and one shared message value, the consumer forwarding and fixing received frames, a channel closing and re-opening, Close racing with everything) and the workloads " +
		"of C10, C11, C12 (random-instant closes over all eleven endpoint kinds), C13, C14 (client / serial reconnect sequences, servers with many peers) and C16 re-run under the detector; several shards with different GOMAXPROCS. Two iterations out of three run with no hook installed (the hook's mutex would add happens-before edges between library goroutines and hide races from the detector); the others use hook perturbation. distinct = interleaving signatures of the hooked API-mix runs + configurations of the unhooked ones")
	rep.RuleAdd("Also: links that end on their own (read error / EOF) after the node discarded items for them (overflow) or had writes fail on them, with no write after the last discarded item. Value copies of received signed frames fixed while the original is queued.")
	rep.RuleAdd("Rounds 12-15: links that end after an overflow, edit-and-resend copies, 25 (thorough 120) lives of one node value under the race detector.")
	rep.Assume("each goroutine uses its own frame objects (the API mutates the frame it is given); absence of reports on the schedules run is not absence of races")
	seed := shardSeed()
	shard, nsh := shardInfo()
	if nsh > 1 && shard == nsh-1 {
		// a child process of its own: a node that lives longer than the library's 30 s housekeeping / re-request period
		// while several channels take ArduPilot heartbeats
		c15long(rep)
		rep.Floor("long_run_over_30s", 1)
		return
	}
	aux := vh.NewReport("C15-aux") // findings of the re-used workloads belong to their own properties
	prev := gomavlib.VerifSetReconnectPeriod(60 * time.Millisecond)
	defer gomavlib.VerifSetReconnectPeriod(prev)
	n := vh.Pick(9, 240)
	for i := 0; i < n; i++ {
		// two runs out of three without the harness's hook: its mutex would order the library's goroutines
		if i%3 != 0 {
			atomic.StoreInt32(&hookOff, 1)
			fake.SetUnordered(true)
			rep.Count("iterations_without_hooks", 1)
		} else {
			atomic.StoreInt32(&hookOff, 0)
			fake.SetUnordered(false)
		}
		c15apiMix(rep, seed, i)
		c15linkEndsAfterOverflow(rep, seed, i)
		c15lives(rep, seed, i)
		switch (i + shard) % 6 {
		case 0:
			c10custom(aux, seed, 7000+i)
			c10net(aux, seed, 7000+i)
			rep.Count("workload_c10", 2)
		case 1:
			c11scenario(aux, seed, 7000+i)
			rep.Count("workload_c11", 1)
		case 2:
			r := vh.Sub(seed, fmt.Sprintf("c15-c12-%d", i))
			c12placement(aux, r, c12kinds[r.Intn(len(c12kinds))], "", 0, i%2 == 0, 3, 0)
			rep.Count("workload_c12", 1)
		case 3:
			c13stall(aux, seed, 7000+i, 1+i%3)
			c13fail(aux, seed, 7000+i, "werr-once", 2)
			rep.Count("workload_c13", 2)
		case 4:
			c16streamRequests(aux, seed, 7000+i)
			_, _ = c16heartbeats(aux, seed, 7000+i, 20*time.Millisecond)
			rep.Count("workload_c16", 2)
		case 5:
			c14tcpClient(aux, seed, 7000+i)
			c14serial(aux, seed, 7000+i)
			c14serial(aux, seed, 7000+4*i) // (multiples of four: no failed open before the device goes away for good, and the node is closed while it is away)
			c14servers(aux, seed, 7000+i)
			rep.Count("workload_c14", 4)
		}
		rep.Eval(1)
	}
	atomic.StoreInt32(&hookOff, 0)
	fake.SetUnordered(false)

	gomavlib.VerifSetHook(nil)
	rep.Sample(map[string]interface{}{"api_mix": "4 custom + tcp server, out key, 8 writers x 7 operations, consumer forwards with WriteFrameExcept / FixFrame, Close after 150 ms"})
	rep.Floor("api_mix_runs", 3)
	rep.Floor("frames_forwarded_by_consumer", 100)
}

// c15linkEndsAfterOverflow: a link stalls until the node has discarded items for it (queue overflow) or had writes fail on
// it, and then ends ON ITS OWN (read error / EOF) - not through Node.Close: whatever the channel's teardown reads (to build
// its close event) and whatever the node loop wrote while writing to that channel meet here. No heartbeats and no write
// after the last discarded item, so that nothing orders the loop's last access before the teardown by accident.
func c15linkEndsAfterOverflow(rep *vh.Report, seed uint64, idx int) {
	if aborted() {
		return
	}
	r := vh.Sub(seed, fmt.Sprintf("c15-leo-%d", idx))
	trs := []*fake.Transport{fake.NewTransport("leo0"), fake.NewTransport("leo1")}
	node := &gomavlib.Node{Endpoints: []gomavlib.EndpointConf{gomavlib.EndpointCustom{ReadWriteCloser: trs[0]}, gomavlib.EndpointCustom{ReadWriteCloser: trs[1]}},
		Dialect: testDialect, OutVersion: gomavlib.V2, OutSystemID: 53, HeartbeatDisable: true}
	if err := node.Initialize(); err != nil {
		return
	}
	var mu sync.Mutex
	chans := map[*fake.Transport]*gomavlib.Channel{}
	closed := make(chan struct{}, 8)
	done := make(chan struct{})
	go func() {
		defer close(done)
		for e := range node.Events() {
			switch ev := e.(type) {
			case *gomavlib.EventChannelOpen:
				mu.Lock()
				for _, tr := range trs {
					if ev.Channel.Endpoint().Conf().(gomavlib.EndpointCustom).ReadWriteCloser == tr {
						chans[tr] = ev.Channel
					}
				}
				mu.Unlock()
			case *gomavlib.EventChannelClose:
				_ = fmt.Sprint(ev.Error) // the application looks at the cause
				select {
				case closed <- struct{}{}:
				default:
				}
			}
		}
	}()
	get := func(tr *fake.Transport) *gomavlib.Channel {
		for i := 0; i < 400; i++ {
			mu.Lock()
			c := chans[tr]
			mu.Unlock()
			if c != nil {
				return c
			}
			time.Sleep(500 * time.Microsecond)
		}
		return nil
	}
	v := trs[idx%2]
	ch := get(v)
	if ch != nil {
		switch idx % 3 {
		case 0, 1: // overflow
			v.BlockWrites()
			for i := 0; i < 70+r.Intn(40); i++ {
				if i%2 == 0 {
					_ = node.WriteMessageTo(ch, &MessageVfUid{Uid: uint64(i)})
				} else {
					_ = node.WriteMessageAll(&MessageVfUid{Uid: uint64(i)})
				}
			}
			time.Sleep(time.Duration(1+r.Intn(3)) * time.Millisecond)
		case 2: // failing writes
			v.FailWriteAt(v.WriteCalls()+1, errWrite, true)
			for i := 0; i < 20; i++ {
				_ = node.WriteMessageTo(ch, &MessageVfUid{Uid: uint64(i)})
			}
			time.Sleep(time.Millisecond)
		}
		if idx%2 == 0 {
			v.FeedError(errSession)
		} else {
			v.FeedError(io.EOF)
		}
		time.Sleep(time.Duration(r.Intn(2000)) * time.Microsecond)
		v.UnblockWrites()
		v.StopFailing()
		select {
		case <-closed:
			rep.Count("links_ended_on_their_own_after_overflow_or_failed_writes", 1)
		case <-time.After(2 * time.Second):
		}
	}
	safeClose(rep, node)
	<-done
}

// c15lives: one Node value initialised, used and closed many times in a row with its configuration (heartbeat fields, ids,
// the dialect's version) changed in place between the lives, heartbeats and stream requests running at a period of a
// millisecond or less: whatever a life started has ended when Close returns, so nothing of it reads what the application
// rewrites for the next life.
func c15lives(rep *vh.Report, seed uint64, idx int) {
	if aborted() {
		return
	}
	r := vh.Sub(seed, fmt.Sprintf("c15-lives-%d", idx))
	d := &dialect.Dialect{Version: 3, Messages: testDialect.Messages}
	node := &gomavlib.Node{Dialect: d, OutVersion: gomavlib.V2, OutSystemID: 54, HeartbeatPeriod: 300 * time.Microsecond, StreamRequestEnable: true}
	for life := 0; life < vh.Pick(25, 120); life++ {
		tr := fake.NewTransport("lives")
		node.Endpoints = []gomavlib.EndpointConf{gomavlib.EndpointCustom{ReadWriteCloser: tr}}
		node.HeartbeatSystemType = 1 + life%20
		node.HeartbeatAutopilotType = life % 5
		node.OutSystemID = byte(1 + life%200)
		node.OutComponentID = byte(life % 3)
		node.StreamRequestFrequency = 1 + life%9
		d.Version = life % 4
		if life%7 == 3 {
			node.OutVersion = gomavlib.V1
		} else {
			node.OutVersion = gomavlib.V2
		}
		if err := node.Initialize(); err != nil {
			return
		}
		done := make(chan struct{})
		go func() {
			defer close(done)
			for range node.Events() {
			}
		}()
		tr.Feed(hbFrame(byte(1+life%100), 1, 3, 0))
		time.Sleep(time.Duration(200+r.Intn(1500)) * time.Microsecond)
		if !safeClose(rep, node) {
			return
		}
		<-done
		rep.Count("node_value_lives_under_the_race_detector", 1)
	}
}

func c15long(rep *vh.Report) {
	trs := []*fake.Transport{fake.NewTransport("l0"), fake.NewTransport("l1"), fake.NewTransport("l2")}
	var eps []gomavlib.EndpointConf
	for _, tr := range trs {
		eps = append(eps, gomavlib.EndpointCustom{ReadWriteCloser: tr})
	}
	node := &gomavlib.Node{Endpoints: eps, Dialect: testDialect, OutVersion: gomavlib.V2, OutSystemID: 52, HeartbeatPeriod: 50 * time.Millisecond, StreamRequestEnable: true}
	if err := node.Initialize(); err != nil {
		return
	}
	go func() {
		for range node.Events() {
		}
	}()
	start := time.Now()
	for i := 0; time.Since(start) < 32*time.Second; i++ {
		for ti, tr := range trs {
			tr.Feed(hbFrame(byte(1+i%250), byte(1+ti), 3, 0))
		}
		time.Sleep(2 * time.Millisecond)
	}
	if !safeClose(rep, node) {
		return
	}
	rep.Count("long_run_over_30s", 1)
}
