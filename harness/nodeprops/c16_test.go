package nodeprops

import (
	"fmt"
	"net"
	"reflect"
	"sort"
	"sync"
	"sync/atomic"
	"testing"
	"time"

	"github.com/bluenviron/gomavlib/v3"
	"github.com/bluenviron/gomavlib/v3/pkg/dialect"
	"github.com/bluenviron/gomavlib/v3/pkg/dialects/common"
	"github.com/bluenviron/gomavlib/v3/pkg/message"

	"verifharness/fake"
	"verifharness/ref"
	twinhb "verifharness/twin/hb"
	"verifharness/vh"
)

// C16 — automatic heartbeats and stream requests do what is configured, no more.

// a non-standard id-0 message: same field names, different CRC_EXTRA
type MessageHeartbeat struct {
	Type           uint64 `mavenum:"uint8"`
	Autopilot      uint64 `mavenum:"uint8"`
	BaseMode       uint64 `mavenum:"uint8"`
	CustomMode     uint16
	SystemStatus   uint64 `mavenum:"uint8"`
	MavlinkVersion uint8
}

func (*MessageHeartbeat) GetID() uint32 { return 0 }

type hbConf struct {
	name    string
	dialect *dialect.Dialect
	disable bool
	expect  bool
}

func c16heartbeats(rep *vh.Report, seed uint64, idx int, P time.Duration) (spacingBad bool, wayOff bool) {
	if aborted() {
		return
	}
	r := vh.Sub(seed, fmt.Sprintf("c16-hb-%d", idx))
	k := 1 + r.Intn(4)
	sysType, apType := 1+r.Intn(30), r.Intn(20)
	ver := []int{0, 0, 1, 2, 3, 255}[r.Intn(6)] + r.Intn(2)*r.Intn(120)
	if ver > 255 {
		ver = 255
	}
	outV := gomavlib.V2
	if r.Chance(1, 3) {
		outV = gomavlib.V1
	}
	d := &dialect.Dialect{Version: ver, Messages: []message.Message{&common.MessageHeartbeat{}, &common.MessageRequestDataStream{}, &MessageVfUid{}, &MessageVfLow{}}}
	if idx%2 == 1 {
		// the standard heartbeat as a hand-written struct whose Go fields are declared in another order (wire order): same
		// message for every peer; used after (and next to) nodes on the generated struct in this process
		d.Messages[0] = &twinhb.MessageHeartbeat{}
		rep.Count("heartbeat_scenarios_with_reordered_go_struct", 1)
	}
	var trs []*fake.Transport
	var eps []gomavlib.EndpointConf
	for i := 0; i < k; i++ {
		tr := fake.NewTransport(fmt.Sprintf("h%d", i))
		trs = append(trs, tr)
		eps = append(eps, gomavlib.EndpointCustom{ReadWriteCloser: tr})
	}
	lport := freeTCPPort()
	eps = append(eps, gomavlib.EndpointTCPServer{Address: fmt.Sprintf("127.0.0.1:%d", lport)})
	spacingLate := false
	node := &gomavlib.Node{Endpoints: eps, Dialect: d, OutVersion: outV, OutSystemID: 9, HeartbeatPeriod: P,
		HeartbeatSystemType: sysType, HeartbeatAutopilotType: apType, IdleTimeout: 10 * time.Second}
	t0 := time.Now()
	if err := node.Initialize(); err != nil {
		rep.HarnessError(err.Error())
		return
	}
	cons := newConsumer(rep, "C16", "custom", node)
	cons.start()
	// application writes share the links
	stop := make(chan struct{})
	go func() {
		for i := 0; ; i++ {
			select {
			case <-stop:
				return
			case <-time.After(P / 3):
				_ = node.WriteMessageAll(&MessageVfLow{Uid: uint64(i), Kind: 1})
			}
		}
	}()
	want := 24
	// half-way through, a peer connects to the TCP server endpoint: a channel that opens later gets the later ticks
	time.Sleep(time.Duration(want/2) * P)
	var late net.Conn
	var lateHB int32
	lateDone := make(chan struct{})
	if c, err := net.Dial("tcp4", fmt.Sprintf("127.0.0.1:%d", lport)); err == nil {
		late = c
		_, _ = c.Write(uidFrame(1, 0, 3, false, nil, 0))
		go func() {
			defer close(lateDone)
			var buf []byte
			tmp := make([]byte, 2048)
			for {
				n, err := c.Read(tmp)
				buf = append(buf, tmp[:n]...)
				for len(buf) > 0 {
					f, ln, st := ref.ParseAt(buf, 0)
					if st != ref.ParseOK {
						break
					}
					if f.MsgID == 0 {
						atomic.AddInt32(&lateHB, 1)
					}
					buf = buf[ln:]
				}
				if err != nil {
					return
				}
			}
		}()
	} else {
		close(lateDone)
	}
	time.Sleep(time.Duration(want-want/2)*P + P/2)
	close(stop)
	if !safeClose(rep, node) {
		return
	}
	tEnd := time.Now()
	<-cons.done
	if late != nil {
		late.Close()
		<-lateDone
		n := int(atomic.LoadInt32(&lateHB))
		rep.Count("late_channel_heartbeats", n)
		if n < want/2-4 {
			spacingLate = true
		}
		if n > want/2+2 {
			rep.Violation("what=hb-rate", fmt.Sprintf("a channel opened half-way received %d heartbeats in %d periods", n, want/2), nil)
		}
	}
	bound := int(tEnd.Sub(t0) / P)
	counts := make([]int, k)
	for ti, tr := range trs {
		var arrivals []int64
		for _, w := range tr.Writes() {
			f, _, st := ref.ParseAt(w.Data, 0)
			if st != ref.ParseOK || f.MsgID != 0 {
				continue
			}
			counts[ti]++
			arrivals = append(arrivals, w.T)
			rep.Eval(1)
			rep.Count("heartbeats_seen", 1)
			if (f.Version == 2) != (outV == gomavlib.V2) {
				rep.Violation("what=hb-field:version", fmt.Sprintf("heartbeat sent in a v%d frame by a node configured for %v", f.Version, outV), nil)
			}
			hb, err := hbLayout.Decode(f.Payload, f.Version == 2)
			if err != nil {
				rep.Violation("what=hb-field:payload", fmt.Sprintf("heartbeat payload does not decode in its frame's version (v%d, dialect version %d): %v", f.Version, ver, err), vh.Hex(w.Data))
				continue
			}
			m := hb.Interface().(*common.MessageHeartbeat)
			switch {
			case int(m.Type) != sysType:
				rep.Violation("what=hb-field:type", fmt.Sprintf("heartbeat system type %d, configured %d", m.Type, sysType), nil)
			case int(m.Autopilot) != apType:
				rep.Violation("what=hb-field:autopilot", fmt.Sprintf("heartbeat autopilot type %d, configured %d", m.Autopilot, apType), nil)
			case m.BaseMode != 0 || m.CustomMode != 0:
				rep.Violation("what=hb-field:mode", "heartbeat base / custom mode not zero", nil)
			case m.SystemStatus != 4:
				rep.Violation("what=hb-field:status", fmt.Sprintf("heartbeat system status %d, expected 4 (active)", m.SystemStatus), nil)
			case int(m.MavlinkVersion) != ver&0xFF:
				rep.Violation("what=hb-field:version", fmt.Sprintf("heartbeat mavlink version %d, dialect version %d", m.MavlinkVersion, ver), nil)
			}
			if f.Sys != 9 || f.Comp != 1 {
				rep.Violation("what=hb-field:identity", "heartbeat does not carry the node's system / component id", nil)
			}
		}
		// sound upper bound: a ticker never fires early
		if counts[ti] > bound {
			rep.Violation("what=hb-rate", fmt.Sprintf("%d heartbeats within %v at period %v: more than one per period", counts[ti], tEnd.Sub(t0), P), nil)
		}
		// spacing: median inter-arrival
		if len(arrivals) >= 8 {
			var gaps []float64
			for i := 1; i < len(arrivals); i++ {
				gaps = append(gaps, float64(arrivals[i]-arrivals[i-1]))
			}
			sort.Float64s(gaps)
			med := gaps[len(gaps)/2] / float64(P)
			rep.Set(fmt.Sprintf("median_spacing_over_period_P%dms", P/time.Millisecond), med)
			if med < 0.8 || med > 1.3 {
				spacingBad = true
			}
			if len(arrivals) < 20 {
				spacingBad = true
			}
			if med < 0.6 || med > 1.7 {
				wayOff = true // what a wrong period looks like (halved / doubled), not what scheduling jitter looks like
			}
		} else {
			spacingBad = true // too few heartbeats for the configured period
			wayOff = true     // fewer than 8 heartbeats in 24 periods
		}
	}
	// every open channel gets every tick (all channels were open from the first tick on)
	for ti := 1; ti < k; ti++ {
		if d := counts[ti] - counts[0]; d > 1 || d < -1 {
			rep.Violation("what=hb-rate", fmt.Sprintf("channels received different numbers of heartbeats: %v", counts), nil)
			break
		}
	}
	rep.Count("heartbeat_runs", 1)
	rep.Distinct("hb", k, sysType, apType, ver, int(P/time.Millisecond), outV)
	return spacingBad || spacingLate, wayOff
}

func c16noHeartbeats(rep *vh.Report) {
	confs := []hbConf{
		{"disabled", &dialect.Dialect{Version: 3, Messages: []message.Message{&common.MessageHeartbeat{}}}, true, false},
		{"dialect-nil", nil, false, false},
		{"dialect-lacks-id0", &dialect.Dialect{Version: 3, Messages: []message.Message{&MessageVfUid{}, &common.MessageRequestDataStream{}}}, false, false},
		{"non-standard-id0", &dialect.Dialect{Version: 3, Messages: []message.Message{&MessageHeartbeat{}, &MessageVfUid{}}}, false, false},
		{"control-standard", &dialect.Dialect{Version: 3, Messages: []message.Message{&common.MessageHeartbeat{}}}, false, true},
	}
	var wg sync.WaitGroup
	for _, c := range confs {
		wg.Add(1)
		go func(c hbConf) {
			defer wg.Done()
			tr := fake.NewTransport(c.name)
			node := &gomavlib.Node{Endpoints: []gomavlib.EndpointConf{gomavlib.EndpointCustom{ReadWriteCloser: tr}}, Dialect: c.dialect, OutVersion: gomavlib.V2,
				OutSystemID: 9, HeartbeatPeriod: 10 * time.Millisecond, HeartbeatDisable: c.disable}
			if err := node.Initialize(); err != nil {
				rep.HarnessError(c.name + ": " + err.Error())
				return
			}
			go func() {
				for range node.Events() {
				}
			}()
			time.Sleep(250 * time.Millisecond)
			if !safeClose(rep, node) {
				return
			}
			n := tr.NWrites()
			rep.Eval(1)
			rep.Count("no_heartbeat_configs", 1)
			rep.Distinct("nohb", c.name)
			if !c.expect && n != 0 {
				rep.Violation("what=hb-when-disabled case="+c.name, fmt.Sprintf("%d frames were emitted although no heartbeat may be sent (%s)", n, c.name), vh.Hex(tr.Output()[:minInt(40, len(tr.Output()))]))
			}
			if c.expect && n < 5 {
				rep.HarnessError(fmt.Sprintf("control configuration emitted only %d heartbeats", n))
			}
		}(c)
	}
	wg.Wait()
}

type srcTuple struct {
	ch        int
	sys, comp byte
	autopilot byte // autopilot type of its heartbeats
	first     byte // autopilot type of its very first heartbeat (a sender may announce another type first)
}

// MessageVfNotRDS has the id of REQUEST_DATA_STREAM and another definition.
type MessageVfNotRDS struct {
	Foo uint32
	Bar [4]uint8
}

func (*MessageVfNotRDS) GetID() uint32 { return 66 }

func c16streamRequests(rep *vh.Report, seed uint64, idx int) {
	if aborted() {
		return
	}
	r := vh.Sub(seed, fmt.Sprintf("c16-sr-%d", idx))
	k := 1 + r.Intn(4)
	freq := 1 + r.Intn(50)
	enabled := r.Intn(6) != 0
	withRDS := r.Intn(6) != 0
	msgs := []message.Message{&common.MessageHeartbeat{}, &MessageVfUid{}}
	if withRDS {
		msgs = append(msgs, &common.MessageRequestDataStream{})
	} else if r.Chance(1, 2) {
		// id 66 is there, but it is not the standard REQUEST_DATA_STREAM: nothing can be requested with it
		msgs = append(msgs, &MessageVfNotRDS{})
		rep.Count("sr_scenarios_with_nonstandard_id_66", 1)
	}
	var trs []*fake.Transport
	var eps []gomavlib.EndpointConf
	for i := 0; i < k; i++ {
		tr := fake.NewTransport(fmt.Sprintf("r%d", i))
		trs = append(trs, tr)
		eps = append(eps, gomavlib.EndpointCustom{ReadWriteCloser: tr})
	}
	ownSys, ownComp := byte(1+r.Intn(250)), byte(r.Intn(4)) // component 0 = unset = 1
	node := &gomavlib.Node{Endpoints: eps, Dialect: &dialect.Dialect{Version: 3, Messages: msgs}, OutVersion: gomavlib.V2, OutSystemID: ownSys, OutComponentID: ownComp,
		HeartbeatDisable: true, StreamRequestEnable: enabled, StreamRequestFrequency: freq}
	if ownComp == 0 {
		ownComp = 1
	}
	if err := node.Initialize(); err != nil {
		rep.HarnessError(err.Error())
		return
	}
	cons := newConsumer(rep, "C16", "custom", node)
	cons.keep = true
	cons.start()
	cons.waitOpen(k, 2*time.Second)
	chanOf := map[*gomavlib.Channel]int{}
	for _, ci := range cons.openChannels() {
		for i, tr := range trs {
			if ci.Tr == tr {
				chanOf[ci.Ch] = i
			}
		}
	}
	// sources: tuples per channel, several heartbeats each, interleaved with other messages; the first heartbeats
	// of different channels are fed at the same moment
	nT := 4 + r.Intn(vh.Pick(12, 40))
	var tuples []srcTuple
	seen := map[srcTuple]bool{}
	for len(tuples) < nT {
		t := srcTuple{ch: r.Intn(k), sys: byte(1 + r.Intn(250)), comp: byte(1 + r.Intn(250)), autopilot: []byte{3, 3, 3, 0, 12, 8}[r.Intn(6)]}
		t.first = t.autopilot
		if t.autopilot == 3 && r.Chance(1, 4) {
			t.first = 12 // the same sender first shows up with another autopilot type: its first ArduPilot heartbeat comes later
		}
		switch len(tuples) {
		case 1:
			t.sys, t.comp = ownSys, ownComp // a sender that uses the node's own system and component id
		case 2:
			t.sys, t.comp = ownSys, ownComp+1
		case 3:
			t.sys, t.comp = ownSys+1, ownComp
		}
		if len(tuples) > 3 && r.Chance(1, 4) {
			// the same (system, component) as an earlier sender, on another channel: senders are per channel
			o := tuples[r.Intn(len(tuples))]
			t.sys, t.comp = o.sys, o.comp
		}
		key := srcTuple{ch: t.ch, sys: t.sys, comp: t.comp}
		if seen[key] {
			continue
		}
		seen[key] = true
		tuples = append(tuples, t)
	}
	// per channel: groups of at most 4 senders; after each group the harness waits until the requests it
	// must trigger are on the wire, so that the 64-item queue can never overflow (7 requests per new sender)
	expectReqEarly := enabled && withRDS
	type group struct {
		data []byte
		want int // cumulative number of writes expected on the channel after this group
	}
	perCh := make([][]group, k)
	cum := make([]int, k)
	inGroup := make([]int, k)
	cur := make([][]byte, k)
	flush := func(ch int) {
		if len(cur[ch]) > 0 {
			perCh[ch] = append(perCh[ch], group{cur[ch], cum[ch]})
			cur[ch], inGroup[ch] = nil, 0
		}
	}
	for round := 0; round < 3; round++ {
		for _, t := range tuples {
			ap := t.autopilot
			if round == 0 {
				ap = t.first
			}
			cur[t.ch] = append(cur[t.ch], hbFrame(t.sys, t.comp, ap, uint32(round))...)
			if expectReqEarly && t.autopilot == 3 && ((round == 0 && t.first == 3) || (round == 1 && t.first != 3)) {
				cum[t.ch] += 7
			}
			if r.Chance(1, 2) {
				// a non-heartbeat message from the same sender
				cur[t.ch] = append(cur[t.ch], uidFrame(uint64(round), 0, t.sys, false, nil, 0)...)
			}
			inGroup[t.ch]++
			if inGroup[t.ch] >= 4 {
				flush(t.ch)
			}
		}
	}
	for ch := 0; ch < k; ch++ {
		flush(ch)
	}
	var wg sync.WaitGroup
	start := make(chan struct{})
	for i := range trs {
		wg.Add(1)
		go func(i int) {
			defer wg.Done()
			<-start
			for _, g := range perCh[i] {
				trs[i].Feed(g.data)
				trs[i].WaitDrained(time.Second)
				trs[i].WaitWrites(g.want, 500*time.Millisecond)
			}
		}(i)
	}
	close(start)
	wg.Wait()
	for _, tr := range trs {
		tr.WaitDrained(2 * time.Second)
	}
	expectReq := enabled && withRDS
	wantPer := make([]int, k)
	for _, t := range tuples {
		if expectReq && t.autopilot == 3 {
			wantPer[t.ch] += 7
		}
	}
	for i, tr := range trs {
		tr.WaitWrites(wantPer[i], 800*time.Millisecond)
	}
	// a re-created channel is a new channel: the first ArduPilot heartbeat of an already known sender on it triggers again
	recreated := map[int]srcTuple{}
	if r.Chance(1, 2) {
		for _, t := range tuples {
			if t.autopilot == 3 {
				if _, done := recreated[t.ch]; !done {
					recreated[t.ch] = t
				}
			}
		}
		for ch, t := range recreated {
			before := len(cons.allChannels())
			trs[ch].FeedError(errSession)
			waitFor(func() bool { return len(cons.allChannels()) > before && len(cons.openChannels()) >= k }, cons.nEvents, time.Second)
			base := trs[ch].NWrites()
			trs[ch].Feed(hbFrame(t.sys, t.comp, 3, 99))
			if expectReq {
				trs[ch].WaitWrites(base+7, 800*time.Millisecond)
			}
			trs[ch].WaitDrained(time.Second)
			rep.Count("recreated_channels", 1)
		}
	}
	time.Sleep(5 * time.Millisecond)
	if !safeClose(rep, node) {
		return
	}
	<-cons.done

	type tk struct {
		ch        int
		sys, comp byte
	}
	got := map[tk][]int{}
	for ti, tr := range trs {
		for _, w := range tr.Writes() {
			f, _, st := ref.ParseAt(w.Data, 0)
			if st != ref.ParseOK {
				rep.Violation("what=sr-field:frame", "node output is not a whole frame", nil)
				continue
			}
			if f.MsgID != 66 {
				rep.Violation("what=sr-spurious", fmt.Sprintf("unexpected message id %d emitted by a node with heartbeats disabled", f.MsgID), nil)
				continue
			}
			rep.Eval(1)
			rep.Count("stream_requests_seen", 1)
			v, err := rdsLayout.Decode(f.Payload, true)
			if err != nil {
				continue
			}
			m := v.Interface().(*common.MessageRequestDataStream)
			if int(m.ReqMessageRate) != freq {
				rep.Violation("what=sr-field:rate", fmt.Sprintf("request rate %d, configured %d", m.ReqMessageRate, freq), nil)
			}
			if m.StartStop != 1 {
				rep.Violation("what=sr-field:start_stop", "start_stop is not 1", nil)
			}
			got[tk{ti, m.TargetSystem, m.TargetComponent}] = append(got[tk{ti, m.TargetSystem, m.TargetComponent}], int(m.ReqStreamId))
		}
	}
	wantStreams := []int{1, 2, 3, 6, 10, 11, 12}
	for _, t := range tuples {
		key := tk{t.ch, t.sys, t.comp}
		g := got[key]
		delete(got, key)
		if rt, ok := recreated[t.ch]; ok && rt == t && expectReq {
			if !reflect.DeepEqual(g, append(append([]int{}, wantStreams...), wantStreams...)) {
				rep.Violation("what=sr-count", fmt.Sprintf("sender (%d,%d): after its channel %d was closed and re-created its first heartbeat on the new channel must trigger the seven requests again; got %v in total", t.sys, t.comp, t.ch, g), nil)
			}
		} else if expectReq && t.autopilot == 3 {
			if !reflect.DeepEqual(g, wantStreams) {
				what := "sr-count"
				if len(g) > 7 {
					what = "sr-repeat"
				}
				rep.Violation("what="+what, fmt.Sprintf("sender (%d,%d) on channel %d got stream requests %v, expected exactly %v once", t.sys, t.comp, t.ch, g, wantStreams),
					map[string]interface{}{"channels": k, "tuples": len(tuples)})
			}
		} else if len(g) != 0 {
			rep.Violation("what=sr-spurious", fmt.Sprintf("stream requests %v sent to a sender with autopilot %d (enabled=%v, dialect has 66=%v)", g, t.autopilot, enabled, withRDS), nil)
		}
	}
	for key, g := range got {
		rep.Violation("what=sr-wrong-channel", fmt.Sprintf("stream requests %v addressed to (%d,%d) on channel %d, where no such sender exists", g, key.sys, key.comp, key.ch), nil)
	}
	// events: exactly one per triggering sender
	evGot := map[tk]int{}
	for _, ci := range cons.allChannels() { // channels re-created during the run are attributed to their transport too
		for i, tr := range trs {
			if ci.Tr == tr {
				chanOf[ci.Ch] = i
			}
		}
	}
	for _, e := range cons.log {
		if e.Type == "streamreq" {
			evGot[tk{chanOf[e.Ch], e.Sys, e.Comp}]++
		}
	}
	for _, t := range tuples {
		key := tk{t.ch, t.sys, t.comp}
		n := evGot[key]
		delete(evGot, key)
		want := 0
		if expectReq && t.autopilot == 3 {
			want = 1
			if rt, ok := recreated[t.ch]; ok && rt == t {
				want = 2
			}
		}
		if n != want {
			rep.Violation("what=sr-event", fmt.Sprintf("%d stream-requested events for sender (%d,%d) on channel %d, expected %d", n, t.sys, t.comp, t.ch, want), nil)
		}
	}
	for key, n := range evGot {
		rep.Violation("what=sr-event", fmt.Sprintf("%d stream-requested events for an unknown sender (%d,%d) on channel %d", n, key.sys, key.comp, key.ch), nil)
	}
	rep.Count("stream_request_runs", 1)
	if expectReq {
		rep.Count("stream_request_runs_enabled", 1)
	}
	rep.Distinct("sr", k, freq, enabled, withRDS, len(tuples))
	if idx == 0 {
		rep.Sample(map[string]interface{}{"channels": k, "frequency": freq, "enabled": enabled, "senders": fmt.Sprintf("%+v", tuples[:minInt(4, len(tuples))])})
	}
}

// c16long: 33 s run: no repeat for a sender earlier than 30 s (thorough tier only).
func c16long(rep *vh.Report) {
	// senders that appear 0, 2 and 5 s after the node started (the node's own housekeeping runs on its own clock) and
	// keep sending heartbeats: per sender, no second batch of requests earlier than 30 s after the previous one
	tr := fake.NewTransport("long")
	trBusy := fake.NewTransport("long-busy") // a link whose one frame keeps the application busy for four seconds
	trNine := fake.NewTransport("long-nine") // the link of the sender first seen at 5 s
	node := &gomavlib.Node{Endpoints: []gomavlib.EndpointConf{gomavlib.EndpointCustom{ReadWriteCloser: tr}, gomavlib.EndpointCustom{ReadWriteCloser: trBusy}, gomavlib.EndpointCustom{ReadWriteCloser: trNine}},
		Dialect: testDialect, OutVersion: gomavlib.V2, OutSystemID: 9,
		HeartbeatDisable: true, StreamRequestEnable: true}
	if err := node.Initialize(); err != nil {
		rep.HarnessError(err.Error())
		return
	}
	var events int64
	go func() {
		slowOnce := false
		for e := range node.Events() {
			if _, ok := e.(*gomavlib.EventStreamRequested); ok {
				atomic.AddInt64(&events, 1)
			}
			if fe, ok := e.(*gomavlib.EventFrame); ok && fe.SystemID() == 77 && !slowOnce {
				// the application is busy for four seconds (it takes no event meanwhile) from just before the sender on the third
				// link is first seen, at 5 s: the requests to that sender are on the wire at once all the same, and the next ones
				// are due 30 s after THEM
				slowOnce = true
				time.Sleep(4 * time.Second)
			}
		}
	}()
	total := 37 * time.Second
	if vh.Thorough() {
		total = 68 * time.Second // two renewals
	}
	starts := map[byte]time.Duration{7: 0, 8: 2 * time.Second, 9: 5 * time.Second}
	if vh.Thorough() {
		starts[10] = 0 // a sender that falls silent between 1 s and 45 s: renewed at 45 s, and then not again before 75 s
	}
	start := time.Now()
	go func() {
		time.Sleep(4800 * time.Millisecond)
		trBusy.Feed(uidFrame(1, 0, 77, false, nil, 0))
	}()
	for time.Since(start) < total {
		el := time.Since(start)
		for sys, t0 := range starts {
			if sys == 10 && el > time.Second && el < 45*time.Second {
				continue
			}
			if el >= t0 {
				if sys == 9 {
					trNine.Feed(hbFrame(sys, 7, 3, 0))
				} else {
					tr.Feed(hbFrame(sys, 7, 3, 0))
				}
			}
		}
		time.Sleep(250 * time.Millisecond)
	}
	if !safeClose(rep, node) {
		return
	}
	batches := map[byte][]time.Duration{} // per target system: time of every request
	for _, w := range append(tr.Writes(), trNine.Writes()...) {
		f, _, st := ref.ParseAt(w.Data, 0)
		if st != ref.ParseOK || f.MsgID != 66 || len(f.Payload) < 3 {
			continue
		}
		batches[f.Payload[2]] = append(batches[f.Payload[2]], time.Duration(w.T))
	}
	nreq := 0
	for sys := range starts {
		ts := batches[sys]
		nreq += len(ts)
		if len(ts) < 7 {
			rep.Violation("what=sr-count", fmt.Sprintf("sender %d got %d stream requests in the long run", sys, len(ts)), nil)
			continue
		}
		if len(ts)%7 != 0 {
			rep.Violation("what=sr-count", fmt.Sprintf("sender %d got %d stream requests in the long run (not a multiple of seven)", sys, len(ts)), nil)
		}
		for i := 7; i < len(ts); i += 7 {
			if gap := ts[i] - ts[i-7]; gap < 29*time.Second {
				rep.Violation("what=sr-repeat", fmt.Sprintf("the stream requests to a sender first seen %v after the node started were repeated %v after the previous ones (not within 30 s)",
					starts[sys], gap.Round(100*time.Millisecond)), nil)
				break
			}
		}
		rep.Count("long_run_batches", len(ts)/7)
	}
	if ev := int(atomic.LoadInt64(&events)); ev*7 != nreq {
		rep.Violation("what=sr-event", fmt.Sprintf("%d stream-requested events for %d requests in the long run", ev, nreq), nil)
	}
	rep.Set("long_run_request_count", nreq)
	rep.Count("long_runs", 1)
	rep.Eval(1)
}

// c16net: stream requests over real sockets: a TCP server endpoint with three ArduPilot peers, one of which leaves while
// the others go on sending heartbeats (they were served moments ago: nothing is repeated for them), and a UDP broadcast
// endpoint on which senders appear whose system / component ids are the node's own or differ from them in one of the two
// (each is a sender like any other: seven requests and one event).
func c16net(rep *vh.Report, seed uint64, idx int) {
	if aborted() {
		return
	}
	r := vh.Sub(seed, fmt.Sprintf("c16-net-%d", idx))
	port := freeTCPPort()
	bport := freeUDPPort()
	bpc, err := net.ListenPacket("udp4", fmt.Sprintf("127.255.255.255:%d", bport))
	if err != nil {
		rep.Inconclusive("C16 net: cannot listen on the loopback broadcast address: " + err.Error())
		return
	}
	defer bpc.Close()
	ownSys, ownComp := byte(10+r.Intn(200)), byte(1+r.Intn(3))
	node := &gomavlib.Node{Endpoints: []gomavlib.EndpointConf{
		gomavlib.EndpointTCPServer{Address: fmt.Sprintf("127.0.0.1:%d", port)},
		gomavlib.EndpointUDPBroadcast{BroadcastAddress: fmt.Sprintf("127.255.255.255:%d", bport), LocalAddress: fmt.Sprintf("127.0.0.1:%d", bport)},
	}, Dialect: testDialect, OutVersion: gomavlib.V2, OutSystemID: ownSys, OutComponentID: ownComp, HeartbeatDisable: true, StreamRequestEnable: true, StreamRequestFrequency: 2, IdleTimeout: 5 * time.Second}
	if err := node.Initialize(); err != nil {
		rep.Inconclusive("C16 net: " + err.Error())
		return
	}
	var events, closes int64
	done := make(chan struct{})
	go func() {
		defer close(done)
		for e := range node.Events() {
			switch e.(type) {
			case *gomavlib.EventStreamRequested:
				atomic.AddInt64(&events, 1)
			case *gomavlib.EventChannelClose:
				atomic.AddInt64(&closes, 1)
			}
		}
	}()
	// requests seen per (link, target system, target component)
	type key struct {
		link      string
		sys, comp byte
	}
	var mu sync.Mutex
	per := map[key]int{}
	count := func(link string, buf []byte) []byte {
		for len(buf) > 0 {
			f, ln, st := ref.ParseAt(buf, 0)
			if st != ref.ParseOK {
				break
			}
			if f.MsgID == 66 && len(f.Payload) >= 4 {
				mu.Lock()
				per[key{link, f.Payload[2], f.Payload[3]}]++
				mu.Unlock()
			}
			buf = buf[ln:]
		}
		return buf
	}
	total := func() int64 {
		mu.Lock()
		defer mu.Unlock()
		n := 0
		for _, c := range per {
			n += c
		}
		return int64(n)
	}
	go func() {
		buf := make([]byte, 2048)
		for {
			n, _, err := bpc.ReadFrom(buf)
			if err != nil {
				return
			}
			count("broadcast", append([]byte(nil), buf[:n]...))
		}
	}()
	// three TCP peers
	var conns []net.Conn
	for i := 0; i < 3; i++ {
		c, err := net.Dial("tcp4", fmt.Sprintf("127.0.0.1:%d", port))
		if err != nil {
			break
		}
		conns = append(conns, c)
		link := fmt.Sprintf("tcp%d", i)
		go func(c net.Conn) {
			var acc []byte
			tmp := make([]byte, 2048)
			for {
				n, err := c.Read(tmp)
				acc = count(link, append(acc, tmp[:n]...))
				if err != nil {
					return
				}
			}
		}(c)
	}
	defer func() {
		for _, c := range conns {
			c.Close()
		}
	}()
	if len(conns) < 3 {
		safeClose(rep, node)
		<-done
		return
	}
	tcpSys := []byte{201, 202, 203}
	for i, c := range conns {
		_, _ = c.Write(hbFrame(tcpSys[i], 1, 3, 0))
	}
	// broadcast senders: the node's own ids, and neighbours of them
	bsend, err := net.Dial("udp4", fmt.Sprintf("127.0.0.1:%d", bport))
	if err != nil {
		safeClose(rep, node)
		<-done
		return
	}
	defer bsend.Close()
	type sid struct{ sys, comp byte }
	bs := []sid{{ownSys, ownComp}, {ownSys + 1, ownComp}, {ownSys, ownComp + 1}}
	for _, x := range bs {
		_, _ = bsend.Write(hbFrame(x.sys, x.comp, 3, 0))
		time.Sleep(2 * time.Millisecond)
	}
	want := int64(7 * (len(tcpSys) + len(bs)))
	waitFor(func() bool { return total() >= want }, total, 500*time.Millisecond)
	first := total()
	// one TCP peer leaves; the other two go on sending heartbeats
	closesBefore := atomic.LoadInt64(&closes)
	conns[1].Close()
	waitFor(func() bool { return atomic.LoadInt64(&closes) > closesBefore }, func() int64 { return atomic.LoadInt64(&closes) }, 500*time.Millisecond)
	for k := 0; k < 6; k++ {
		_, _ = conns[0].Write(hbFrame(tcpSys[0], 1, 3, 0))
		_, _ = conns[2].Write(hbFrame(tcpSys[2], 1, 3, 0))
		for _, x := range bs {
			_, _ = bsend.Write(hbFrame(x.sys, x.comp, 3, 0))
		}
		time.Sleep(15 * time.Millisecond)
	}
	waitFor(func() bool { return false }, total, 150*time.Millisecond)
	if !safeClose(rep, node) {
		return
	}
	<-done
	rep.Eval(1)
	rep.Count("sr_net_scenarios", 1)
	rep.Distinct("sr-net", idx)
	mu.Lock()
	defer mu.Unlock()
	if first < want {
		rep.Observe(fmt.Sprintf("c16 net: %d of %d requests seen before the peer left", first, want))
	}
	for i, sys := range tcpSys {
		if n := per[key{fmt.Sprintf("tcp%d", i), sys, 1}]; n != 7 {
			what := "sr-count"
			if n > 7 {
				what = "sr-repeat"
			}
			rep.Violation("what="+what, fmt.Sprintf("TCP peer %d (system %d) of a server endpoint got %d stream requests, seven expected (peer 1 left after everybody had been served; peers 0 and 2 went on sending heartbeats)", i, sys, n), nil)
		}
	}
	for _, x := range bs {
		if n := per[key{"broadcast", x.sys, x.comp}]; n != 7 {
			rep.Violation("what=sr-count", fmt.Sprintf("ArduPilot sender (%d,%d) on a UDP broadcast endpoint of node (%d,%d) got %d stream requests, seven expected", x.sys, x.comp, ownSys, ownComp, n), nil)
		}
	}
	if ev := atomic.LoadInt64(&events); ev != int64(len(tcpSys)+len(bs)) {
		rep.Violation("what=sr-event", fmt.Sprintf("%d stream-requested events for %d senders over a TCP server and a UDP broadcast endpoint", ev, len(tcpSys)+len(bs)), nil)
	}
}

// c16busyLoop: eight goroutines keep the node busy with writes that go to no channel at all (WriteMessageExcept naming the
// only channel): no channel queue ever fills, yet the node loop always has a request waiting. The heartbeats still come
// out at the configured period: at least 40 % of the nominal number is demanded (they queue up with the other requests;
// a heartbeat that is silently skipped whenever the loop is busy gives a few per cent).
func c16busyLoop(rep *vh.Report, seed uint64, idx int, P time.Duration) (low bool, n int, nominal int) {
	if aborted() {
		return
	}
	tr := fake.NewTransport("busy")
	node := &gomavlib.Node{Endpoints: []gomavlib.EndpointConf{gomavlib.EndpointCustom{ReadWriteCloser: tr}}, Dialect: testDialect, OutVersion: gomavlib.V2, OutSystemID: 61, HeartbeatPeriod: P}
	if err := node.Initialize(); err != nil {
		rep.HarnessError(err.Error())
		return
	}
	cons := newConsumer(rep, "C16", "custom", node)
	cons.start()
	if !cons.waitOpen(1, 2*time.Second) {
		safeClose(rep, node)
		return
	}
	ch := cons.openChannels()[0].Ch
	var stop int32
	var wg sync.WaitGroup
	for g := 0; g < 8; g++ {
		wg.Add(1)
		go func(g int) {
			defer wg.Done()
			m := &MessageVfUid{Uid: uint64(g)}
			for atomic.LoadInt32(&stop) == 0 {
				_ = node.WriteMessageExcept(ch, m)
			}
		}(g)
	}
	periods := 30
	start := time.Now()
	time.Sleep(time.Duration(periods) * P)
	elapsed := time.Since(start)
	atomic.StoreInt32(&stop, 1)
	wg.Wait()
	for _, w := range tr.Writes() {
		if f, _, st := ref.ParseAt(w.Data, 0); st == ref.ParseOK && f.MsgID == 0 {
			n++
		}
	}
	if !safeClose(rep, node) {
		return
	}
	<-cons.done
	nominal = int(elapsed / P)
	rep.Eval(1)
	rep.Count("busy_loop_heartbeat_runs", 1)
	rep.Count("busy_loop_heartbeats_seen", n)
	rep.Distinct("busy-loop", idx, P)
	return n*10 < nominal*4, n, nominal
}

// c16fleet: a link that bridges a large fleet: 1500 distinct ArduPilot (system, component) senders on two channels within
// a few seconds (well inside one 30 s period). Every one of them is a new sender: seven requests and one event each.
func c16fleet(rep *vh.Report, seed uint64) {
	if aborted() {
		return
	}
	trs := []*fake.Transport{fake.NewTransport("fleet0"), fake.NewTransport("fleet1")}
	node := &gomavlib.Node{Endpoints: []gomavlib.EndpointConf{gomavlib.EndpointCustom{ReadWriteCloser: trs[0]}, gomavlib.EndpointCustom{ReadWriteCloser: trs[1]}},
		Dialect: testDialect, OutVersion: gomavlib.V2, OutSystemID: 9, HeartbeatDisable: true, StreamRequestEnable: true, StreamRequestFrequency: 3}
	if err := node.Initialize(); err != nil {
		rep.HarnessError(err.Error())
		return
	}
	var events int64
	done := make(chan struct{})
	go func() {
		defer close(done)
		for e := range node.Events() {
			if _, ok := e.(*gomavlib.EventStreamRequested); ok {
				atomic.AddInt64(&events, 1)
			}
		}
	}()
	total := vh.Pick(1500, 3000)
	fed := [2]int{}
	stalled := false
	for i := 0; i < total && !stalled; i++ {
		ti := i % 2
		sys, comp := byte(1+(i/2)%250), byte(1+(i/2)/250)
		trs[ti].Feed(hbFrame(sys, comp, 3, 0))
		fed[ti]++
		if i%12 == 11 || i == total-1 {
			// flow control: at most 6 senders (42 requests) outstanding per channel, below the 64-item queue
			for t := 0; t < 2; t++ {
				if got := trs[t].WaitWrites(fed[t]*7, 700*time.Millisecond); got < fed[t]*7 {
					stalled = true
				}
			}
		}
	}
	if !safeClose(rep, node) {
		return
	}
	<-done
	type key struct{ ch, sys, comp byte }
	per := map[key]int{}
	for t, tr := range trs {
		for _, w := range tr.Writes() {
			if f, _, st := ref.ParseAt(w.Data, 0); st == ref.ParseOK && f.MsgID == 66 && len(f.Payload) >= 4 {
				per[key{byte(t), f.Payload[2], f.Payload[3]}]++
			}
		}
	}
	rep.Eval(1)
	rep.Count("fleet_senders", fed[0]+fed[1])
	missing, wrong := 0, 0
	var first string
	for i := 0; i < fed[0]+fed[1]; i++ {
		k := key{byte(i % 2), byte(1 + (i/2)%250), byte(1 + (i/2)/250)}
		switch n := per[k]; {
		case n == 0:
			missing++
			if first == "" {
				first = fmt.Sprintf("sender #%d (channel %d, system %d, component %d)", i+1, k.ch, k.sys, k.comp)
			}
		case n != 7:
			wrong++
		}
	}
	if missing > 0 || wrong > 0 {
		rep.Violation("what=sr-count", fmt.Sprintf("of %d distinct ArduPilot senders seen within one period, %d got no stream requests at all and %d a number other than seven; first unserved: %s", fed[0]+fed[1], missing, wrong, first), nil)
	}
	if ev := int(atomic.LoadInt64(&events)); ev != fed[0]+fed[1] {
		rep.Violation("what=sr-event", fmt.Sprintf("%d stream-requested events for %d new senders", ev, fed[0]+fed[1]), nil)
	}
}

// c16housekeepingWindow: a node that knows 40 000 senders (a busy fleet link) when its 30 s housekeeping runs, and 3 000 NEW
// senders whose first heartbeats arrive during the 300 ms around that instant. Each of them speaks again 1.5 s later: it
// was served moments ago, so nothing is requested again and no second event is raised.
func c16housekeepingWindow(rep *vh.Report) {
	tr := fake.NewTransport("hk")
	tr2 := fake.NewTransport("hk2")
	node := &gomavlib.Node{Endpoints: []gomavlib.EndpointConf{gomavlib.EndpointCustom{ReadWriteCloser: tr}, gomavlib.EndpointCustom{ReadWriteCloser: tr2}}, Dialect: testDialect, OutVersion: gomavlib.V2, OutSystemID: 9,
		HeartbeatDisable: true, StreamRequestEnable: true}
	if err := node.Initialize(); err != nil {
		rep.HarnessError(err.Error())
		return
	}
	t0 := time.Now()
	type sid struct{ sys, comp byte }
	var mu sync.Mutex
	evs := map[sid][]time.Duration{}
	type csid struct {
		ch        *gomavlib.Channel
		sys, comp byte
	}
	perLink := map[csid][]time.Duration{}
	done := make(chan struct{})
	go func() {
		defer close(done)
		for e := range node.Events() {
			if sr, ok := e.(*gomavlib.EventStreamRequested); ok {
				mu.Lock()
				k := sid{sr.SystemID, sr.ComponentID}
				evs[k] = append(evs[k], time.Since(t0))
				ck := csid{sr.Channel, sr.SystemID, sr.ComponentID}
				perLink[ck] = append(perLink[ck], time.Since(t0))
				mu.Unlock()
			}
		}
	}()
	sleepUntil := func(d time.Duration) { time.Sleep(time.Until(t0.Add(d))) }
	// the fleet the node already knows
	sleepUntil(12 * time.Second)
	for comp := 1; comp <= 160; comp++ {
		for sys := 1; sys <= 250; sys++ {
			tr.Feed(hbFrame(byte(sys), byte(comp), 3, 0))
		}
		for tr.Pending() > 200000 {
			time.Sleep(time.Millisecond)
		}
	}
	// a second link with 30 000 senders more: over 65 536 (link, system, component) senders inside one 30 s period, which no
	// single link can hold
	for comp := 1; comp <= 120; comp++ {
		for sys := 1; sys <= 250; sys++ {
			tr2.Feed(hbFrame(byte(sys), byte(comp), 3, 0))
		}
		for tr2.Pending() > 200000 {
			time.Sleep(time.Millisecond)
		}
	}
	waitFor(func() bool { return tr.Pending() == 0 && tr2.Pending() == 0 }, func() int64 { return int64(tr.Pending() + tr2.Pending()) }, 2*time.Second)
	// the first 2000 senders of the first link are heard again a few seconds after they were served
	sleepUntil(21 * time.Second)
	for comp := 1; comp <= 8; comp++ {
		for sys := 1; sys <= 250; sys++ {
			tr.Feed(hbFrame(byte(sys), byte(comp), 3, 0))
		}
	}
	// new senders around the housekeeping instant
	sleepUntil(29800 * time.Millisecond)
	var late []sid
	for i := 0; time.Since(t0) < 30300*time.Millisecond && i < 250*80; i++ {
		k := sid{byte(1 + i%250), byte(170 + i/250)}
		late = append(late, k)
		tr.Feed(hbFrame(k.sys, k.comp, 3, 0))
		if i%8 == 7 {
			time.Sleep(100 * time.Microsecond)
		}
	}
	sleepUntil(31800 * time.Millisecond)
	for _, k := range late {
		tr.Feed(hbFrame(k.sys, k.comp, 3, 0))
	}
	waitFor(func() bool { return tr.Pending() == 0 }, func() int64 { return int64(tr.Pending()) }, 500*time.Millisecond)
	time.Sleep(200 * time.Millisecond)
	if !safeClose(rep, node) {
		return
	}
	<-done
	rep.Eval(1)
	rep.Count("housekeeping_window_runs", 1)
	rep.Count("senders_first_seen_around_the_housekeeping_instant", len(late))
	mu.Lock()
	defer mu.Unlock()
	repeated, unserved := 0, 0
	var first string
	rep.Count("link_sender_pairs_served_inside_one_period", len(perLink))
	earlyRepeat := 0
	for k, ts := range perLink {
		if len(ts) > 1 && ts[1]-ts[0] < 29*time.Second && k.comp < 170 {
			earlyRepeat++
			if first == "" {
				first = fmt.Sprintf("sender (%d,%d): events %v and %v after the node started", k.sys, k.comp, ts[0].Round(time.Millisecond), ts[1].Round(time.Millisecond))
			}
		}
	}
	if earlyRepeat > 0 {
		rep.Violation("what=sr-repeat", fmt.Sprintf("%d senders of a fleet of %d (link, system, component) senders on two links were sent the stream requests a second time within 30 s; %s", earlyRepeat, len(perLink), first), nil)
		first = ""
	}
	if len(perLink) < 65537 {
		rep.Violation("what=sr-event", fmt.Sprintf("%d of more than 70 000 senders on two links got a stream-requested event", len(perLink)), nil)
	}
	for _, k := range late {
		ts := evs[k]
		switch {
		case len(ts) == 0:
			unserved++
		case len(ts) > 1 && ts[1]-ts[0] < 29*time.Second:
			repeated++
			if first == "" {
				first = fmt.Sprintf("sender (%d,%d): events %v and %v after the node started", k.sys, k.comp, ts[0].Round(time.Millisecond), ts[1].Round(time.Millisecond))
			}
		}
	}
	if repeated > 0 {
		rep.Violation("what=sr-repeat", fmt.Sprintf("%d of %d senders first seen while the node did its 30 s housekeeping (40 000 senders known) were sent the stream requests again on their next heartbeat 1.5 s later; %s", repeated, len(late), first), nil)
	}
	if unserved > 0 {
		rep.Violation("what=sr-event", fmt.Sprintf("%d of %d senders first seen while the node did its 30 s housekeeping never got a stream-requested event", unserved, len(late)), nil)
	}
}

func TestC16(t *testing.T) {
	rep := vh.NewReport("C16")
	defer rep.Finish(t)
	rep.Rule("heartbeats: configurations (1..4 custom channels, period 20/50 ms, system type, autopilot type, dialect version) with application writes on the same links; wire captures parsed by the reference: " +
		"fields, sound upper bound count <= floor(elapsed/period), median spacing in [0.8,1.3] x period (re-run at a larger period before a verdict), equal counts on all channels; zero frames when disabled / dialect nil / " +
		"dialect lacks id 0 / non-standard id 0. stream requests: 4..40 (channel, system, component, autopilot) senders over 1..4 channels, three heartbeats each interleaved with other messages, first heartbeats of " +
		"different channels fed simultaneously; exactly the seven streams {1,2,3,6,10,11,12} at the configured rate, start_stop 1, to the sender on its channel only, one event per sender, nothing for other autopilots, " +
		"other messages, feature disabled or dialect without id 66; a 37 s (thorough 68 s) run in a child process of its own with senders first seen 0, 2 and 5 s after the node started: no repeat earlier than 30 s after the previous batch. distinct = configurations")
	rep.RuleAdd("Also: a fleet of 1500 (thorough 3000) distinct ArduPilot senders on two channels inside one 30 s period: seven requests and one event each. Stream requests over a TCP server endpoint (one of three peers leaves) and a UDP broadcast endpoint (senders with the node own ids).")
	rep.RuleAdd("Rounds 12-15: stream requests over TCP server and UDP broadcast endpoints, a node loop kept busy, 40 000 + 30 000 known senders on two links with 20 000 more around the 30 s housekeeping, early senders heard again.")
	rep.RuleAdd("Rounds 16-17: the long run's application is busy for 4 s just when a sender is first seen on a link of its own.")
	rep.Assume("spacing is judged on the median and only after a re-run at a 5x larger period also fails (load robustness)")
	seed := shardSeed()
	shard, nsh := shardInfo()
	if nsh > 1 {
		// the last child process only runs the long scenario (37 s / 68 s of real time: the 30 s are a constant of the library)
		if shard == nsh-1 {
			// next to the long run, in the same child process and over the same 30-odd seconds: new senders that appear exactly
			// while the node does its 30 s housekeeping
			hk := make(chan struct{})
			go func() { defer close(hk); c16housekeepingWindow(rep) }()
			c16long(rep)
			<-hk
			rep.Floor("long_runs", 1)
			return
		}
		nsh--
	}
	n := vh.Pick(6, 200)
	for i := 0; i < n; i++ {
		if i%nsh != shard {
			continue
		}
		P := []time.Duration{20 * time.Millisecond, 50 * time.Millisecond}[i%2]
		if bad, _ := c16heartbeats(rep, seed, i, P); bad {
			// re-run at a larger period before declaring a spacing violation
			bad2, way2 := c16heartbeats(rep, seed, i+1000, 5*P)
			switch {
			case bad2 && way2:
				rep.Violation("what=hb-rate", fmt.Sprintf("heartbeat spacing is not the configured period (median spacing outside [0.6,1.7] x period, or fewer than 10 of 24 heartbeats, also at %v)", 5*P), nil)
			case bad2:
				rep.Inconclusive(fmt.Sprintf("heartbeat spacing slightly off at %v and at %v (median outside [0.8,1.3] but inside [0.6,1.7] x period: load)", P, 5*P))
			default:
				rep.Inconclusive(fmt.Sprintf("heartbeat spacing off at %v but fine at %v (load)", P, 5*P))
			}
		}
	}
	if shard == 0 {
		c16noHeartbeats(rep)
		c16fleet(rep, seed)
		for i := 0; i < vh.Pick(2, 12); i++ {
			c16net(rep, seed, i)
		}
		for i := 0; i < vh.Pick(1, 6); i++ {
			if low, n, nominal := c16busyLoop(rep, seed, i, 50*time.Millisecond); low {
				// re-run at a larger period before a verdict (load robustness)
				if low2, n2, nominal2 := c16busyLoop(rep, seed, i+100, 200*time.Millisecond); low2 {
					rep.Violation("what=hb-rate", fmt.Sprintf("while the application keeps the node busy with writes that reach no channel, %d of %d heartbeats came out at a 50 ms period and %d of %d at 200 ms (every open channel receives heartbeats spaced by the configured period)", n, nominal, n2, nominal2), nil)
				} else {
					rep.Inconclusive(fmt.Sprintf("heartbeats under a busy node loop: %d of %d at 50 ms but %d of %d at 200 ms (load)", n, nominal, n2, nominal2))
				}
			}
		}
	}
	for i := 0; i < vh.Pick(60, 3000); i++ {
		if i%nsh == shard {
			c16streamRequests(rep, seed, i)
		}
	}
	rep.Floor("heartbeats_seen", 100)
	rep.Floor("stream_requests_seen", 100)
}
