package vh

import (
	"crypto/sha1"
	"encoding/hex"
	"encoding/json"
	"fmt"
	"os"
	"runtime"
	"sort"
	"sync"
	"testing"
	"time"
)

// Violation is one refutation of a property found by a monitor.
type Violation struct {
	Key     string      `json:"key"`  // stable fingerprint (DESIGN §8.6)
	What    string      `json:"what"` // human description
	Witness interface{} `json:"witness,omitempty"`
	Count   int         `json:"count"` // occurrences with the same key
}

// Result is what a property test hands to the driver.
type Result struct {
	Property     string                 `json:"property"`
	Seed         uint64                 `json:"seed"`
	Tier         string                 `json:"tier"`
	Evaluations  int64                  `json:"evaluations"`
	Distinct     int64                  `json:"distinct_nontrivial"`
	Rule         string                 `json:"rule"`
	Samples      []interface{}          `json:"samples"`
	Counters     map[string]int64       `json:"counters"`
	Extra        map[string]interface{} `json:"extra"`
	Exhaustive   bool                   `json:"exhaustive"`
	Violations   []*Violation           `json:"violations"`
	Inconclusive []string               `json:"inconclusive"`
	Observations []string               `json:"observations"`
	Assumptions  []string               `json:"assumptions"`
	HarnessError string                 `json:"harness_error,omitempty"`
	WallS        float64                `json:"wall_s"`
	Done         bool                   `json:"done"`
}

// Report collects what a monitor observed. All methods are safe for concurrent use.
type Report struct {
	mu       sync.Mutex
	r        Result
	distinct map[[8]byte]struct{}
	viol     map[string]*Violation
	start    time.Time
	maxSamp  int
	obsSeen  map[string]bool
}

// NewReport starts a report for a property.
func NewReport(property string) *Report {
	tier := "quick"
	if Thorough() {
		tier = "thorough"
	}
	return &Report{
		r: Result{
			Property: property, Seed: Seed(), Tier: tier,
			Counters: map[string]int64{"child_processes_goarch_" + runtime.GOARCH: 1}, Extra: map[string]interface{}{},
		},
		distinct: map[[8]byte]struct{}{},
		viol:     map[string]*Violation{},
		start:    time.Now(),
		maxSamp:  6,
		obsSeen:  map[string]bool{},
	}
}

// Rule sets the description of how cases are generated and what counts as distinct.
func (p *Report) Rule(s string) { p.mu.Lock(); p.r.Rule = s; p.mu.Unlock() }

// RuleAdd appends to the rule description (scenarios added later than the original text).
func (p *Report) RuleAdd(s string) { p.mu.Lock(); p.r.Rule += " " + s; p.mu.Unlock() }

// Exhaustive marks the run as having enumerated a finite space completely.
func (p *Report) Exhaustive(b bool) { p.mu.Lock(); p.r.Exhaustive = b; p.mu.Unlock() }

// Assume records an assumption / trusted base item.
func (p *Report) Assume(s string) {
	p.mu.Lock()
	p.r.Assumptions = append(p.r.Assumptions, s)
	p.mu.Unlock()
}

// Eval counts n evaluated cases.
func (p *Report) Eval(n int) { p.mu.Lock(); p.r.Evaluations += int64(n); p.mu.Unlock() }

// Count adds n to a named counter.
func (p *Report) Count(name string, n int) {
	p.mu.Lock()
	p.r.Counters[name] += int64(n)
	p.mu.Unlock()
}

// Counter returns the value of a named counter.
func (p *Report) Counter(name string) int64 {
	p.mu.Lock()
	defer p.mu.Unlock()
	return p.r.Counters[name]
}

// Set stores an extra coverage value.
func (p *Report) Set(name string, v interface{}) { p.mu.Lock(); p.r.Extra[name] = v; p.mu.Unlock() }

// Distinct registers a case identity; distinct identities are counted.
func (p *Report) Distinct(parts ...interface{}) {
	h := sha1.New()
	for _, x := range parts {
		switch v := x.(type) {
		case []byte:
			h.Write(v)
		case string:
			h.Write([]byte(v))
		default:
			fmt.Fprintf(h, "%v", v)
		}
		h.Write([]byte{0})
	}
	var k [8]byte
	copy(k[:], h.Sum(nil))
	p.mu.Lock()
	if _, ok := p.distinct[k]; !ok {
		p.distinct[k] = struct{}{}
		p.r.Distinct++
	}
	p.mu.Unlock()
}

// DistinctN adds n to the distinct count for cases known distinct by construction
// (complete enumerations), without hashing each one.
func (p *Report) DistinctN(n int) { p.mu.Lock(); p.r.Distinct += int64(n); p.mu.Unlock() }

// Sample keeps a few actual cases for the evidence file.
func (p *Report) Sample(x interface{}) {
	p.mu.Lock()
	if len(p.r.Samples) < p.maxSamp {
		p.r.Samples = append(p.r.Samples, x)
	}
	p.mu.Unlock()
}

// Violation records a refutation. key is the stable fingerprint.
func (p *Report) Violation(key, what string, witness interface{}) {
	p.mu.Lock()
	if v, ok := p.viol[key]; ok {
		v.Count++
		p.mu.Unlock()
		return
	}
	v := &Violation{Key: key, What: what, Witness: witness, Count: 1}
	p.viol[key] = v
	p.r.Violations = append(p.r.Violations, v)
	n := len(p.viol)
	p.mu.Unlock()
	if n <= 40 {
		// on disk at once: if a later scenario hangs on the same defect (a write call that never returns) and the watchdog ends
		// the child, the driver still has the violation
		p.Checkpoint()
	}
}

// NViolations returns the number of distinct violation keys so far.
func (p *Report) NViolations() int { p.mu.Lock(); defer p.mu.Unlock(); return len(p.viol) }

// NViolationEvents returns the number of times a violation was recorded (repetitions of one key included).
func (p *Report) NViolationEvents() int {
	p.mu.Lock()
	defer p.mu.Unlock()
	n := 0
	for _, v := range p.viol {
		n += v.Count
	}
	return n
}

// Inconclusive records an inconclusive sub-verdict.
func (p *Report) Inconclusive(s string) {
	p.mu.Lock()
	p.r.Inconclusive = append(p.r.Inconclusive, s)
	p.mu.Unlock()
}

// Observe records a noteworthy observation that is not a violation (deduplicated).
func (p *Report) Observe(s string) {
	p.mu.Lock()
	if !p.obsSeen[s] && len(p.r.Observations) < 40 {
		p.obsSeen[s] = true
		p.r.Observations = append(p.r.Observations, s)
	}
	p.mu.Unlock()
}

// HarnessError marks the run as a harness failure (exit 2 in the driver).
func (p *Report) HarnessError(s string) {
	p.mu.Lock()
	if p.r.HarnessError == "" {
		p.r.HarnessError = s
	}
	p.mu.Unlock()
}

// Floor makes the run a harness failure if a counter stayed below min.
func (p *Report) Floor(counter string, min int64) {
	if c := p.Counter(counter); c < min {
		p.HarnessError(fmt.Sprintf("monitor floor not reached: %s=%d < %d", counter, c, min))
	}
}

// Finish writes the result file named by VERIF_RESULT (or stdout) and fails the test on violations.
func (p *Report) Finish(t *testing.T) {
	if t.Failed() {
		if os.Getenv("VERIF_RACE") == "1" {
			// under the race detector testing marks the test failed as soon as a race has been reported; the driver reads
			// the reports themselves (and makes this a harness error if there is none)
			p.Set("failed_under_race", true)
		} else {
			// the test function was aborted (t.Fatal / t.Error) before the monitor finished: never a pass
			p.HarnessError("the test function failed before the monitor completed (see the child's output)")
		}
	}
	p.mu.Lock()
	p.r.WallS = time.Since(p.start).Seconds()
	p.r.Done = true
	if p.r.Samples == nil {
		p.r.Samples = []interface{}{}
	}
	sort.Slice(p.r.Violations, func(i, j int) bool { return p.r.Violations[i].Key < p.r.Violations[j].Key })
	data, err := json.MarshalIndent(&p.r, "", " ")
	nv := len(p.r.Violations)
	he := p.r.HarnessError
	p.mu.Unlock()
	if err != nil {
		t.Fatalf("cannot marshal result: %v", err)
	}
	if path := os.Getenv("VERIF_RESULT"); path != "" {
		if err := os.WriteFile(path, data, 0o644); err != nil {
			t.Fatalf("cannot write result: %v", err)
		}
	} else {
		os.Stdout.Write(data)
		os.Stdout.Write([]byte("\n"))
	}
	if he != "" {
		t.Errorf("harness error: %s", he)
	}
	if nv > 0 {
		t.Errorf("%d distinct violation(s)", nv)
	}
}

// Checkpoint writes what has been observed so far to VERIF_RESULT + ".partial" (done=false): if the child is killed by a
// crash the driver still has the counts and violations of the cases explored before it.
func (p *Report) Checkpoint() {
	path := os.Getenv("VERIF_RESULT")
	if path == "" {
		return
	}
	p.mu.Lock()
	p.r.WallS = time.Since(p.start).Seconds()
	samples := p.r.Samples
	if p.r.Samples == nil {
		p.r.Samples = []interface{}{}
	}
	data, err := json.Marshal(&p.r)
	p.r.Samples = samples
	p.mu.Unlock()
	if err != nil {
		return
	}
	if os.WriteFile(path+".partial.tmp", data, 0o644) == nil {
		_ = os.Rename(path+".partial.tmp", path+".partial")
	}
}

// Hex is a helper for witnesses.
func Hex(b []byte) string { return hex.EncodeToString(b) }

// Short8 returns the first 8 hex chars of the SHA-1 of b (stable stream ids in fingerprints).
func Short8(b []byte) string {
	s := sha1.Sum(b)
	return hex.EncodeToString(s[:4])
}

// ExtraBool reads back a boolean stored with Set.
func (p *Report) ExtraBool(name string) (bool, bool) {
	p.mu.Lock()
	defer p.mu.Unlock()
	v, ok := p.r.Extra[name].(bool)
	return v, ok
}
