package vh

import (
	"math"
	"reflect"

	"verifharness/ref"
)

// SetBits stores a bit pattern into a numeric field exactly (floats keep NaN payloads).
func SetBits(v reflect.Value, bits uint64) {
	switch v.Kind() {
	case reflect.Float32:
		*(*float32)(v.Addr().UnsafePointer()) = math.Float32frombits(uint32(bits)) // (also for defined types over float32)
	case reflect.Float64:
		*(*float64)(v.Addr().UnsafePointer()) = math.Float64frombits(bits)
	case reflect.Int8:
		v.SetInt(int64(int8(bits)))
	case reflect.Int16:
		v.SetInt(int64(int16(bits)))
	case reflect.Int32:
		v.SetInt(int64(int32(bits)))
	case reflect.Int64:
		v.SetInt(int64(bits))
	case reflect.Uint8:
		v.SetUint(bits & 0xFF)
	case reflect.Uint16:
		v.SetUint(bits & 0xFFFF)
	case reflect.Uint32:
		v.SetUint(bits & 0xFFFFFFFF)
	case reflect.Uint64:
		v.SetUint(bits)
	}
}

// BoundaryBits returns the boundary bit patterns of a primitive of the given size and kind.
func BoundaryBits(kind reflect.Kind, size int) []uint64 {
	max := uint64(math.MaxUint64)
	if size < 8 {
		max = (uint64(1) << (8 * uint(size))) - 1
	}
	pattern := uint64(0x0807060504030201) & max
	out := []uint64{0, 1, max, max - 1, pattern, uint64(1) << (8*uint(size) - 1), (uint64(1) << (8*uint(size) - 1)) - 1, 0xFD, 0xFE & max}
	switch kind {
	case reflect.Float32:
		out = append(out,
			uint64(math.Float32bits(1.5)), 0x80000000, // -0
			0x7FC00001, 0x7F800001 /* sNaN */, 0xFFC12345, 0x7F800000, 0xFF800000, 0x00000001, 0x007FFFFF)
	case reflect.Float64:
		out = append(out,
			math.Float64bits(1.5), 0x8000000000000000,
			0x7FF8000000000001, 0x7FF0000000000001, 0xFFF8123456789ABC, 0x7FF0000000000000, 0xFFF0000000000000, 1)
	}
	return out
}

func randBits(r *RNG, kind reflect.Kind, size int) uint64 {
	if r.Chance(1, 2) {
		b := BoundaryBits(kind, size)
		return b[r.Intn(len(b))]
	}
	if r.Chance(1, 6) {
		return 0
	}
	return r.U64()
}

// Mode of FillMessage.
type Mode int

// Fill modes.
const (
	ModeMixed    Mode = iota // boundary values, random values, zeros, over-long strings
	ModeCanon                // only values that are already canonical (strings fit, no NUL, enums within wire width)
	ModeZeroTail             // like ModeMixed but a random suffix of the wire-order fields is zero
)

// FillMessage fills *msg (pointer to struct) with generated values.
func FillMessage(r *RNG, l *ref.Layout, msg reflect.Value, mode Mode) {
	if msg.Kind() == reflect.Ptr {
		msg = msg.Elem()
	}
	zeroFrom := len(l.Fields) + 1
	if mode == ModeZeroTail {
		zeroFrom = r.Intn(len(l.Fields) + 1)
	}
	for i := range l.Fields {
		f := &l.Fields[i]
		fv := msg.Field(f.GoIndex)
		if i >= zeroFrom {
			fv.Set(reflect.Zero(fv.Type()))
			continue
		}
		switch {
		case f.IsString:
			fv.SetString(randString(r, f.Count, mode == ModeCanon))
		case f.IsArray:
			allZero := r.Chance(1, 8)
			ek := fv.Type().Elem().Kind()
			signedZeros := !f.IsEnum && (ek == reflect.Float32 || ek == reflect.Float64) && r.Chance(1, 8)
			for k := 0; k < f.Count; k++ {
				switch {
				case signedZeros:
					// a float array holding nothing but zeros, some of them negative: -0.0 is not the all-zero bit pattern
					bits := uint64(0)
					if k == f.Count-1 || r.Chance(1, 2) {
						bits = 1 << 31
						if ek == reflect.Float64 {
							bits = 1 << 63
						}
					}
					SetBits(fv.Index(k), bits)
				case allZero:
					SetBits(fv.Index(k), 0)
				default:
					setElem(r, fv.Index(k), f, mode)
				}
			}
		default:
			setElem(r, fv, f, mode)
		}
	}
}

func setElem(r *RNG, v reflect.Value, f *ref.Field, mode Mode) {
	if f.IsEnum {
		bits := randBits(r, reflect.Uint64, f.ElemSize)
		if mode != ModeCanon && r.Chance(1, 5) {
			bits = r.U64() // above the wire width: must be reduced
		} else if f.ElemSize < 8 {
			bits &= (uint64(1) << (8 * uint(f.ElemSize))) - 1
		}
		v.SetUint(bits)
		return
	}
	SetBits(v, randBits(r, v.Kind(), f.ElemSize))
}

func randString(r *RNG, n int, canon bool) string {
	if !canon && n >= 2 && r.Chance(1, 8) {
		// valid UTF-8, longer than the field, with a multi-byte character lying across the field boundary:
		// the wire keeps the first n BYTES, whatever they are
		runes := []string{"é", "€", "日", "𝄞"}
		ru := runes[r.Intn(len(runes))]
		k := 1 + r.Intn(len(ru)-1) // bytes of the rune that still fit
		if n-k < 0 {
			k = n
		}
		b := make([]byte, 0, n+8)
		for len(b) < n-k {
			b = append(b, byte('a'+r.Intn(26)))
		}
		b = append(b, ru...)
		b = append(b, "tail"...)
		return string(b)
	}
	if !canon && r.Chance(1, 14) {
		// a very long string (an application handing over a whole log line): the wire keeps its first n bytes
		b := make([]byte, 256*(1+r.Intn(2))+r.Intn(n+4))
		for i := range b {
			b[i] = byte('A' + r.Intn(26))
		}
		return string(b)
	}
	var ln int
	switch r.Intn(6) {
	case 0:
		ln = 0
	case 1:
		ln = n
	case 2:
		ln = n - 1
	case 3:
		if canon {
			ln = r.Intn(n + 1)
		} else {
			ln = n + 1 + r.Intn(3)
		}
	default:
		ln = r.Intn(n + 1)
	}
	if ln < 0 {
		ln = 0
	}
	b := make([]byte, ln)
	for i := range b {
		if canon || r.Chance(9, 10) {
			b[i] = byte(0x20 + r.Intn(0x5F))
		} else {
			b[i] = r.Byte() // may be NUL or >0x7F
		}
		if canon && b[i] == 0 {
			b[i] = 'x'
		}
	}
	return string(b)
}
