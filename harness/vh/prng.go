// Package vh holds the shared plumbing of the verification harness:
// deterministic PRNG, report/evidence collection, value generators.
package vh

import (
	"os"
	"strconv"
)

// RNG is SplitMix64.
type RNG struct{ s uint64 }

// NewRNG returns a generator seeded with seed.
func NewRNG(seed uint64) *RNG { return &RNG{s: seed} }

// Seed returns VERIF_SEED (default 1).
func Seed() uint64 {
	if v := os.Getenv("VERIF_SEED"); v != "" {
		if n, err := strconv.ParseInt(v, 10, 64); err == nil {
			return uint64(n)
		}
		if n, err := strconv.ParseUint(v, 10, 64); err == nil {
			return n
		}
	}
	return 1
}

// Thorough reports whether VERIF_TIER=thorough.
func Thorough() bool { return os.Getenv("VERIF_TIER") == "thorough" }

// Pick returns q in the quick tier and t in the thorough tier.
func Pick(q, t int) int {
	if Thorough() {
		return t
	}
	return q
}

// U64 returns the next value.
func (r *RNG) U64() uint64 {
	r.s += 0x9E3779B97F4A7C15
	z := r.s
	z = (z ^ (z >> 30)) * 0xBF58476D1CE4E5B9
	z = (z ^ (z >> 27)) * 0x94D049BB133111EB
	return z ^ (z >> 31)
}

// Intn returns a value in [0,n).
func (r *RNG) Intn(n int) int {
	if n <= 0 {
		return 0
	}
	return int(r.U64() % uint64(n))
}

// Byte returns a random byte.
func (r *RNG) Byte() byte { return byte(r.U64()) }

// Bool returns a random bool.
func (r *RNG) Bool() bool { return r.U64()&1 == 1 }

// Chance returns true with probability num/den.
func (r *RNG) Chance(num, den int) bool { return r.Intn(den) < num }

// Bytes returns n random bytes.
func (r *RNG) Bytes(n int) []byte {
	out := make([]byte, n)
	for i := 0; i < n; i += 8 {
		v := r.U64()
		for k := 0; k < 8 && i+k < n; k++ {
			out[i+k] = byte(v >> (8 * uint(k)))
		}
	}
	return out
}

// Fork derives an independent generator (for per-case PRNGs).
func (r *RNG) Fork() *RNG { return &RNG{s: r.U64() ^ 0xD1B54A32D192ED03} }

// Sub derives a generator from a seed and a label, independent of call order.
func Sub(seed uint64, label string) *RNG {
	h := seed ^ 0xCBF29CE484222325
	for i := 0; i < len(label); i++ {
		h ^= uint64(label[i])
		h *= 0x100000001B3
	}
	r := &RNG{s: h}
	r.U64()
	return r
}

// Perm returns a random permutation of [0,n).
func (r *RNG) Perm(n int) []int {
	p := make([]int, n)
	for i := range p {
		p[i] = i
	}
	for i := n - 1; i > 0; i-- {
		j := r.Intn(i + 1)
		p[i], p[j] = p[j], p[i]
	}
	return p
}
