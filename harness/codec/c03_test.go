package codec

import (
	"bytes"
	"fmt"
	"reflect"
	"sync"
	"testing"

	"github.com/bluenviron/gomavlib/v3/pkg/message"

	"verifharness/ref"
	"verifharness/vh"
)

// C03 — payload layout, sizes and CRC_EXTRA follow the spec.
//
// Oracle: ref.LayoutOf (spec derivation from the struct definition) for CRC_EXTRA and sizes,
// ref.Encode / ref.Decode byte for byte / field for field while exactly one field position
// holds a boundary value and everything else is zero (so offsets are exact).

func c03probeField(rep *vh.Report, mi *msgInfo, fi int, elem int, setter func(reflect.Value)) {
	f := &mi.Layout.Fields[fi]
	for _, v2 := range []bool{false, true} {
		if !v2 && f.Ext {
			// v1 omits extensions: probing them belongs to C04
			continue
		}
		val := reflect.New(mi.Type)
		setter(val.Elem().Field(f.GoIndex))
		ver := 1
		if v2 {
			ver = 2
		}
		rep.Eval(1)
		wit := func() interface{} {
			return map[string]interface{}{"msg": mi.Name, "field": f.GoName, "elem": elem, "version": ver, "value": fmt.Sprintf("%+v", val.Elem().Interface())}
		}
		guard(rep, fmt.Sprintf("msg=%s what=panic", mi.Name), wit, func() {
			want := mi.Layout.Encode(val, v2)
			got := mi.RW.Write(val.Interface().(message.Message), v2)
			if got.ID != mi.Msg.GetID() {
				rep.Violation(fmt.Sprintf("msg=%s what=id", mi.Name), "encoded message carries a wrong id", wit())
			}
			if !bytes.Equal(got.Payload, want) {
				rep.Violation(fmt.Sprintf("msg=%s what=field:%s:enc", mi.Name, f.GoName),
					"encoded payload differs from the spec layout with only this field set",
					map[string]interface{}{"case": wit(), "want": vh.Hex(want), "got": vh.Hex(got.Payload), "offset": f.Offset})
				return
			}
			// decode the reference encoding with the real decoder
			dec, err := mi.RW.Read(&message.MessageRaw{ID: mi.Msg.GetID(), Payload: append([]byte(nil), want...)}, v2)
			if err != nil {
				rep.Violation(fmt.Sprintf("msg=%s what=field:%s:dec", mi.Name, f.GoName), "decoder rejected a spec-conformant payload: "+err.Error(), wit())
				return
			}
			exp, _ := mi.Layout.Decode(want, v2)
			if reflect.TypeOf(dec) != exp.Type() {
				rep.Violation(fmt.Sprintf("msg=%s what=field:%s:dec", mi.Name, f.GoName), fmt.Sprintf("decoded to %T", dec), wit())
				return
			}
			if eq, diff := mi.Layout.BitEqual(reflect.ValueOf(dec), exp); !eq {
				rep.Violation(fmt.Sprintf("msg=%s what=field:%s:dec", mi.Name, f.GoName),
					"decoded value differs from the spec layout in field "+diff,
					map[string]interface{}{"case": wit(), "payload": vh.Hex(want), "got": fmt.Sprintf("%+v", dec)})
			}
		})
	}
}

func c03type(rep *vh.Report, r *vh.RNG, mi *msgInfo, deep bool) {
	l := mi.Layout
	rep.Count("types", 1)
	rep.Distinct("type", mi.Name)
	// CRC_EXTRA
	rep.Eval(1)
	if got := mi.RW.CRCExtra(); got != l.CRCExtra {
		rep.Violation(fmt.Sprintf("msg=%s what=crc_extra", mi.Name), "CRC_EXTRA differs from the value the spec derives from the definition",
			map[string]interface{}{"msg": mi.Name, "got": got, "want": l.CRCExtra, "mavlink_name": l.Name})
	}
	if l.SizeExt > 255 {
		rep.Observe(fmt.Sprintf("%s: extended size %d exceeds 255 bytes", mi.Name, l.SizeExt))
		return
	}
	// sizes, observed behaviourally: v1 encoding of any value has the base size;
	// v2 encoding of a value whose last wire byte is non-zero has the extended size
	full := reflect.New(mi.Type)
	for i := range l.Fields {
		f := &l.Fields[i]
		fv := full.Elem().Field(f.GoIndex)
		switch {
		case f.IsString:
			fv.SetString(string(bytes.Repeat([]byte{'z'}, f.Count)))
		case f.IsArray:
			for k := 0; k < f.Count; k++ {
				vh.SetBits(fv.Index(k), 0x0101010101010101)
			}
		default:
			vh.SetBits(fv, 0x0101010101010101)
		}
	}
	rep.Eval(2)
	guard(rep, fmt.Sprintf("msg=%s what=panic", mi.Name), func() interface{} { return mi.Name }, func() {
		if n := len(mi.RW.Write(full.Interface().(message.Message), false).Payload); n != l.SizeBase {
			rep.Violation(fmt.Sprintf("msg=%s what=size_base", mi.Name), "v1 payload size differs from the spec base size",
				map[string]interface{}{"msg": mi.Name, "got": n, "want": l.SizeBase})
		}
		if n := len(mi.RW.Write(full.Interface().(message.Message), true).Payload); n != l.SizeExt {
			rep.Violation(fmt.Sprintf("msg=%s what=size_ext", mi.Name), "v2 payload size differs from the spec extended size",
				map[string]interface{}{"msg": mi.Name, "got": n, "want": l.SizeExt})
		}
		// v1 decoder accepts exactly the base size
		if _, err := mi.RW.Read(&message.MessageRaw{ID: mi.Msg.GetID(), Payload: make([]byte, l.SizeBase)}, false); err != nil {
			rep.Violation(fmt.Sprintf("msg=%s what=size_base", mi.Name), "v1 decoder rejects a payload of the spec base size: "+err.Error(), mi.Name)
		}
	})

	// all fields set at once (neighbouring fields non-zero): generated values, both directions
	for k := 0; k < 6; k++ {
		for _, v2 := range []bool{false, true} {
			val := reflect.New(mi.Type)
			mode := vh.ModeCanon
			if k%2 == 1 {
				mode = vh.ModeMixed
			}
			vh.FillMessage(r, l, val, mode)
			if k == 0 {
				// every string completely filled, every numeric byte non-zero
				val.Elem().Set(full.Elem())
			}
			rep.Eval(1)
			wit := func() interface{} {
				return map[string]interface{}{"msg": mi.Name, "v2": v2, "value": fmt.Sprintf("%+v", val.Elem().Interface())}
			}
			guard(rep, fmt.Sprintf("msg=%s what=panic", mi.Name), wit, func() {
				want := l.Encode(val, v2)
				got := mi.RW.Write(val.Interface().(message.Message), v2)
				if !bytes.Equal(got.Payload, want) {
					rep.Violation(fmt.Sprintf("msg=%s what=field:*:enc", mi.Name), "encoded payload of a fully populated value differs from the spec layout",
						map[string]interface{}{"case": wit(), "want": vh.Hex(want), "got": vh.Hex(got.Payload)})
					return
				}
				dec, err := mi.RW.Read(&message.MessageRaw{ID: mi.Msg.GetID(), Payload: append([]byte(nil), want...)}, v2)
				exp, _ := l.Decode(want, v2)
				if err != nil || reflect.TypeOf(dec) != exp.Type() {
					rep.Violation(fmt.Sprintf("msg=%s what=field:*:dec", mi.Name), fmt.Sprintf("decoder failed on a spec-conformant payload: %v", err), wit())
					return
				}
				if eq, diff := l.BitEqual(reflect.ValueOf(dec), exp); !eq {
					rep.Violation(fmt.Sprintf("msg=%s what=field:%s:dec", mi.Name, diff), "decoding a fully populated payload reads field "+diff+" from the wrong bytes",
						map[string]interface{}{"case": wit(), "payload": vh.Hex(want), "got": fmt.Sprintf("%+v", dec)})
				}
			})
		}
	}
	// per-field probing
	for fi := range l.Fields {
		f := &l.Fields[fi]
		rep.Count("field_positions", 1)
		switch {
		case f.IsString:
			lens := []int{0, 1, f.Count - 1, f.Count, f.Count + 1}
			if deep {
				lens = lens[:0]
				for n := 0; n <= f.Count+1; n++ {
					lens = append(lens, n)
				}
			}
			for _, n := range lens {
				if n < 0 {
					continue
				}
				s := make([]byte, n)
				for i := range s {
					s[i] = byte('A' + (i % 26))
				}
				str := string(s)
				c03probeField(rep, mi, fi, n, func(v reflect.Value) { v.SetString(str) })
			}
			// high bytes and an embedded NUL
			if f.Count >= 3 {
				c03probeField(rep, mi, fi, -1, func(v reflect.Value) { v.SetString("\xff\x80" + "a") })
				c03probeField(rep, mi, fi, -2, func(v reflect.Value) { v.SetString("a\x00b") })
			}
		default:
			kind := reflect.Uint64
			size := f.ElemSize
			var elemKind reflect.Kind
			ft := mi.Type.Field(f.GoIndex).Type
			if f.IsArray {
				elemKind = ft.Elem().Kind()
			} else {
				elemKind = ft.Kind()
			}
			if !f.IsEnum {
				kind = elemKind
			}
			bvals := vh.BoundaryBits(kind, size)
			if f.IsEnum {
				// also values above the wire width: must be reduced
				bvals = append(bvals, 0x1FF, 0x1FFFF, 0x1FFFFFFFF, 0xFFFFFFFFFFFFFFFF)
			}
			if !deep {
				// quick: a seed-chosen half of the boundary values, always including the byte pattern and the maximum
				keep := []uint64{bvals[2], bvals[4]}
				for _, i := range r.Perm(len(bvals))[:len(bvals)/2] {
					keep = append(keep, bvals[i])
				}
				bvals = keep
			}
			elems := []int{0}
			if f.IsArray {
				elems = []int{0, f.Count - 1}
				if f.Count > 2 {
					elems = append(elems, 1+r.Intn(f.Count-2))
				}
				if deep {
					elems = elems[:0]
					for k := 0; k < f.Count; k++ {
						elems = append(elems, k)
					}
				}
			}
			for _, k := range elems {
				for _, b := range bvals {
					bits := b
					kk := k
					c03probeField(rep, mi, fi, kk, func(v reflect.Value) {
						t := v
						if f.IsArray {
							t = v.Index(kk)
						}
						if f.IsEnum {
							t.SetUint(bits)
						} else {
							vh.SetBits(t, bits)
						}
					})
				}
			}
		}
	}
}

func TestC03(t *testing.T) {
	rep := vh.NewReport("C03")
	defer rep.Finish(t)
	rep.Rule("complete enumeration of the message struct definitions of the 19 shipped dialects plus 15 user-defined structs (length-1 arrays, scalar char, mavname, " +
		"mixed-width extensions, 255-byte payloads, every enum wire type): CRC_EXTRA and sizes vs the spec derivation; per field position (array elements, string lengths 0..N+1) " +
		"one boundary value at a time with all else zero, encode compared byte for byte and decode field for field with the reference, in v1 and v2; " +
		"distinct = message types; evaluations = (type, field, element, value, version) probes")
	rep.RuleAdd("Rounds 12-15: structs with fields of defined types and untagged enums, extension spellings, strings of 256 and more bytes, float arrays of signed zeros.")
	rep.RuleAdd("Rounds 16-17: wire names outside ASCII.")
	rep.Assume("spec derivation harness/ref.LayoutOf (stable sort by primitive size, extensions last, CRC_EXTRA as mavgen computes it), anchored by the published MAVLINK_MESSAGE_CRCS table")
	seed := vh.Seed()
	r := vh.Sub(seed, "c03")

	all := shippedOrViolation(rep, t)
	var err error
	_ = err
	users, err := userMsgInfos()
	if err != nil {
		rep.Violation("msg=user what=init", "a well-formed user-defined message struct was rejected: "+err.Error(), nil)
	}
	deep := vh.Thorough()
	for i, mi := range append(append([]*msgInfo{}, all...), users...) {
		c03type(rep, r, mi, deep)
		if i%97 == 0 {
			rep.Sample(map[string]interface{}{"msg": mi.Name, "mavlink_name": mi.Layout.Name, "crc_extra": mi.Layout.CRCExtra,
				"size_base": mi.Layout.SizeBase, "size_ext": mi.Layout.SizeExt, "fields": len(mi.Layout.Fields)})
		}
	}
	// codecs initialised at the same time on several goroutines (dialects set up concurrently, several nodes starting at
	// once) derive the same CRC_EXTRA and sizes as one initialised alone
	{
		types := append(append([]*msgInfo{}, all...), users...)
		var wg sync.WaitGroup
		for g := 0; g < 8; g++ {
			wg.Add(1)
			go func(g int) {
				defer wg.Done()
				for round := 0; round < vh.Pick(2, 10); round++ {
					for i := g % 3; i < len(types); i += 3 {
						mi := types[(i+round*7)%len(types)]
						rw := &message.ReadWriter{Message: mi.Msg}
						rep.Eval(1)
						if err := rw.Initialize(); err != nil {
							rep.Violation(fmt.Sprintf("msg=%s what=init", mi.Name), "Initialize failed when run concurrently with other initialisations: "+err.Error(), nil)
							return
						}
						if rw.CRCExtra() != mi.Layout.CRCExtra {
							rep.Violation(fmt.Sprintf("msg=%s what=crc_extra", mi.Name),
								fmt.Sprintf("a codec initialised concurrently with others has CRC_EXTRA %d, the definition gives %d", rw.CRCExtra(), mi.Layout.CRCExtra), nil)
							return
						}
					}
				}
			}(g)
		}
		wg.Wait()
		rep.Count("concurrent_initialisations", 1)
	}
	// the same layout is read when several goroutines decode with ONE ReadWriter at the same time (a Node shares
	// the dialect's codecs between the reader goroutines of its channels)
	{
		cr := vh.Sub(seed, "c03-concurrent")
		for k := 0; k < vh.Pick(10, 100); k++ {
			mi := all[cr.Intn(len(all))]
			if mi.Layout.SizeExt > 255 || mi.Layout.SizeExt < 4 {
				continue
			}
			var wg sync.WaitGroup
			for g := 0; g < 4; g++ {
				wg.Add(1)
				gr := cr.Fork()
				go func() {
					defer wg.Done()
					for i := 0; i < vh.Pick(300, 3000); i++ {
						val := reflect.New(mi.Type)
						vh.FillMessage(gr, mi.Layout, val, vh.ModeZeroTail)
						p := mi.Layout.Encode(val, true) // truncated on the wire
						got, err := mi.RW.Read(&message.MessageRaw{ID: mi.Msg.GetID(), Payload: p}, true)
						want, _ := mi.Layout.Decode(p, true)
						rep.Eval(1)
						if err != nil {
							rep.Violation(fmt.Sprintf("msg=%s what=field:*:dec", mi.Name), "decode failed: "+err.Error(), vh.Hex(p))
							return
						}
						if eq, diff := mi.Layout.BitEqual(reflect.ValueOf(got), want); !eq {
							rep.Violation(fmt.Sprintf("msg=%s what=field:*:dec", mi.Name),
								"decoding concurrently with other decodes of the same message type read field "+diff+" from another payload", vh.Hex(p))
							return
						}
					}
				}()
			}
			wg.Wait()
			rep.Count("concurrent_decode_types", 1)
		}
	}
	// golden CRC_EXTRA of the standard set, against the real codec
	golden := 0
	for _, mi := range all {
		if mi.Name[:7] != "common." {
			continue
		}
		if want, ok := ref.GoldenCRCExtra[mi.Msg.GetID()]; ok {
			golden++
			rep.Eval(1)
			if got := mi.RW.CRCExtra(); got != want {
				rep.Violation(fmt.Sprintf("msg=%s what=crc_extra", mi.Name), "CRC_EXTRA differs from the value published with the MAVLink C library",
					map[string]interface{}{"msg": mi.Name, "got": got, "published": want})
			}
		}
	}
	rep.Count("golden_crc_extra_checked", golden)
	rep.Set("exhaustive_over_types", true)
	rep.Exhaustive(deep)
	rep.Floor("types", 400)
	rep.Floor("golden_crc_extra_checked", 150)
}
