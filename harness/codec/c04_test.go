package codec

import (
	"bytes"
	"fmt"
	"reflect"
	"sync"
	"sync/atomic"
	"testing"

	"github.com/bluenviron/gomavlib/v3/pkg/message"

	"verifharness/vh"
)

// C04 — encode/decode round trip, v2 truncation, extension semantics, buffer safety.

type c04env struct {
	rep  *vh.Report
	back []byte // big backing array for canary checks
	// decoded values handed out earlier: they must still be what they were after later decodes (of any type) and after
	// the caller has reused its payload buffer
	kept     []c04kept
	nDecodes int
	scr      *vh.RNG
}

func (e *c04env) scribble() *vh.RNG {
	if e.scr == nil {
		e.scr = vh.Sub(vh.Seed(), "c04-scribble")
	}
	return e.scr
}

type c04kept struct {
	mi   *msgInfo
	got  reflect.Value
	want reflect.Value
	v2   bool
}

func (e *c04env) keep(mi *msgInfo, got message.Message, want reflect.Value, v2 bool) {
	e.kept = append(e.kept, c04kept{mi, reflect.ValueOf(got), want, v2})
	if len(e.kept) >= 48 {
		e.recheck()
	}
}

func (e *c04env) recheck() {
	for _, k := range e.kept {
		e.rep.Count("decoded_values_rechecked_later", 1)
		if eq, diff := k.mi.Layout.BitEqual(k.got, k.want); !eq {
			e.rep.Violation(fmt.Sprintf("msg=%s ver=%d what=unstable", k.mi.Name, verOf(k.v2)),
				"a decoded value changed after it was returned (later decodes / reuse of the caller's payload buffer): field "+diff,
				map[string]interface{}{"now": fmt.Sprintf("%+v", k.got.Interface()), "was": fmt.Sprintf("%+v", k.want.Interface())})
			break
		}
	}
	e.kept = e.kept[:0]
}

// decodeCanary runs the real decoder on payload placed inside a larger backing array
// filled with 0xA5, with spare capacity behind it, and checks that neither the payload
// nor the bytes after it changed.
func (e *c04env) decodeCanary(mi *msgInfo, payload []byte, v2 bool, pad int) (message.Message, error) {
	a := 16
	b := a + len(payload)
	total := b + pad
	if cap(e.back) < total {
		e.back = make([]byte, total+512)
	}
	back := e.back[:total]
	for i := range back {
		back[i] = 0xA5
	}
	copy(back[a:b], payload)
	in := back[a:b:total] // len = payload, cap reaches into the canary
	msg, err := mi.RW.Read(&message.MessageRaw{ID: mi.Msg.GetID(), Payload: in}, v2)
	if !bytes.Equal(back[a:b], payload) {
		e.rep.Violation("what=alias", "decoder wrote into the caller's payload buffer",
			map[string]interface{}{"msg": mi.Name, "payload": vh.Hex(payload), "after": vh.Hex(back[a:b]), "v2": v2})
	}
	for i := 0; i < a; i++ {
		if back[i] != 0xA5 {
			e.rep.Violation("what=alias", "decoder wrote before the caller's payload", map[string]interface{}{"msg": mi.Name, "payload": vh.Hex(payload)})
			break
		}
	}
	for i := b; i < total; i++ {
		if back[i] != 0xA5 {
			e.rep.Violation("what=alias", "decoder wrote to the bytes that follow the caller's payload in the same backing array",
				map[string]interface{}{"msg": mi.Name, "payload": vh.Hex(payload), "v2": v2, "offset_after_payload": i - b, "cap_minus_len": pad})
			break
		}
	}
	return msg, err
}

func verOf(v2 bool) int {
	if v2 {
		return 2
	}
	return 1
}

// checkDecode compares the real decoder with the reference decoder on one payload.
func (e *c04env) checkDecode(mi *msgInfo, payload []byte, v2 bool, what string) {
	e.rep.Eval(1)
	wit := func() interface{} {
		return map[string]interface{}{"msg": mi.Name, "version": verOf(v2), "payload": vh.Hex(payload), "len": len(payload), "case": what}
	}
	guard(e.rep, fmt.Sprintf("msg=%s ver=%d what=panic", mi.Name, verOf(v2)), wit, func() {
		pad := 0
		if len(payload)%3 != 2 {
			pad = 8 + mi.Layout.SizeExt
		}
		got, err := e.decodeCanary(mi, payload, v2, pad)
		want, werr := mi.Layout.Decode(payload, v2)
		if werr != nil {
			if err == nil {
				e.rep.Violation(fmt.Sprintf("msg=%s ver=%d what=v1len", mi.Name, verOf(v2)),
					"v1 decoder accepted a payload whose length is not the exact base size", wit())
			}
			return
		}
		if err != nil {
			e.rep.Violation(fmt.Sprintf("msg=%s ver=%d what=%s", mi.Name, verOf(v2), what), "decoder rejected a decodable payload: "+err.Error(), wit())
			return
		}
		if reflect.TypeOf(got) != want.Type() {
			e.rep.Violation(fmt.Sprintf("msg=%s ver=%d what=%s", mi.Name, verOf(v2), what), fmt.Sprintf("decoded to %T", got), wit())
			return
		}
		if eq, diff := mi.Layout.BitEqual(reflect.ValueOf(got), want); !eq {
			e.rep.Violation(fmt.Sprintf("msg=%s ver=%d what=%s", mi.Name, verOf(v2), what),
				"decoded value differs from the reference decoder in field "+diff,
				map[string]interface{}{"case": wit(), "got": fmt.Sprintf("%+v", got), "want": fmt.Sprintf("%+v", want.Interface())})
			return
		}
		e.nDecodes++
		if e.nDecodes%2 == 0 {
			// the application owns what it was handed: it changes it; later decodes are not affected by that
			vh.FillMessage(e.scribble(), mi.Layout, reflect.ValueOf(got), vh.ModeMixed)
			return
		}
		e.keep(mi, got, want, v2)
	})
}

func (e *c04env) roundTrip(r *vh.RNG, mi *msgInfo, mode vh.Mode) {
	val := reflect.New(mi.Type)
	vh.FillMessage(r, mi.Layout, val, mode)
	for _, v2 := range []bool{false, true} {
		e.rep.Eval(1)
		wit := func() interface{} {
			return map[string]interface{}{"msg": mi.Name, "version": verOf(v2), "value": fmt.Sprintf("%+v", val.Elem().Interface())}
		}
		guard(e.rep, fmt.Sprintf("msg=%s ver=%d what=panic", mi.Name, verOf(v2)), wit, func() {
			// keep a deep copy: encoding must not modify the value
			before := reflect.New(mi.Type)
			before.Elem().Set(val.Elem())
			raw := mi.RW.Write(val.Interface().(message.Message), v2)
			if eq, diff := mi.Layout.BitEqual(before, val); !eq {
				e.rep.Violation(fmt.Sprintf("msg=%s ver=%d what=roundtrip", mi.Name, verOf(v2)), "encoding modified the message value (field "+diff+")", wit())
			}
			want := mi.Layout.Encode(val, v2)
			e.rep.Distinct(mi.Name, want, v2)
			if !bytes.Equal(raw.Payload, want) {
				e.rep.Violation(fmt.Sprintf("msg=%s ver=%d what=roundtrip", mi.Name, verOf(v2)), "encoding differs from the reference encoding",
					map[string]interface{}{"case": wit(), "got": vh.Hex(raw.Payload), "want": vh.Hex(want)})
				return
			}
			if v2 {
				if len(raw.Payload) == 0 {
					e.rep.Violation(fmt.Sprintf("msg=%s ver=2 what=trunc", mi.Name), "v2 encoding is empty (must keep at least one byte)", wit())
					return
				}
				if len(raw.Payload) > 1 && raw.Payload[len(raw.Payload)-1] == 0 {
					e.rep.Violation(fmt.Sprintf("msg=%s ver=2 what=trunc", mi.Name), "v2 encoding ends in a zero byte (trailing zeros must be stripped)", wit())
				}
			} else if len(raw.Payload) != mi.Layout.SizeBase {
				e.rep.Violation(fmt.Sprintf("msg=%s ver=1 what=v1len", mi.Name), "v1 encoding is not exactly the base size", wit())
			}
			got, err := e.decodeCanary(mi, raw.Payload, v2, 8+mi.Layout.SizeExt)
			if err != nil {
				e.rep.Violation(fmt.Sprintf("msg=%s ver=%d what=roundtrip", mi.Name, verOf(v2)), "decoder rejected the encoder's output: "+err.Error(), wit())
				return
			}
			canon := mi.Layout.Canonical(val, v2)
			if reflect.TypeOf(got) != canon.Type() {
				e.rep.Violation(fmt.Sprintf("msg=%s ver=%d what=roundtrip", mi.Name, verOf(v2)), fmt.Sprintf("decoded to %T", got), wit())
				return
			}
			if eq, diff := mi.Layout.BitEqual(reflect.ValueOf(got), canon); !eq {
				e.rep.Violation(fmt.Sprintf("msg=%s ver=%d what=roundtrip", mi.Name, verOf(v2)),
					"decode(encode(value)) is not the canonical form of value (field "+diff+")",
					map[string]interface{}{"case": wit(), "got": fmt.Sprintf("%+v", got), "want": fmt.Sprintf("%+v", canon.Interface())})
			}
			// the encoded payload is the caller's: it overwrites it (a buffer it reuses); no later encoding may be affected
			for i := range raw.Payload {
				raw.Payload[i] = 0x2A
			}
		})
	}
	// truncation / extension invariance in v2
	full := mi.Layout.EncodeFull(val, true)
	base := mi.Layout.Canonical(val, true)
	tr := len(mi.Layout.Encode(val, true))
	check := func(p []byte, what string) {
		e.rep.Eval(1)
		wit := func() interface{} {
			return map[string]interface{}{"msg": mi.Name, "payload": vh.Hex(p), "variant": what, "value": fmt.Sprintf("%+v", val.Elem().Interface())}
		}
		guard(e.rep, fmt.Sprintf("msg=%s ver=2 what=panic", mi.Name), wit, func() {
			got, err := e.decodeCanary(mi, p, true, 4+len(p)%7*40)
			if err != nil {
				e.rep.Violation(fmt.Sprintf("msg=%s ver=2 what=trunc", mi.Name), "decoder rejected a payload variant ("+what+"): "+err.Error(), wit())
				return
			}
			if eq, diff := mi.Layout.BitEqual(reflect.ValueOf(got), base); !eq {
				e.rep.Violation(fmt.Sprintf("msg=%s ver=2 what=trunc", mi.Name),
					"decoding depends on trailing zero bytes / unknown tail ("+what+", field "+diff+")", wit())
			}
		})
	}
	// every number of trailing zeros removed (down to the truncated form, and to 0 bytes when all-zero)
	lo := tr
	if tr == 1 && full[0] == 0 {
		lo = 0
	}
	step := 1
	if !vh.Thorough() && len(full)-lo > 24 {
		step = (len(full) - lo) / 12
	}
	for n := lo; n <= len(full); n += step {
		check(full[:n], "zeros-removed")
	}
	check(full[:lo], "zeros-removed")
	// zeros appended beyond the full size, and unknown non-zero trailing bytes
	for _, k := range []int{1, 2, 7, 255 - len(full)} {
		if k <= 0 || len(full)+k > 255 {
			continue
		}
		check(append(append([]byte(nil), full...), make([]byte, k)...), "zeros-appended")
		check(append(append([]byte(nil), full...), r.Bytes(k)...), "unknown-tail")
	}
}

func TestC04(t *testing.T) {
	rep := vh.NewReport("C04")
	defer rep.Finish(t)
	rep.Rule("every message struct of the shipped dialects plus 15 user structs x {v1,v2} x N generated values (boundary values per field, NaN payloads incl. signalling, -0, " +
		"over-long strings, embedded NUL, enum values above the wire width, zero tails): decode(encode(v)) vs the reference canonical form; every number of trailing zeros removed, " +
		"zeros and unknown bytes appended; arbitrary payloads (random / zero / 0xFF) of every length 0..255 real decoder vs reference decoder; every decode runs on a slice with " +
		"spare capacity inside a 0xA5-filled backing array (canary). distinct = distinct (type, version, encoding)")
	rep.RuleAdd("Also: spare capacity behind the last payload of a shared buffer rewritten by another goroutine during decodes; every encoding scribbled over by the caller after use; payloads longer than 255 bytes.")
	rep.RuleAdd("Rounds 12-15: payload lengths above 255, neighbours in memory rewritten by another goroutine, encodings scribbled over by the caller, strings of 256 and more bytes.")
	rep.Assume("reference canonicalisation harness/ref (strings cut at length / first NUL, enums masked to wire width, floats by bit pattern)")
	seed := vh.Seed()
	all := shippedOrViolation(rep, t)
	var err error
	_ = err
	users, err := userMsgInfos()
	if err != nil {
		rep.Violation("msg=user what=init", "a well-formed user-defined message struct was rejected: "+err.Error(), nil)
	}
	types := append(append([]*msgInfo{}, all...), users...)
	env := &c04env{rep: rep}
	nVals := vh.Pick(40, 400)
	lenStep := vh.Pick(0, 1)
	for ti, mi := range types {
		if mi.Layout.SizeExt > 255 {
			continue
		}
		r := vh.Sub(seed, "c04-"+mi.Name)
		rep.Count("types", 1)
		for k := 0; k < nVals; k++ {
			mode := vh.ModeMixed
			switch k % 4 {
			case 1:
				mode = vh.ModeZeroTail
			case 2:
				mode = vh.ModeCanon
			}
			env.roundTrip(r, mi, mode)
		}
		// all-zero value and all-ones value
		env.roundTrip(vh.Sub(1, "zero"), mi, vh.ModeZeroTail)
		// arbitrary payloads of every length (quick: every length for a third of the types, a sample for the rest)
		for n := 0; n <= 255; n++ {
			if lenStep == 0 && ti%3 != int(seed%3) && n%9 != int(seed%9) && n != mi.Layout.SizeBase && n != mi.Layout.SizeExt && n > 3 {
				continue
			}
			for class := 0; class < 3; class++ {
				p := make([]byte, n)
				switch class {
				case 0:
					copy(p, r.Bytes(n))
				case 2:
					for i := range p {
						p[i] = 0xFF
					}
				}
				env.checkDecode(mi, p, true, "arbitrary")
				env.checkDecode(mi, p, false, "arbitrary")
			}
			rep.Count("arbitrary_payload_lengths", 1)
		}
		// lengths that do not fit the one-byte length field of a frame (the decoder is a public function: nothing guarantees
		// that its caller took the payload out of a frame): v1 still demands the exact base size
		for _, n := range []int{256, 257, mi.Layout.SizeBase + 256, mi.Layout.SizeBase + 512, mi.Layout.SizeExt + 256, mi.Layout.SizeBase + 65536, 511, 512} {
			p := r.Bytes(n)
			env.checkDecode(mi, p, false, "arbitrary-long")
			env.checkDecode(mi, p, true, "arbitrary-long")
			rep.Count("payloads_longer_than_255", 1)
		}
		if ti%101 == 0 {
			val := reflect.New(mi.Type)
			vh.FillMessage(r, mi.Layout, val, vh.ModeMixed)
			rep.Sample(map[string]interface{}{"msg": mi.Name, "value": fmt.Sprintf("%+v", val.Elem().Interface()),
				"v2": vh.Hex(mi.Layout.Encode(val, true)), "v1": vh.Hex(mi.Layout.Encode(val, false))})
		}
	}
	// interleaving across types: a decode must not depend on what was decoded before
	r := vh.Sub(seed, "c04-interleave")
	for k := 0; k < vh.Pick(3000, 100000); k++ {
		mi := types[r.Intn(len(types))]
		if mi.Layout.SizeExt > 255 {
			continue
		}
		n := r.Intn(mi.Layout.SizeExt + 1)
		if r.Chance(1, 3) {
			n = mi.Layout.SizeExt
		}
		p := r.Bytes(n)
		if r.Chance(1, 2) {
			for i := range p {
				p[i] = 0xFF
			}
		}
		env.checkDecode(mi, p, true, "interleaved")
	}
	// independent decodes running concurrently on ONE ReadWriter (a Node shares the dialect's codecs between the reader
	// goroutines of all its channels): each result must still be the reference decoding of its own payload
	{
		r := vh.Sub(seed, "c04-concurrent")
		nTypes := vh.Pick(12, 120)
		for k := 0; k < nTypes; k++ {
			mi := types[r.Intn(len(types))]
			if mi.Layout.SizeExt > 255 || mi.Layout.SizeExt < 4 {
				continue
			}
			var wg sync.WaitGroup
			for g := 0; g < 4; g++ {
				wg.Add(1)
				gr := r.Fork()
				go func() {
					defer wg.Done()
					for i := 0; i < vh.Pick(400, 3000); i++ {
						n := 1 + gr.Intn(mi.Layout.SizeExt) // mostly truncated payloads
						p := gr.Bytes(n)
						got, err := mi.RW.Read(&message.MessageRaw{ID: mi.Msg.GetID(), Payload: p}, true)
						want, _ := mi.Layout.Decode(p, true)
						rep.Eval(1)
						if err != nil {
							rep.Violation(fmt.Sprintf("msg=%s ver=2 what=concurrent", mi.Name), "decode failed: "+err.Error(), vh.Hex(p))
							return
						}
						if eq, diff := mi.Layout.BitEqual(reflect.ValueOf(got), want); !eq {
							rep.Violation(fmt.Sprintf("msg=%s ver=2 what=concurrent", mi.Name),
								"a decode running concurrently with other decodes on the same ReadWriter returned another payload's data (field "+diff+")", vh.Hex(p))
							return
						}
					}
				}()
			}
			wg.Wait()
			rep.Count("concurrent_decode_types", 1)
			// payloads that are neighbours in one backing array, each decoded by its own goroutine: a decoder must not even
			// temporarily use the bytes behind its payload (they are somebody else's payload)
			{
				const slots = 4
				L := 1 + r.Intn(mi.Layout.SizeExt/2+1) // short payloads: room for "extension" into the neighbour
				backing := make([]byte, slots*L+mi.Layout.SizeExt)
				var wg2 sync.WaitGroup
				// the rest of the buffer behind the last payload belongs to a goroutine that keeps flipping it between all-zero and
				// all-ones (the next datagram being received into the same buffer): never part of anybody's payload
				var stopFlip int32
				flipDone := make(chan struct{})
				go func() {
					defer close(flipDone)
					tail := backing[slots*L:]
					for v := byte(0); atomic.LoadInt32(&stopFlip) == 0; v = ^v {
						for j := range tail {
							tail[j] = v
						}
					}
				}()
				for g := 0; g < slots; g++ {
					wg2.Add(1)
					gr := r.Fork()
					p := backing[g*L : (g+1)*L : len(backing)] // capacity reaches over the neighbours
					go func(g int) {
						defer wg2.Done()
						for i := 0; i < vh.Pick(300, 3000); i++ {
							zero := g == slots-1 || gr.Chance(1, 3) // the last payload is followed by the flipping tail only
							for j := range p {
								p[j] = byte(1 + gr.Intn(255)) // own bytes only
								if zero && j > 0 {
									p[j] = 0
								}
							}
							mine := append([]byte(nil), p...)
							got, err := mi.RW.Read(&message.MessageRaw{ID: mi.Msg.GetID(), Payload: p}, true)
							want, _ := mi.Layout.Decode(mine, true)
							rep.Eval(1)
							if err != nil {
								continue
							}
							if eq, diff := mi.Layout.BitEqual(reflect.ValueOf(got), want); !eq {
								rep.Violation(fmt.Sprintf("msg=%s ver=2 what=alias", mi.Name),
									"payloads lying next to each other in one buffer, decoded at the same time by different goroutines: a decode saw its neighbour's bytes disturbed (field "+diff+")", vh.Hex(mine))
								return
							}
						}
					}(g)
				}
				wg2.Wait()
				atomic.StoreInt32(&stopFlip, 1)
				<-flipDone
				rep.Count("adjacent_payload_decode_types", 1)
			}
		}
	}
	env.recheck()
	rep.Floor("types", 400)
	rep.Floor("decoded_values_rechecked_later", 1000)
}
