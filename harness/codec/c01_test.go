package codec

import (
	"bufio"
	"bytes"
	"fmt"
	"io"
	"reflect"
	"testing"

	"github.com/bluenviron/gomavlib/v3/pkg/dialect"
	"github.com/bluenviron/gomavlib/v3/pkg/frame"
	"github.com/bluenviron/gomavlib/v3/pkg/message"

	"verifharness/ref"
	"verifharness/vh"
)

// C01 — frame wire format: spec layout and lossless round trip.
//
// Oracle: ref.Serialize (flat wire offsets from the serialization guide) byte for byte
// against what the ByteWriter received; frame.Reader on those bytes must give back a frame
// equal field for field; v1 with id > 255 must be refused with nothing written.

type c01cfg struct {
	version int
	signed  bool
	dialect string // "none", "unknown" (dialect present, id not in it), "known" (decoded message)
}

func (c c01cfg) String() string {
	s := 0
	if c.signed {
		s = 1
	}
	return fmt.Sprintf("ver=%d signed=%d dialect=%s", c.version, s, c.dialect)
}

func c01key(c c01cfg, field, kind string) string {
	s := 0
	if c.signed {
		s = 1
	}
	return fmt.Sprintf("ver=%d signed=%d field=%s kind=%s", c.version, s, field, kind)
}

var c01timestamps = []uint64{0, 1, 0xFF, 0x100, 0xFFFF, 0x10000, 0xFFFFFF, 0x1000000, 0xFFFFFFFF, 0x100000000,
	0xFFFFFFFFFF, 0x10000000000, 0xFFFFFFFFFFFF, 0x800000000000, 0x0102030405060}

var c01ids = []uint32{0, 1, 0xFE, 0xFF, 0x100, 0x101, 0xFFFF, 0x10000, 0x10203, 0x7FFFFF, 0x800000, 0xFFFFFE, 0xFFFFFF}

func c01payload(r *vh.RNG, n, class int) []byte {
	p := make([]byte, n)
	switch class {
	case 0:
		copy(p, r.Bytes(n))
	case 1: // zeros
	case 2:
		for i := range p {
			p[i] = 0xFF
		}
	case 3: // random with zero tail
		copy(p, r.Bytes(n))
		for i := n / 2; i < n; i++ {
			p[i] = 0
		}
	case 4: // markers inside
		for i := range p {
			if i%2 == 0 {
				p[i] = 0xFD
			} else {
				p[i] = 0xFE
			}
		}
	}
	return p
}

func c01random(r *vh.RNG, c c01cfg) *ref.FrameSpec {
	s := &ref.FrameSpec{Version: c.version, Seq: r.Byte(), Sys: r.Byte(), Comp: r.Byte(), Checksum: uint16(r.U64())}
	if c.version == 1 {
		s.MsgID = uint32(r.Byte())
	} else {
		s.MsgID = uint32(r.U64() & 0xFFFFFF)
		s.Compat = r.Byte()
		if c.signed {
			s.Signed = true
			s.Incompat = 1
			s.LinkID = r.Byte()
			s.Timestamp = r.U64() & 0xFFFFFFFFFFFF
			switch r.Intn(12) {
			case 0:
				s.Timestamp = 0xFFFFFFFFFFFF // the largest value the 48-bit field holds
			case 1:
				s.Timestamp = 0
			case 2:
				s.Timestamp = 0xFFFFFFFFFFFE
			}
			copy(s.Signature[:], r.Bytes(6))
		}
	}
	n := r.Intn(256)
	switch r.Intn(8) {
	case 0:
		n = 0
	case 1:
		n = 255
	case 2:
		n = 1
	}
	s.Payload = c01payload(r, n, r.Intn(5))
	return s
}

type c01env struct {
	rep     *vh.Report
	cfg     c01cfg
	drw     *dialect.ReadWriter // nil for "none"
	known   []*msgInfo          // for "known"
	w       *recWriter
	fw      *frame.Writer
	nframes int
}

func newC01env(rep *vh.Report, cfg c01cfg, known []*msgInfo) (*c01env, error) {
	e := &c01env{rep: rep, cfg: cfg, known: known, w: &recWriter{}}
	if cfg.dialect != "none" {
		var msgs []message.Message
		for _, k := range known {
			msgs = append(msgs, k.Msg)
		}
		drw, err := newDialectRW(msgs...)
		if err != nil {
			return nil, err
		}
		e.drw = drw
	}
	// Write() takes frames of either version whatever the writer's own OutVersion (which only governs WriteMessage): the
	// writers are configured with none / v1 / v2 in rotation
	c01writerCounter++
	e.fw = &frame.Writer{ByteWriter: e.w, DialectRW: e.drw, OutVersion: frame.WriterOutVersion(c01writerCounter % 3), OutSystemID: 1}
	if err := e.fw.Initialize(); err != nil {
		return nil, err
	}
	return e, nil
}

var c01writerCounter, c01knownCounter int

// check writes one frame through the real writer, compares with the reference image,
// reads it back through a fresh real reader and compares field for field.
func (e *c01env) check(s *ref.FrameSpec, field string) {
	e.rep.Eval(1)
	e.nframes++
	want := ref.Serialize(s)
	e.rep.Distinct(want)
	if e.nframes%5003 == 1 {
		e.rep.Sample(map[string]interface{}{"cfg": e.cfg.String(), "frame": specJSON(s), "wire": vh.Hex(want)})
	}
	wit := func() interface{} { return map[string]interface{}{"cfg": e.cfg.String(), "frame": specJSON(s)} }
	guard(e.rep, c01key(e.cfg, field, "panic"), wit, func() {
		e.w.reset()
		tf := toFrame(s)
		if f2, ok := tf.(*frame.V2Frame); ok && !s.Signed && e.nframes%3 == 0 {
			// an unsigned frame object that still holds signature fields (flag cleared by a router, FixFrame on a node with
			// an outgoing key): they are not part of an unsigned frame's layout
			f2.Signature = &frame.V2Signature{0xFD, 0xFE, 0xFD, 0xFE, 0xFD, 0xFE}
			f2.SignatureLinkID = 0xFE
			f2.SignatureTimestamp = 0xFDFDFDFDFDFD
			e.rep.Count("unsigned_frames_with_leftover_signature_fields", 1)
		}
		err := e.fw.Write(tf)
		if err != nil {
			e.rep.Violation(c01key(e.cfg, field, "bytes"), "writer refused a well-formed frame: "+err.Error(), wit())
			return
		}
		got := e.w.all()
		if !bytes.Equal(got, want) {
			e.rep.Violation(c01key(e.cfg, field, "bytes"), "emitted bytes differ from the spec layout",
				map[string]interface{}{"cfg": e.cfg.String(), "frame": specJSON(s), "want": vh.Hex(want), "got": vh.Hex(got)})
			return
		}
		e.rep.Count("write_calls", len(e.w.calls))
		rd := &frame.Reader{ByteReader: bytes.NewReader(got), DialectRW: e.drw}
		if e.nframes%4 == 2 {
			// the caller's own buffered reader, of any size (smaller than the frame included)
			sz := []int{16, 17, 64, 100, 255, 256, 300, 512, 4096}[(e.nframes/4)%9]
			rd = &frame.Reader{BufByteReader: bufio.NewReaderSize(bytes.NewReader(got), sz), DialectRW: e.drw}
			e.rep.Count("readbacks_through_caller_bufio", 1)
		}
		if err := rd.Initialize(); err != nil {
			e.rep.HarnessError("reader init: " + err.Error())
			return
		}
		fr, err := rd.Read()
		if err != nil {
			e.rep.Violation(c01key(e.cfg, field, "roundtrip"), "reader rejected the writer's bytes: "+err.Error(), wit())
			return
		}
		back := fromFrame(fr)
		if ok, diff := specEqual(s, back); !ok {
			e.rep.Violation(c01key(e.cfg, diff, "roundtrip"), "frame read back differs in "+diff,
				map[string]interface{}{"cfg": e.cfg.String(), "frame": specJSON(s), "back": specJSON(back)})
			return
		}
		if _, err := rd.Read(); err != io.EOF {
			e.rep.Violation(c01key(e.cfg, field, "roundtrip"), fmt.Sprintf("reader did not reach EOF after one frame: %v", err), wit())
		}
	})
}

// checkKnown exercises a decoded dialect message inside the frame.
func (e *c01env) checkKnown(r *vh.RNG, mi *msgInfo) {
	v2 := e.cfg.version == 2
	val := reflect.New(mi.Type)
	vh.FillMessage(r, mi.Layout, val, vh.ModeMixed)
	s := c01random(r, e.cfg)
	s.MsgID = mi.Msg.GetID()
	if e.cfg.version == 1 && s.MsgID > 255 {
		return
	}
	s.Payload = mi.Layout.Encode(val, v2)
	s.Checksum = ref.ChecksumOfWire(ref.Serialize(s), mi.Layout.CRCExtra)
	want := ref.Serialize(s)
	e.rep.Eval(1)
	e.rep.Distinct(want)
	e.rep.Count("decoded_frames", 1)
	wit := func() interface{} {
		return map[string]interface{}{"cfg": e.cfg.String(), "msg": mi.Name, "value": fmt.Sprintf("%+v", val.Elem().Interface()), "frame": specJSON(s)}
	}
	guard(e.rep, c01key(e.cfg, "message", "panic"), wit, func() {
		fr := toFrame(s)
		switch ff := fr.(type) {
		case *frame.V1Frame:
			ff.Message = val.Interface().(message.Message)
		case *frame.V2Frame:
			ff.Message = val.Interface().(message.Message)
		}
		e.w.reset()
		fwr := e.fw
		c01knownCounter++
		if c01knownCounter%3 == 1 {
			// a writer that carries the deprecated options of its own WriteMessage (a key, a link id, ids): Write() emits the
			// frame it is given - its own signature block included - whatever they are
			kw := &frame.Writer{ByteWriter: e.w, DialectRW: e.drw, OutVersion: frame.V2, OutSystemID: 200, OutComponentID: 201, OutSignatureLinkID: 202, OutKey: mkKey([]byte("a key of the writer's own, 32 b.."))}
			if kw.Initialize() == nil {
				fwr = kw
				e.rep.Count("frames_written_through_writers_with_deprecated_options", 1)
			}
		}
		if err := fwr.Write(fr); err != nil {
			e.rep.Violation(c01key(e.cfg, "message", "bytes"), "writer refused a frame with a dialect message: "+err.Error(), wit())
			return
		}
		got := e.w.all()
		if !bytes.Equal(got, want) {
			e.rep.Violation(c01key(e.cfg, "message", "bytes"), "emitted bytes differ from the spec layout (decoded message)",
				map[string]interface{}{"case": wit(), "want": vh.Hex(want), "got": vh.Hex(got)})
			return
		}
		rd := &frame.Reader{ByteReader: bytes.NewReader(got), DialectRW: e.drw}
		_ = rd.Initialize()
		fb, err := rd.Read()
		if err != nil {
			e.rep.Violation(c01key(e.cfg, "message", "roundtrip"), "reader rejected the writer's bytes: "+err.Error(), wit())
			return
		}
		back := fromFrame(fb)
		exp := *s
		exp.Payload = nil
		if ok, diff := specEqual(&exp, back); !ok {
			e.rep.Violation(c01key(e.cfg, diff, "roundtrip"), "frame read back differs in "+diff,
				map[string]interface{}{"case": wit(), "back": specJSON(back)})
			return
		}
		var m message.Message
		switch ff := fb.(type) {
		case *frame.V1Frame:
			m = ff.Message
		case *frame.V2Frame:
			m = ff.Message
		}
		canon := mi.Layout.Canonical(val, v2)
		if reflect.TypeOf(m) != canon.Type() {
			e.rep.Violation(c01key(e.cfg, "message", "roundtrip"), fmt.Sprintf("message read back has type %T", m), wit())
			return
		}
		if ok, diff := mi.Layout.BitEqual(reflect.ValueOf(m), canon); !ok {
			e.rep.Violation(c01key(e.cfg, "message", "roundtrip"), "decoded message differs in field "+diff,
				map[string]interface{}{"case": wit(), "got": fmt.Sprintf("%+v", m)})
		}
	})
}

// checkRawKnownID writes a raw frame whose id is in the writer's dialect and whose checksum is whatever the frame says.
func (e *c01env) checkRawKnownID(r *vh.RNG, mi *msgInfo, k int) {
	s := c01random(r, e.cfg)
	s.MsgID = mi.Msg.GetID()
	if e.cfg.version == 1 && s.MsgID > 255 {
		return
	}
	if k%2 == 0 {
		// a payload of the message's own shape, checksum of another revision (wrong CRC_EXTRA)
		val := reflect.New(mi.Type)
		vh.FillMessage(r, mi.Layout, val, vh.ModeMixed)
		s.Payload = mi.Layout.Encode(val, e.cfg.version == 2)
		s.Checksum = ref.ChecksumOfWire(ref.Serialize(s), mi.Layout.CRCExtra+1+byte(k))
	}
	if k == 1 {
		s.Checksum = 0 // a checksum field that happens to be zero is a checksum like any other
	}
	want := ref.Serialize(s)
	e.rep.Eval(1)
	e.rep.Distinct(want)
	e.rep.Count("raw_frames_with_dialect_id", 1)
	wit := func() interface{} {
		return map[string]interface{}{"cfg": e.cfg.String(), "msg": mi.Name, "frame": specJSON(s)}
	}
	guard(e.rep, c01key(e.cfg, "rawknown", "panic"), wit, func() {
		e.w.reset()
		tf := toFrame(s)
		if err := e.fw.Write(tf); err != nil {
			e.rep.Violation(c01key(e.cfg, "rawknown", "bytes"), "writer refused an already encoded frame: "+err.Error(), wit())
			return
		}
		if got := e.w.all(); !bytes.Equal(got, want) {
			e.rep.Violation(c01key(e.cfg, "rawknown", "bytes"), "an already encoded frame whose id is in the writer's dialect was not emitted as given",
				map[string]interface{}{"case": wit(), "want": vh.Hex(want), "got": vh.Hex(got)})
			return
		}
		if ok, diff := specEqual(s, fromFrame(tf)); !ok {
			e.rep.Violation(c01key(e.cfg, diff, "rawknown"), "the caller's frame object was modified by Write in "+diff, wit())
		}
	})
}

// checkUntruncatedSigned: a signed v2 frame of a dialect message sent without trailing-zero truncation (the spec allows
// it), read by a reader that has the key and the dialect: link id, timestamp and signature of the returned frame are the
// ones in the bytes.
func (e *c01env) checkUntruncatedSigned(r *vh.RNG, mi *msgInfo) {
	val := reflect.New(mi.Type)
	vh.FillMessage(r, mi.Layout, val, vh.ModeMixed)
	full := mi.Layout.EncodeFull(val, true)
	if len(full) < 2 {
		return
	}
	full[len(full)-1] = 0
	if r.Chance(1, 2) && len(full) > 3 {
		full[len(full)-2], full[len(full)-3] = 0, 0
	}
	s := c01random(r, e.cfg)
	s.MsgID = mi.Msg.GetID()
	s.Payload = full
	keyRaw := r.Bytes(32)
	ref.Seal(s, mi.Layout.CRCExtra, keyRaw)
	wire := ref.Serialize(s)
	e.rep.Eval(1)
	e.rep.Distinct(wire)
	e.rep.Count("untruncated_signed_frames_read_with_key", 1)
	wit := func() interface{} {
		return map[string]interface{}{"msg": mi.Name, "frame": specJSON(s), "wire": vh.Hex(wire), "key": vh.Hex(keyRaw)}
	}
	guard(e.rep, c01key(e.cfg, "untruncated", "panic"), wit, func() {
		rd, err := newFrameSource(bytes.NewReader(wire), e.drw, mkKey(keyRaw))
		if err != nil {
			e.rep.HarnessError("reader init: " + err.Error())
			return
		}
		fr, err := rd.Read()
		if err != nil {
			e.rep.Violation(c01key(e.cfg, "untruncated", "roundtrip"), "a valid signed frame with an untruncated payload was rejected: "+err.Error(), wit())
			return
		}
		back := fromFrame(fr)
		switch {
		case !back.Signed || back.LinkID != s.LinkID:
			e.rep.Violation(c01key(e.cfg, "linkid", "roundtrip"), "frame read back differs in linkid", map[string]interface{}{"case": wit(), "back": specJSON(back)})
		case back.Timestamp != s.Timestamp:
			e.rep.Violation(c01key(e.cfg, "timestamp", "roundtrip"), "frame read back differs in timestamp", map[string]interface{}{"case": wit(), "back": specJSON(back)})
		case back.Signature != s.Signature:
			e.rep.Violation(c01key(e.cfg, "signature", "roundtrip"), "the signature of the frame read back is not the one in the bytes that were read",
				map[string]interface{}{"case": wit(), "back": specJSON(back)})
		case back.Seq != s.Seq || back.Sys != s.Sys || back.Comp != s.Comp || back.Compat != s.Compat || back.MsgID != s.MsgID:
			e.rep.Violation(c01key(e.cfg, "header", "roundtrip"), "frame read back differs in a header field", map[string]interface{}{"case": wit(), "back": specJSON(back)})
		}
	})
}

// refuse checks that a v1 frame with an id above 255 is refused and nothing is written.
func (e *c01env) refuse(s *ref.FrameSpec) {
	e.rep.Eval(1)
	e.rep.Count("v1_refusals", 1)
	e.rep.Distinct("refuse", s.MsgID, s.Payload)
	wit := func() interface{} { return map[string]interface{}{"cfg": e.cfg.String(), "frame": specJSON(s)} }
	guard(e.rep, c01key(e.cfg, "msgid", "panic"), wit, func() {
		e.w.reset()
		err := e.fw.Write(toFrame(s))
		if err == nil {
			e.rep.Violation(c01key(e.cfg, "msgid", "refuse"), "v1 frame with message id > 255 was not refused",
				map[string]interface{}{"frame": specJSON(s), "emitted": vh.Hex(e.w.all())})
			return
		}
		if len(e.w.all()) != 0 {
			e.rep.Violation(c01key(e.cfg, "msgid", "refuse"), "v1 frame with message id > 255 was refused but bytes were emitted",
				map[string]interface{}{"frame": specJSON(s), "emitted": vh.Hex(e.w.all())})
		}
	})
}

// stream writes many frames through one writer, reads them all through ONE reader (whose
// internal buffer is refilled many times), keeps every returned frame and compares them
// all after the stream is exhausted: a returned frame must not change afterwards.
func (e *c01env) stream(r *vh.RNG, n int) {
	var specs []*ref.FrameSpec
	var img, readImg []byte
	noise, rejects := 0, 0
	e.w.reset()
	for i := 0; i < n; i++ {
		s := c01random(r, e.cfg)
		if r.Chance(1, 3) {
			s.Payload = c01payload(r, 240+r.Intn(16), 0)
		}
		if e.drw != nil {
			// keep ids outside the dialect: raw frames, no checksum validation
			for e.drw.GetMessage(s.MsgID) != nil {
				s.MsgID = (s.MsgID + 1) & 0xFF
			}
		}
		if err := e.fw.Write(toFrame(s)); err != nil {
			e.rep.Violation(c01key(e.cfg, "stream", "bytes"), "writer refused a well-formed frame: "+err.Error(), specJSON(s))
			return
		}
		specs = append(specs, s)
		img = append(img, ref.Serialize(s)...)
		if r.Chance(1, 4) {
			// stray bytes in front of the next frame (line noise; none of them can start a frame): each costs at most one refusal
			readImg = append(readImg, img[len(readImg)-noise:]...)
			k := 1 + r.Intn(6)
			for j := 0; j < k; j++ {
				b := r.Byte()
				for b == 0xFE || b == 0xFD {
					b = r.Byte()
				}
				readImg = append(readImg, b)
			}
			noise += k
			rejects += k
			e.rep.Count("stream_stray_bytes_between_valid_frames", k)
		}
		if e.drw != nil && len(e.known) > 0 && r.Chance(1, 3) {
			// what the reader sees between two valid frames: a complete frame of a dialect message whose checksum is wrong (read to
			// its end, then refused), of either version, signed or not whatever the stream's own frames are
			mi := e.known[r.Intn(len(e.known))]
			bad := c01random(r, c01cfg{version: 1 + r.Intn(2), signed: r.Chance(2, 3)})
			bad.MsgID = mi.Msg.GetID()
			if bad.Version == 2 || bad.MsgID <= 255 {
				bad.Checksum = ref.ChecksumOfWire(ref.Serialize(bad), mi.Layout.CRCExtra) ^ uint16(1+r.Intn(0xFFFF))
				readImg = append(readImg, img[len(readImg)-noise:]...)
				b := ref.Serialize(bad)
				readImg = append(readImg, b...)
				noise += len(b)
				rejects++
			}
		}
	}
	readImg = append(readImg, img[len(readImg)-noise:]...)
	e.rep.Count("stream_refused_frames_between_valid_ones", rejects)
	e.rep.Eval(n)
	e.rep.Count("stream_frames", n)
	e.rep.Distinct(img)
	if !bytes.Equal(e.w.all(), img) {
		e.rep.Violation(c01key(e.cfg, "stream", "bytes"), "stream of frames differs from the concatenated spec layouts",
			map[string]interface{}{"cfg": e.cfg.String(), "frames": n})
		return
	}
	// the same frames once more, as a datagram transport hands them over: several whole frames per datagram, up to 512 bytes
	// together, each Read returning one datagram (what does not fit the caller's slice is gone)
	{
		var dgrams [][]byte
		var cur []byte
		for _, sp := range specs {
			b := ref.Serialize(sp)
			if len(cur)+len(b) > 512 || (len(cur) > 0 && r.Chance(1, 4)) {
				dgrams = append(dgrams, cur)
				cur = nil
			}
			cur = append(cur, b...)
		}
		dgrams = append(dgrams, cur)
		e.rep.Count("stream_datagrams_with_whole_frames", len(dgrams))
		rdD := &frame.Reader{ByteReader: &datagramReader{dgrams: dgrams}, DialectRW: e.drw}
		_ = rdD.Initialize()
		for i, sp := range specs {
			fr, err := rdD.Read()
			if err != nil {
				e.rep.Violation(c01key(e.cfg, "stream", "roundtrip"), fmt.Sprintf("frames packed into datagrams of up to 512 bytes: frame %d was not read back: %v", i, err),
					map[string]interface{}{"cfg": e.cfg.String(), "index": i})
				break
			}
			if ok, diff := specEqual(sp, fromFrame(fr)); !ok {
				e.rep.Violation(c01key(e.cfg, diff, "roundtrip"), "a frame read from a datagram that carried several frames differs in "+diff,
					map[string]interface{}{"cfg": e.cfg.String(), "index": i, "frame": specJSON(sp), "back": specJSON(fromFrame(fr))})
				break
			}
		}
	}
	guard(e.rep, c01key(e.cfg, "stream", "panic"), func() interface{} { return vh.Hex(img) }, func() {
		rd := &frame.Reader{ByteReader: &chunkReader{data: readImg, r: r.Fork(), max: 700}, DialectRW: e.drw}
		var shared *bufio.Reader
		if r.Chance(1, 3) {
			// the caller's own small buffered reader, handed to a NEW frame reader every few frames (another consumer takes over
			// between two frames): what one reader has not returned as a frame is still there for the next
			shared = bufio.NewReaderSize(&chunkReader{data: readImg, r: r.Fork(), max: 700}, []int{16, 64, 300}[r.Intn(3)])
			rd = &frame.Reader{BufByteReader: shared, DialectRW: e.drw}
			e.rep.Count("streams_read_by_successive_readers_on_one_buffered_reader", 1)
		}
		_ = rd.Initialize()
		var got []frame.Frame
		refusals := 0
		for len(got) < len(specs) {
			if shared != nil && (len(got)+refusals)%5 == 4 {
				rd = &frame.Reader{BufByteReader: shared, DialectRW: e.drw}
				_ = rd.Initialize()
			}
			fr, err := rd.Read()
			if err != nil {
				refusals++
				if refusals > rejects {
					e.rep.Violation(c01key(e.cfg, "stream", "roundtrip"), "reader rejected a frame of a valid stream: "+err.Error(),
						map[string]interface{}{"cfg": e.cfg.String(), "index": len(got), "stream": vh.Hex(readImg)})
					return
				}
				continue
			}
			got = append(got, fr)
		}
		for i, fr := range got {
			if ok, diff := specEqual(specs[i], fromFrame(fr)); !ok {
				e.rep.Violation(c01key(e.cfg, diff, "roundtrip"),
					"frame returned from a multi-frame stream differs in "+diff+" once the stream has been consumed",
					map[string]interface{}{"cfg": e.cfg.String(), "index": i, "frame": specJSON(specs[i]), "back": specJSON(fromFrame(fr))})
				return
			}
		}
	})
}

// datagramReader returns one datagram per Read; what does not fit the slice it is given is dropped (UDP semantics).
type datagramReader struct {
	dgrams [][]byte
	i      int
}

func (d *datagramReader) Read(p []byte) (int, error) {
	if d.i >= len(d.dgrams) {
		return 0, io.EOF
	}
	n := copy(p, d.dgrams[d.i])
	d.i++
	return n, nil
}

// chunkReader serves data in random chunk sizes.
type chunkReader struct {
	data []byte
	r    *vh.RNG
	max  int
}

func (c *chunkReader) Read(p []byte) (int, error) {
	if len(c.data) == 0 {
		return 0, io.EOF
	}
	n := 1 + c.r.Intn(c.max)
	if n > len(p) {
		n = len(p)
	}
	if n > len(c.data) {
		n = len(c.data)
	}
	copy(p, c.data[:n])
	c.data = c.data[n:]
	return n, nil
}

func TestC01(t *testing.T) {
	rep := vh.NewReport("C01")
	defer rep.Finish(t)
	rep.Rule("frames built from a reference FrameSpec: per configuration (version x signed x dialect absent/unknown-id/known-decoded) " +
		"one-at-a-time exhaustive sweeps of every header byte (256 values), every payload length 0..255 x 5 content classes, " +
		"boundary and random message ids and 48-bit timestamps, random signatures, then fully random frames and multi-frame streams " +
		"through one reader; distinct = distinct wire images (SHA-1)")
	rep.RuleAdd("Also: already encoded frames whose id is in the writer's dialect (emitted as given); signed untruncated frames read back by a keyed reader with the dialect.")
	rep.RuleAdd("Rounds 12-15: writers that carry deprecated options of their own; raw frames whose checksum is 0; complete frames of dialect messages with a wrong checksum (either version, signed or not) between the valid frames of a stream.")
	rep.RuleAdd("Rounds 16-17: stray bytes between the frames of a stream, timestamps 0 / 2^48-1, frames packed into datagrams of up to 512 bytes (one per Read), successive readers on one caller-supplied buffered reader.")
	rep.Assume("reference serializer harness/ref written from the MAVLink serialization guide (anchored by upstream golden byte vectors)")
	rep.Assume("frames violating their own invariants (signature without signed flag, payload > 255) are outside the statement")

	all := shippedOrViolation(rep, t)
	var err error
	_ = err
	seed := vh.Seed()
	known := pickMsgs(vh.Sub(seed, "c01-known"), all, vh.Pick(24, 0))
	nRandom := vh.Pick(30000, 400000)
	nKnown := vh.Pick(120, 300)
	nStreams := vh.Pick(40, 300)

	for _, version := range []int{1, 2} {
		for _, signed := range []bool{false, true} {
			if version == 1 && signed {
				continue
			}
			for _, dm := range []string{"none", "unknown", "known"} {
				cfg := c01cfg{version, signed, dm}
				r := vh.Sub(seed, "c01-"+cfg.String())
				env, err := newC01env(rep, cfg, known)
				if err != nil {
					t.Fatal(err)
				}
				if dm == "known" {
					for _, mi := range known {
						for k := 0; k < nKnown; k++ {
							env.checkKnown(r, mi)
						}
						// already encoded frames whose id IS in the writer's dialect (forwarded from a peer with another revision of
						// the definition, read without dialect, hand-built): emitted as given, checksum included
						for k := 0; k < 6; k++ {
							env.checkRawKnownID(r, mi, k)
						}
						if signed {
							for k := 0; k < 4; k++ {
								env.checkUntruncatedSigned(r, mi)
							}
						}
					}
					continue
				}
				fix := func(s *ref.FrameSpec) *ref.FrameSpec {
					if env.drw != nil {
						for env.drw.GetMessage(s.MsgID) != nil {
							s.MsgID = (s.MsgID + 1) % 250
						}
					}
					return s
				}
				// header byte sweeps
				for v := 0; v < 256; v++ {
					b := byte(v)
					s := fix(c01random(r, cfg))
					s.Seq = b
					env.check(s, "seq")
					s = fix(c01random(r, cfg))
					s.Sys = b
					env.check(s, "sysid")
					s = fix(c01random(r, cfg))
					s.Comp = b
					env.check(s, "compid")
					s = fix(c01random(r, cfg))
					s.Checksum = uint16(b)<<8 | uint16(r.Byte())
					env.check(s, "checksum")
					s = fix(c01random(r, cfg))
					s.Checksum = uint16(r.Byte())<<8 | uint16(b)
					env.check(s, "checksum")
					if version == 1 {
						if dm == "none" {
							s = c01random(r, cfg)
							s.MsgID = uint32(b)
							env.check(s, "msgid")
						}
					} else {
						s = fix(c01random(r, cfg))
						s.Compat = b
						env.check(s, "compat")
						if signed {
							s = fix(c01random(r, cfg))
							s.LinkID = b
							env.check(s, "linkid")
							for k := 0; k < 6; k++ {
								s = fix(c01random(r, cfg))
								s.Signature[k] = b
								env.check(s, "signature")
								s = fix(c01random(r, cfg))
								s.Timestamp = (s.Timestamp &^ (uint64(0xFF) << (8 * uint(k)))) | uint64(b)<<(8*uint(k))
								env.check(s, "timestamp")
							}
						}
						if dm == "none" {
							for k := 0; k < 3; k++ {
								s = c01random(r, cfg)
								s.MsgID = (s.MsgID &^ (uint32(0xFF) << (8 * uint(k)))) | uint32(b)<<(8*uint(k))
								env.check(s, "msgid")
							}
						}
					}
				}
				// every payload length x content class
				for n := 0; n <= 255; n++ {
					for class := 0; class < 5; class++ {
						s := fix(c01random(r, cfg))
						s.Payload = c01payload(r, n, class)
						env.check(s, "payload")
					}
				}
				rep.Count("payload_lengths_swept", 256)
				// ids and timestamps
				if version == 2 && dm == "none" {
					for _, id := range c01ids {
						s := c01random(r, cfg)
						s.MsgID = id
						env.check(s, "msgid")
					}
				}
				if signed {
					for _, ts := range c01timestamps {
						s := fix(c01random(r, cfg))
						s.Timestamp = ts
						env.check(s, "timestamp")
					}
				}
				// v1 refusals
				if version == 1 {
					for _, id := range []uint32{0x100, 0x101, 0x1FF, 0x200, 0xFFFF, 0x10000, 0xFFFFFF, 300, 0x100 + uint32(r.Intn(1<<16))} {
						s := c01random(r, cfg)
						s.MsgID = id
						env.refuse(s)
						s = c01random(r, cfg)
						s.MsgID = id
						s.Payload = nil
						env.refuse(s)
					}
				}
				// random frames
				for k := 0; k < nRandom; k++ {
					env.check(fix(c01random(r, cfg)), "random")
				}
				// multi-frame streams through one reader
				for k := 0; k < nStreams; k++ {
					env.stream(r, 20+r.Intn(60))
				}
			}
		}
	}
	// the deprecated frame.Writer.WriteMessage / frame.ReadWriter.WriteMessage on a version 1 writer: a dialect message
	// whose id is above 255 (decoded or already encoded) must be refused with nothing emitted
	{
		users, err := userMsgInfos()
		if err != nil {
			rep.Violation("ver=1 signed=0 field=message kind=init", "a well-formed user-defined message struct was rejected: "+err.Error(), nil)
		}
		var high []*msgInfo
		var msgs []message.Message
		for _, mi := range users {
			msgs = append(msgs, mi.Msg)
			if mi.Msg.GetID() > 255 {
				high = append(high, mi)
			}
		}
		drw, err := newDialectRW(msgs...)
		if err != nil {
			t.Fatal(err)
		}
		r := vh.Sub(seed, "c01-writemessage")
		for _, mi := range high {
			for k := 0; k < 4; k++ {
				val := reflect.New(mi.Type)
				vh.FillMessage(r, mi.Layout, val, vh.ModeMixed)
				var m message.Message = val.Interface().(message.Message)
				if k%2 == 1 {
					m = &message.MessageRaw{ID: mi.Msg.GetID(), Payload: mi.Layout.Encode(val, false)}
				}
				w := &recWriter{}
				var write func(message.Message) error
				if k < 2 {
					fw := &frame.Writer{ByteWriter: w, DialectRW: drw, OutVersion: frame.V1, OutSystemID: 1}
					_ = fw.Initialize()
					write = fw.WriteMessage
				} else {
					frw := &frame.ReadWriter{ByteReadWriter: struct {
						io.Reader
						io.Writer
					}{bytes.NewReader(nil), w}, DialectRW: drw, OutVersion: frame.V1, OutSystemID: 1}
					_ = frw.Initialize()
					write = frw.WriteMessage
				}
				rep.Eval(1)
				rep.Count("v1_refusals", 1)
				cfg := c01cfg{version: 1, dialect: "known"}
				guard(rep, c01key(cfg, "msgid", "panic"), func() interface{} { return mi.Name }, func() {
					err := write(m)
					if err == nil || len(w.all()) != 0 {
						rep.Violation(c01key(cfg, "msgid", "refuse"), fmt.Sprintf("WriteMessage on a v1 writer did not refuse message id %d (err=%v, %d bytes emitted)", mi.Msg.GetID(), err, len(w.all())),
							map[string]interface{}{"msg": mi.Name, "emitted": vh.Hex(w.all())})
					}
				})
			}
		}
	}
	rep.Set("configurations", 9)
	rep.Floor("stream_frames", 100)
	rep.Floor("decoded_frames", 100)
	rep.Floor("v1_refusals", 10)
}
