package codec

import (
	"bytes"
	"fmt"
	"github.com/bluenviron/gomavlib/v3"
	"io"
	"reflect"
	"sort"
	"sync"
	"testing"
	"time"
	"verifharness/fake"

	"github.com/bluenviron/gomavlib/v3/pkg/dialect"
	"github.com/bluenviron/gomavlib/v3/pkg/dialects/common"
	"github.com/bluenviron/gomavlib/v3/pkg/frame"
	"github.com/bluenviron/gomavlib/v3/pkg/message"
	"github.com/bluenviron/gomavlib/v3/pkg/x25"

	"verifharness/ref"
	"verifharness/vh"
)

// C02 — checksum gate.

// frameMessage returns the message carried by a frame.
func frameMessage(f frame.Frame) message.Message {
	switch ff := f.(type) {
	case *frame.V1Frame:
		return ff.Message
	case *frame.V2Frame:
		return ff.Message
	}
	return nil
}

// gateEnv is a dialect of several message types with their reference layouts.
type gateEnv struct {
	drw     *dialect.ReadWriter
	layouts map[uint32]*msgInfo
}

func newGateEnv(msgs []*msgInfo) (*gateEnv, error) {
	g := &gateEnv{layouts: map[uint32]*msgInfo{}}
	var list []message.Message
	for _, mi := range msgs {
		if _, dup := g.layouts[mi.Msg.GetID()]; dup {
			continue
		}
		g.layouts[mi.Msg.GetID()] = mi
		list = append(list, mi.Msg)
	}
	drw, err := newDialectRW(list...)
	g.drw = drw
	return g, err
}

// sorted returns the dialect's message types in id order (map iteration order is random: case lists must depend on the seed only).
func (g *gateEnv) sorted() []*msgInfo {
	ids := make([]int, 0, len(g.layouts))
	for id := range g.layouts {
		ids = append(ids, int(id))
	}
	sort.Ints(ids)
	out := make([]*msgInfo, 0, len(ids))
	for _, id := range ids {
		out = append(out, g.layouts[uint32(id)])
	}
	return out
}

// justified reports whether a decoded frame delivered by the reader is backed by the stream:
// the reference must find, at some offset, a structurally complete frame of a dialect id whose
// carried checksum is the reference checksum (and, with key, whose signature is the reference
// signature), whose header equals the delivered header and whose payload decodes to the delivered value.
func (g *gateEnv) justified(stream []byte, fr frame.Frame, key []byte) bool {
	got := fromFrame(fr)
	msg := frameMessage(fr)
	for off := 0; off < len(stream); off++ {
		if stream[off] != 0xFE && stream[off] != 0xFD {
			continue
		}
		f, n, st := ref.ParseAt(stream, off)
		if st != ref.ParseOK {
			continue
		}
		mi, ok := g.layouts[f.MsgID]
		if !ok || f.MsgID != got.MsgID || f.Version != got.Version {
			continue
		}
		wire := stream[off : off+n]
		if f.Checksum != ref.ChecksumOfWire(wire, mi.Layout.CRCExtra) {
			continue
		}
		if key != nil {
			if !f.Signed || f.Signature != ref.SignatureOfWire(key, wire) {
				continue
			}
		}
		if f.Seq != got.Seq || f.Sys != got.Sys || f.Comp != got.Comp || f.Incompat != got.Incompat || f.Compat != got.Compat {
			continue
		}
		if f.Signed != got.Signed || (f.Signed && (f.LinkID != got.LinkID || f.Timestamp != got.Timestamp || f.Signature != got.Signature)) {
			continue
		}
		want, err := mi.Layout.Decode(f.Payload, f.Version == 2)
		if err != nil {
			continue
		}
		if reflect.TypeOf(msg) != want.Type() {
			continue
		}
		if eq, _ := mi.Layout.BitEqual(reflect.ValueOf(msg), want); eq {
			return true
		}
	}
	return false
}

// validFrame builds a well-formed frame of a dialect message with the reference.
// form: 0 canonical (truncated), 1 untruncated, 2 truncated with some zeros kept.
func validFrame(r *vh.RNG, mi *msgInfo, version int, form int, signed bool, key []byte) (*ref.FrameSpec, reflect.Value) {
	val := reflect.New(mi.Type)
	mode := vh.ModeMixed
	if r.Chance(1, 3) {
		mode = vh.ModeZeroTail
	}
	vh.FillMessage(r, mi.Layout, val, mode)
	s := &ref.FrameSpec{Version: version, Seq: r.Byte(), Sys: r.Byte(), Comp: r.Byte(), MsgID: mi.Msg.GetID()}
	full := mi.Layout.EncodeFull(val, version == 2)
	s.Payload = full
	if version == 2 {
		s.Compat = r.Byte()
		tr := ref.Truncate(full)
		switch form {
		case 0:
			s.Payload = tr
		case 2:
			keep := len(tr) + r.Intn(len(full)-len(tr)+1)
			s.Payload = full[:keep]
		}
		if signed {
			s.Signed = true
			s.Incompat = 1
			s.LinkID = r.Byte()
			s.Timestamp = r.U64() & 0xFFFFFFFFFFFF
			copy(s.Signature[:], r.Bytes(6))
		}
	}
	s.Payload = append([]byte(nil), s.Payload...)
	ref.Seal(s, mi.Layout.CRCExtra, key)
	if signed && key == nil {
		copy(s.Signature[:], r.Bytes(6))
	}
	return s, val
}

func TestC02(t *testing.T) {
	rep := vh.NewReport("C02")
	defer rep.Finish(t)
	rep.Rule("(1) all 2^24 (CRC state, input byte) pairs through x25.X25 vs a bit-at-a-time reference (states reached by every 2-byte prefix, a bijection); " +
		"(2) random strings in random write splits; (3) valid dialect frames built by the reference (canonical, untruncated and partly truncated payloads, both versions, " +
		"signed and unsigned) damaged by every single-bit flip, byte substitutions and multi-byte damage, followed by a pristine sentinel, fed to frame.Reader with the dialect: " +
		"every delivered decoded message must be justified by a reference-valid frame somewhere in the stream; (4) every undamaged frame must be delivered. " +
		"distinct = distinct (state,byte) pairs + distinct input streams")
	rep.RuleAdd("Also: v2 payloads longer than the local definition with the correct checksum (delivered) and with the checksum of the known part only (not delivered); a long-lived reader whose dialect is replaced / re-initialised in place; twin dialects; nodes re-initialised with a changed dialect. Zero-padded frames carrying the checksum of the frame they were made from.")
	rep.RuleAdd("Rounds 12-15: overlong valid frames, LEN=0 frames with the right checksum, zero-padded frames with a stale checksum, dialect tables swapped on live readers, freshly initialised tables shared by 8 readers.")
	rep.RuleAdd("Rounds 16-17: runs of 300..1100 refused frames on one reader; an application that takes 0.5 ms over every event of a re-initialised node.")
	rep.Assume("bitwise reference CRC anchored by the CRC-16/MCRF4XX check value 0x6F91")
	rep.Assume("CRC collisions (damage that yields another reference-valid frame) are counted, not flagged")
	seed := vh.Seed()

	// (1) exhaustive CRC step
	func() {
		var mism int
		h := x25.New()
		for p0 := 0; p0 < 256; p0++ {
			for p1 := 0; p1 < 256; p1++ {
				h.Reset()
				h.Write([]byte{byte(p0), byte(p1)})
				st := ref.CRC16([]byte{byte(p0), byte(p1)})
				if h.Sum16() != st {
					mism++
					rep.Violation(fmt.Sprintf("kind=step state=prefix"), "CRC after a 2-byte prefix differs from the reference",
						map[string]interface{}{"prefix": []int{p0, p1}, "got": h.Sum16(), "want": st})
					continue
				}
				for b := 0; b < 256; b++ {
					h2 := *h // copy of the running state
					h2.Write([]byte{byte(b)})
					want := ref.CRC16Update(st, []byte{byte(b)})
					if h2.Sum16() != want {
						mism++
						if mism < 5 {
							rep.Violation("kind=step", "CRC step differs from the bitwise reference for some (state, byte)",
								map[string]interface{}{"state": st, "byte": b, "got": h2.Sum16(), "want": want})
						}
					}
				}
			}
		}
		rep.Eval(1 << 24)
		rep.DistinctN(1 << 24)
		rep.Count("crc_state_byte_pairs", 1<<24)
		rep.Set("crc_step_space_exhausted", true)
		// Reset / Sum / sizes / check value
		h.Reset()
		if h.Sum16() != 0xFFFF || h.Size() != 2 || h.BlockSize() != 1 {
			rep.Violation("kind=step what=init", "initial value / sizes differ from CRC-16/MCRF4XX", nil)
		}
		h.Write([]byte("123456789"))
		if h.Sum16() != 0x6F91 {
			rep.Violation("kind=step what=check", "check value of 123456789 is not 0x6F91", h.Sum16())
		}
		if got := h.Sum([]byte{0xAA}); !bytes.Equal(got, []byte{0xAA, 0x91, 0x6F}) {
			rep.Violation("kind=step what=sum", "Sum does not append the little-endian CRC", vh.Hex(got))
		}
	}()

	// (2) split invariance
	{
		r := vh.Sub(seed, "c02-split")
		n := vh.Pick(3000, 200000)
		for i := 0; i < n; i++ {
			data := r.Bytes(r.Intn(600))
			want := ref.CRC16(data)
			h := x25.New()
			rest := data
			for len(rest) > 0 {
				k := r.Intn(len(rest) + 1)
				if r.Chance(1, 10) {
					k = 0
				}
				h.Write(rest[:k])
				rest = rest[k:]
			}
			h.Write(nil)
			rep.Eval(1)
			rep.Distinct(data)
			if h.Sum16() != want {
				rep.Violation("kind=split", "CRC depends on how the input is split into writes",
					map[string]interface{}{"data": vh.Hex(data), "got": h.Sum16(), "want": want})
			}
		}
		rep.Count("split_cases", n)
	}

	// (3)+(4) frame gate
	all := shippedOrViolation(rep, t)
	var err error
	_ = err
	pick := pickMsgs(vh.Sub(seed, "c02-msgs"), all, vh.Pick(120, 0))
	// always include the largest messages (255-byte payloads) and a single-field one
	for _, mi := range all {
		if mi.Layout.SizeExt == 255 || mi.Layout.SizeBase == 255 {
			pick = append(pick, mi)
		}
	}
	// user-defined messages too: ids up to 0xABCDEF (above 65535) and shapes the shipped set lacks
	if users, err := userMsgInfos(); err == nil {
		pick = append(pick, users...)
	}
	// one dialect with all picked types (ids unique by construction of newGateEnv)
	genv, err := newGateEnv(pick)
	if err != nil {
		t.Fatal(err)
	}
	rep.Set("message_types", len(genv.layouts))
	r := vh.Sub(seed, "c02-gate")
	nRandomDamage := vh.Pick(120, 400)
	sampleEvery := 0

	runStream := func(mi *msgInfo, class string, stream []byte, damagedLen int) {
		rep.Eval(1)
		rep.Distinct(stream)
		rep.Count("damaged_streams", 1)
		guard(rep, "kind=panic msg="+mi.Name, func() interface{} { return vh.Hex(stream) }, func() {
			rd, ierr := newFrameSource(bytes.NewReader(stream), genv.drw, nil)
			if ierr != nil {
				rep.Violation("kind=undelivered msg=init", "a reader with a valid configuration could not be built: "+ierr.Error(), nil)
				return
			}
			delivered := 0
			for calls := 0; calls <= len(stream)+1; calls++ {
				fr, err := rd.Read()
				if err == io.EOF || err == io.ErrUnexpectedEOF {
					break
				}
				if err != nil {
					if _, ok := err.(frame.ReadError); !ok {
						break
					}
					continue
				}
				if _, raw := frameMessage(fr).(*message.MessageRaw); raw {
					rep.Count("raw_deliveries", 1)
					continue
				}
				delivered++
				if !genv.justified(stream, fr, nil) {
					rep.Violation(fmt.Sprintf("kind=unjustified msg=%s damage=%s", mi.Name, class),
						"a decoded message was delivered although no frame with a correct checksum exists in the stream",
						map[string]interface{}{"stream": vh.Hex(stream), "damage": class, "delivered": fmt.Sprintf("%+v", frameMessage(fr)), "header": specJSON(fromFrame(fr))})
				}
			}
			if delivered > 1 {
				rep.Count("damage_collisions_justified", delivered-1)
			}
		})
	}

	for _, mi := range genv.sorted() {
		for _, version := range []int{1, 2} {
			if version == 1 && mi.Msg.GetID() > 255 {
				continue
			}
			forms := []int{0}
			if version == 2 {
				forms = []int{0, 1, 2}
			}
			for _, form := range forms {
				signed := version == 2 && r.Chance(1, 4)
				s, val := validFrame(r, mi, version, form, signed, nil)
				wire := ref.Serialize(s)
				sent, _ := validFrame(r, mi, version, 0, false, nil)
				sentinel := ref.Serialize(sent)
				sampleEvery++
				if sampleEvery%37 == 1 {
					rep.Sample(map[string]interface{}{"msg": mi.Name, "version": version, "form": form, "valid_frame": vh.Hex(wire), "damage": "every single-bit flip, then sentinel"})
				}

				// (4) completeness: the undamaged frame is delivered and decodes to the value encoded
				rep.Eval(1)
				rep.Count("valid_frames", 1)
				guard(rep, "kind=panic msg="+mi.Name, func() interface{} { return vh.Hex(wire) }, func() {
					rd := &frame.Reader{ByteReader: bytes.NewReader(wire), DialectRW: genv.drw}
					_ = rd.Initialize()
					fr, err := rd.Read()
					if err != nil {
						rep.Violation(fmt.Sprintf("kind=undelivered msg=%s", mi.Name), "a well-formed frame carrying the correct checksum was not delivered: "+err.Error(),
							map[string]interface{}{"wire": vh.Hex(wire), "form": form, "version": version})
						return
					}
					want := mi.Layout.Canonical(val, version == 2)
					m := frameMessage(fr)
					if reflect.TypeOf(m) != want.Type() {
						rep.Violation(fmt.Sprintf("kind=undelivered msg=%s", mi.Name), fmt.Sprintf("valid frame delivered as %T", m), vh.Hex(wire))
						return
					}
					if eq, diff := mi.Layout.BitEqual(reflect.ValueOf(m), want); !eq {
						rep.Violation(fmt.Sprintf("kind=undelivered msg=%s", mi.Name), "valid frame decoded to a different value (field "+diff+")", vh.Hex(wire))
					}
				})

				// (4b) forward compatibility: a v2 payload longer than the local definition with all its extensions (a newer
				// peer with further extension fields), correct checksum over the bytes as sent: delivered, the known part decoded
				if version == 2 && form == 1 && len(s.Payload) < 255 {
					long := *s
					extra := r.Bytes(1 + r.Intn(min(8, 255-len(s.Payload))))
					extra[len(extra)-1] |= 1 // not truncatable
					long.Payload = append(append([]byte(nil), s.Payload...), extra...)
					ref.Seal(&long, mi.Layout.CRCExtra, nil)
					lw := ref.Serialize(&long)
					rep.Eval(1)
					rep.Distinct(lw)
					rep.Count("overlong_valid_frames", 1)
					guard(rep, "kind=panic msg="+mi.Name, func() interface{} { return vh.Hex(lw) }, func() {
						rd, ierr := newFrameSource(bytes.NewReader(lw), genv.drw, nil)
						if ierr != nil {
							return
						}
						fr, err := rd.Read()
						if err != nil {
							rep.Violation(fmt.Sprintf("kind=undelivered msg=%s", mi.Name), "a well-formed v2 frame with unknown trailing extension bytes and the correct checksum was not delivered: "+err.Error(),
								map[string]interface{}{"wire": vh.Hex(lw), "local_size": mi.Layout.SizeExt, "payload_len": len(long.Payload)})
							return
						}
						want := mi.Layout.Canonical(val, true)
						m := frameMessage(fr)
						if reflect.TypeOf(m) != want.Type() {
							rep.Violation(fmt.Sprintf("kind=undelivered msg=%s", mi.Name), fmt.Sprintf("valid overlong frame delivered as %T", m), vh.Hex(lw))
							return
						}
						if eq, diff := mi.Layout.BitEqual(reflect.ValueOf(m), want); !eq {
							rep.Violation(fmt.Sprintf("kind=undelivered msg=%s", mi.Name), "valid overlong frame decoded to a different value (field "+diff+")", vh.Hex(lw))
						}
					})
					// and the same bytes with the checksum of the known part only are NOT a valid frame
					short := long
					short.Checksum = s.Checksum
					if short.Checksum != long.Checksum {
						runStream(mi, "overlong-trimmed-crc", append(ref.Serialize(&short), sentinel...), 0)
					}
				}

				// (4c) a sender that truncates an all-zero payload down to nothing (LEN = 0): a well-formed v2 frame, whose checksum
				// over header+CRC_EXTRA is right: delivered, decoded as the all-zero message
				if version == 2 && form == 0 {
					z := *s
					z.Payload = []byte{}
					ref.Seal(&z, mi.Layout.CRCExtra, nil)
					zw := ref.Serialize(&z)
					rep.Eval(1)
					rep.Count("empty_payload_valid_frames", 1)
					guard(rep, "kind=panic msg="+mi.Name, func() interface{} { return vh.Hex(zw) }, func() {
						rd, ierr := newFrameSource(bytes.NewReader(zw), genv.drw, nil)
						if ierr != nil {
							return
						}
						fr, err := rd.Read()
						if err != nil {
							rep.Violation(fmt.Sprintf("kind=undelivered msg=%s", mi.Name), "a well-formed v2 frame with an empty payload (all-zero message, fully truncated) and the correct checksum was not delivered: "+err.Error(), vh.Hex(zw))
							return
						}
						zero := reflect.New(mi.Type)
						if m := frameMessage(fr); reflect.TypeOf(m) != zero.Type() {
							rep.Violation(fmt.Sprintf("kind=undelivered msg=%s", mi.Name), fmt.Sprintf("valid empty-payload frame delivered as %T", m), vh.Hex(zw))
						} else if eq, diff := mi.Layout.BitEqual(reflect.ValueOf(m), mi.Layout.Canonical(zero, true)); !eq {
							rep.Violation(fmt.Sprintf("kind=undelivered msg=%s", mi.Name), "valid empty-payload frame decoded to a non-zero value (field "+diff+")", vh.Hex(zw))
						}
					})
				}

				// (3a) a frame whose length byte and payload were altered - zero bytes appended, length raised - while it still
				// carries the checksum of the frame it was made from: that value is not the CRC over length..payload+CRC_EXTRA
				if version == 2 && form == 0 && len(s.Payload) < mi.Layout.SizeExt {
					for _, k := range []int{1, 2, mi.Layout.SizeExt - len(s.Payload)} {
						if k <= 0 || len(s.Payload)+k > 255 {
							continue
						}
						pad := *s
						pad.Payload = append(append([]byte(nil), s.Payload...), make([]byte, k)...)
						if pad.Signed {
							// the signature is made right for the altered frame: only the checksum is stale
							pad.Signature = ref.SignatureOfWire(nil, ref.Serialize(&pad))
						}
						right := pad
						ref.Seal(&right, mi.Layout.CRCExtra, nil)
						if right.Checksum != pad.Checksum {
							rep.Count("zero_padded_frames_with_stale_checksum", 1)
							runStream(mi, "zero-padded-stale-crc", append(ref.Serialize(&pad), sentinel...), 0)
						}
					}
				}

				// (3) soundness: systematic damage
				flipBytes := len(wire)
				if !vh.Thorough() && flipBytes > 64 && form != 0 {
					flipBytes = 64 // quick tier: all bits of the first 64 bytes + the last 8 for the long forms
				}
				for i := 0; i < len(wire); i++ {
					if i >= flipBytes && i < len(wire)-8 {
						continue
					}
					for bit := 0; bit < 8; bit++ {
						d := append([]byte(nil), wire...)
						d[i] ^= 1 << uint(bit)
						runStream(mi, "bitflip", append(d, sentinel...), len(d))
					}
				}
				rep.Count("bitflip_frames", 1)
				for k := 0; k < nRandomDamage; k++ {
					d := append([]byte(nil), wire...)
					class := ""
					switch r.Intn(6) {
					case 0:
						class = "subst"
						d[r.Intn(len(d))] = r.Byte()
					case 1:
						class = "multi"
						for j := 0; j < 2+r.Intn(4); j++ {
							d[r.Intn(len(d))] ^= byte(1 + r.Intn(255))
						}
					case 2:
						class = "ckswap"
						end := len(d)
						if s.Signed {
							end -= 13
						}
						d[end-2], d[end-1] = d[end-1], d[end-2]
					case 3:
						class = "lastzero"
						hdr := 6
						if version == 2 {
							hdr = 10
						}
						if len(s.Payload) > 0 {
							d[hdr+len(s.Payload)-1] = 0
						}
					case 4:
						class = "ckzero"
						end := len(d)
						if s.Signed {
							end -= 13
						}
						d[end-2], d[end-1] = 0, 0
					case 5:
						class = "payload-byte"
						hdr := 6
						if version == 2 {
							hdr = 10
						}
						if len(s.Payload) > 0 {
							d[hdr+r.Intn(len(s.Payload))] ^= byte(1 + r.Intn(255))
						}
					}
					if bytes.Equal(d, wire) {
						continue
					}
					runStream(mi, class, append(d, sentinel...), len(d))
				}
			}
		}
	}
	// (3b) a reader that also holds a link key still applies the checksum gate: a frame whose checksum is wrong but which was
	// signed (with the right key) over that wrong checksum must not be delivered as a decoded message
	{
		keyRaw := vh.Sub(seed, "c02-key").Bytes(32)
		key := mkKey(keyRaw)
		for _, mi := range genv.sorted() {
			for k := 0; k < vh.Pick(2, 20); k++ {
				s, _ := validFrame(r, mi, 2, r.Intn(3), true, keyRaw)
				bad := *s
				bad.Checksum ^= uint16(1) << uint(r.Intn(16))
				bad.Signature = ref.SignatureOfWire(keyRaw, ref.Serialize(&bad))
				stream := append(ref.Serialize(&bad), ref.Serialize(s)...)
				rep.Eval(1)
				rep.Distinct(stream)
				rep.Count("resigned_wrong_checksum_frames", 1)
				guard(rep, "kind=panic msg="+mi.Name, func() interface{} { return vh.Hex(stream) }, func() {
					rd, ierr := newFrameSource(bytes.NewReader(stream), genv.drw, key)
					if ierr != nil {
						rep.Violation("kind=undelivered msg=init", "a keyed reader with a valid configuration could not be built: "+ierr.Error(), nil)
						return
					}
					n := 0
					for {
						fr, err := rd.Read()
						if err == io.EOF {
							break
						}
						if err != nil {
							if _, ok := err.(frame.ReadError); !ok {
								break
							}
							continue
						}
						n++
						if !genv.justified(stream, fr, keyRaw) {
							rep.Violation(fmt.Sprintf("kind=unjustified msg=%s damage=resigned", mi.Name),
								"a keyed reader delivered a decoded message from a correctly signed frame whose checksum is wrong",
								map[string]interface{}{"stream": vh.Hex(stream)})
						}
					}
					if n == 0 {
						rep.Violation(fmt.Sprintf("kind=undelivered msg=%s", mi.Name), "the valid signed frame following the bad one was not delivered", vh.Hex(stream))
					}
				})
			}
		}
	}

	// (4b) completeness on long streams in arbitrary transport chunks: every frame of a multi-kilobyte stream of valid
	// frames (longer than the reader's buffer) must be delivered in order with the right value, whatever the chunking
	{
		var list []*msgInfo
		for _, mi := range genv.sorted() {
			list = append(list, mi)
		}
		nStreams := vh.Pick(40, 2000)
		for si := 0; si < nStreams; si++ {
			var stream []byte
			type exp struct {
				mi  *msgInfo
				val reflect.Value
				s   *ref.FrameSpec
			}
			var want []exp
			n := 20 + r.Intn(50)
			for i := 0; i < n; i++ {
				mi := list[r.Intn(len(list))]
				version := 1 + r.Intn(2)
				if mi.Msg.GetID() > 255 {
					version = 2
				}
				sp, val := validFrame(r, mi, version, r.Intn(3)*(version-1), version == 2 && r.Chance(1, 5), nil)
				stream = append(stream, ref.Serialize(sp)...)
				want = append(want, exp{mi, val, sp})
			}
			max := []int{7, 64, 100, 700}[si%4]
			rep.Eval(1)
			rep.Distinct(stream)
			rep.Count("long_chunked_streams", 1)
			guard(rep, "kind=panic long-stream", func() interface{} { return len(stream) }, func() {
				rd := &frame.Reader{ByteReader: &chunkReader{data: stream, r: r.Fork(), max: max}, DialectRW: genv.drw}
				_ = rd.Initialize()
				for i, w := range want {
					fr, err := rd.Read()
					if err != nil {
						rep.Violation("kind=undelivered msg=long-stream", fmt.Sprintf("frame %d of a stream of valid frames (chunks <= %d bytes) was not delivered: %v", i, max, err),
							map[string]interface{}{"frame": vh.Hex(ref.Serialize(w.s)), "msg": w.mi.Name, "stream_len": len(stream)})
						return
					}
					got := fromFrame(fr)
					m := frameMessage(fr)
					canon := w.mi.Layout.Canonical(w.val, w.s.Version == 2)
					okv := reflect.TypeOf(m) == canon.Type()
					if okv {
						okv, _ = w.mi.Layout.BitEqual(reflect.ValueOf(m), canon)
					}
					if got.MsgID != w.s.MsgID || got.Seq != w.s.Seq || got.Sys != w.s.Sys || got.Comp != w.s.Comp || !okv {
						rep.Violation("kind=undelivered msg=long-stream", fmt.Sprintf("frame %d of a stream of valid frames was delivered with a different header or value (chunks <= %d bytes)", i, max),
							map[string]interface{}{"frame": vh.Hex(ref.Serialize(w.s)), "msg": w.mi.Name, "delivered": descFrame(fr)})
						return
					}
				}
			})
		}
	}
	// (4d) a long run of refused frames on ONE reader (a peer whose definition of its most frequent message differs): every
	// refusal is a non-fatal parse error however many came before, and the valid frame behind them is delivered
	{
		list := genv.sorted()
		for _, runLen := range []int{300, 600, vh.Pick(1100, 5000)} {
			var stream []byte
			for i := 0; i < runLen; i++ {
				mi := list[r.Intn(len(list))]
				version := 1 + r.Intn(2)
				if mi.Msg.GetID() > 255 {
					version = 2
				}
				sp, _ := validFrame(r, mi, version, 0, false, nil)
				sp.Checksum ^= uint16(1 + r.Intn(0xFFFF))
				stream = append(stream, ref.Serialize(sp)...)
			}
			mi := list[r.Intn(len(list))]
			last, _ := validFrame(r, mi, 2, 0, false, nil)
			stream = append(stream, ref.Serialize(last)...)
			rep.Eval(1)
			rep.Count("long_runs_of_refused_frames", 1)
			guard(rep, "kind=panic refusal-run", func() interface{} { return runLen }, func() {
				rd := &frame.Reader{ByteReader: &chunkReader{data: stream, r: r.Fork(), max: 300}, DialectRW: genv.drw}
				_ = rd.Initialize()
				refused := 0
				for {
					fr, err := rd.Read()
					if err == nil {
						if got := fromFrame(fr); refused != runLen || got.MsgID != last.MsgID || got.Seq != last.Seq {
							rep.Violation("kind=accept-damaged msg=refusal-run", fmt.Sprintf("a frame was delivered after %d of %d refusals", refused, runLen), descFrame(fr))
						}
						return
					}
					if _, ok := err.(frame.ReadError); !ok {
						rep.Violation("kind=undelivered msg=refusal-run", fmt.Sprintf("after %d refused frames in a row on one reader, the next refusal was not a non-fatal parse error: %v", refused, err), nil)
						return
					}
					refused++
					if refused > runLen {
						rep.Violation("kind=undelivered msg=refusal-run", "the valid frame behind a run of refused frames was refused too", vh.Hex(ref.Serialize(last)))
						return
					}
				}
			})
		}
	}
	c02twins(rep, vh.Sub(seed, "c02-twins"))
	c02reinit(rep, vh.Sub(seed, "c02-reinit"))
	c02swap(rep, vh.Sub(seed, "c02-swap"))
	c02freshShared(rep, vh.Sub(seed, "c02-fresh"), genv)
	rep.Floor("damaged_streams", 1000)
	rep.Floor("valid_frames", 50)
	rep.Floor("long_chunked_streams", 20)
	rep.Floor("twin_dialect_frames", 100)
	rep.Floor("swapped_dialect_frames", 100)
	rep.Floor("overlong_valid_frames", 50)
}

// c02twins: two dialects that define ids 0 and 66 differently (hence different CRC_EXTRA values), one reader each, used
// in alternation within one process. A frame sealed for one dialect must be delivered by that dialect's reader and
// rejected by the other's, whichever reader met the id first.
func c02twins(rep *vh.Report, r *vh.RNG) {
	mk := func(msgs ...message.Message) *gateEnv {
		var infos []*msgInfo
		for _, m := range msgs {
			mi := &msgInfo{Name: reflect.TypeOf(m).Elem().Name(), Msg: m, Type: reflect.TypeOf(m).Elem()}
			l, err := ref.LayoutOf(mi.Type)
			if err != nil {
				rep.HarnessError(err.Error())
				return nil
			}
			mi.Layout = l
			infos = append(infos, mi)
		}
		g, err := newGateEnv(infos)
		if err != nil {
			rep.HarnessError(err.Error())
			return nil
		}
		return g
	}
	envs := []*gateEnv{mk(&common.MessageHeartbeat{}, &common.MessageRequestDataStream{}), mk(&MessageTwinZero{}, &MessageTwinSixtySix{})}
	if envs[0] == nil || envs[1] == nil {
		return
	}
	names := []string{"standard", "twin"}
	// one long-lived reader per dialect, fed frame by frame
	type rdr struct {
		buf *bytes.Buffer
		rd  *frame.Reader
	}
	var rds []*rdr
	for _, e := range envs {
		b := &bytes.Buffer{}
		rd := &frame.Reader{ByteReader: b, DialectRW: e.drw}
		if err := rd.Initialize(); err != nil {
			rep.HarnessError(err.Error())
			return
		}
		rds = append(rds, &rdr{b, rd})
	}
	for i := 0; i < 300; i++ {
		id := []uint32{0, 66}[i%2]
		sealedFor := (i / 2) % 2
		if i < 4 {
			sealedFor = []int{0, 1, 1, 0}[i] // id 0 first met with the standard definition, id 66 first with the twin's
		}
		mi := envs[sealedFor].layouts[id]
		s, val := validFrame(r, mi, 1+r.Intn(2), 0, false, nil)
		wire := ref.Serialize(s)
		for ri := range rds {
			rep.Eval(1)
			rep.Count("twin_dialect_frames", 1)
			rds[ri].buf.Write(wire)
			var fr frame.Frame
			var err error
			guard(rep, "kind=panic", func() interface{} { return vh.Hex(wire) }, func() { fr, err = rds[ri].rd.Read() })
			wit := map[string]interface{}{"frame": vh.Hex(wire), "sealed_for_dialect": names[sealedFor], "reader_dialect": names[ri], "id": id, "index": i}
			if ri == sealedFor {
				if err != nil {
					rep.Violation("kind=undelivered msg=twin", fmt.Sprintf("a valid frame of the %s dialect was rejected by that dialect's reader while a reader of another dialect defining id %d is in use: %v", names[ri], id, err), wit)
					return
				}
				m := frameMessage(fr)
				canon := mi.Layout.Canonical(val, s.Version == 2)
				if reflect.TypeOf(m) != canon.Type() {
					rep.Violation("kind=undelivered msg=twin", fmt.Sprintf("delivered as %T", m), wit)
					return
				}
				if eq, d := mi.Layout.BitEqual(reflect.ValueOf(m), canon); !eq {
					rep.Violation("kind=undelivered msg=twin", "delivered with a different value in field "+d, wit)
					return
				}
			} else if err == nil {
				rep.Violation("kind=delivered msg=twin", fmt.Sprintf("a frame whose checksum is correct only for the %s dialect's definition of id %d was delivered by the %s dialect's reader", names[sealedFor], id, names[ri]), wit)
				return
			} else {
				// the rejected frame's bytes are gone from the reader; drain what a resynchronising reader may have kept
				for rds[ri].buf.Len() > 0 {
					if _, e2 := rds[ri].rd.Read(); e2 == nil {
						rep.Violation("kind=delivered msg=twin", "the tail of a rejected frame was delivered as a frame", wit)
						return
					}
				}
			}
		}
	}
}

// c02freshShared: a dialect table that has only just been initialised, shared at once by several readers on goroutines
// of their own (the channels of a node that all come up together): the very first frames, of one and the same message
// type, arrive on all of them at the same instant. Each is a well-formed frame with the correct checksum: delivered.
func c02freshShared(rep *vh.Report, r *vh.RNG, genv *gateEnv) {
	sorted := append([]*msgInfo(nil), genv.sorted()...)
	// the types with the most fields: whatever a table computes lazily at first use takes longest for them
	sort.SliceStable(sorted, func(i, j int) bool { return len(sorted[i].Layout.Fields) > len(sorted[j].Layout.Fields) })
	if len(sorted) > 12 {
		sorted = sorted[:12]
	}
	n := vh.Pick(2500, 20000)
	for it := 0; it < n && rep.NViolations() < 20; it++ {
		mi := sorted[r.Intn(len(sorted))]
		drw, err := newDialectRW(mi.Msg)
		if err != nil {
			return
		}
		sp, _ := validFrame(r, mi, 2, 0, false, nil)
		wire := ref.Serialize(sp)
		const G = 8
		var start, done sync.WaitGroup
		start.Add(1)
		errs := make([]error, G)
		for g := 0; g < G; g++ {
			done.Add(1)
			go func(g int) {
				defer done.Done()
				rd := &frame.Reader{ByteReader: bytes.NewReader(wire), DialectRW: drw}
				if rd.Initialize() != nil {
					return
				}
				start.Wait()
				_, errs[g] = rd.Read()
			}(g)
		}
		start.Done()
		done.Wait()
		rep.Eval(G)
		rep.Count("first_frames_on_fresh_shared_dialects", G)
		for g := 0; g < G; g++ {
			if errs[g] != nil {
				rep.Violation("kind=undelivered msg=fresh-shared", "a well-formed frame with the correct checksum, the first of its type on a freshly initialised dialect shared by several readers, was rejected: "+errs[g].Error(),
					map[string]interface{}{"msg": mi.Name, "wire": vh.Hex(wire), "iteration": it})
				break
			}
		}
	}
}

// c02swap: one long-lived reader whose dialect changes between two Read calls (Reader.DialectRW replaced; the same
// dialect.ReadWriter re-initialised in place with another Dialect). The gate works with the dialect configured at the
// time of the Read, also for the id that was read last before the change.
func c02swap(rep *vh.Report, r *vh.RNG) {
	mk := func(m message.Message) *msgInfo {
		mi := &msgInfo{Name: reflect.TypeOf(m).Elem().Name(), Msg: m, Type: reflect.TypeOf(m).Elem()}
		l, err := ref.LayoutOf(mi.Type)
		if err != nil {
			rep.HarnessError(err.Error())
			return nil
		}
		mi.Layout = l
		return mi
	}
	defs := [2][]*msgInfo{{mk(&common.MessageHeartbeat{}), mk(&common.MessageRequestDataStream{})}, {mk(&MessageTwinZero{}), mk(&MessageTwinSixtySix{})}}
	for _, d := range defs {
		for _, mi := range d {
			if mi == nil {
				return
			}
		}
	}
	names := []string{"standard", "twin"}
	mkDRW := func(which int) *dialect.ReadWriter {
		drw, err := newDialectRW(defs[which][0].Msg, defs[which][1].Msg)
		if err != nil {
			rep.HarnessError(err.Error())
			return nil
		}
		return drw
	}
	for mode := 0; mode < 2; mode++ {
		cur := 0
		drw := mkDRW(cur)
		if drw == nil {
			return
		}
		buf := &bytes.Buffer{}
		rd := &frame.Reader{ByteReader: buf, DialectRW: drw}
		if err := rd.Initialize(); err != nil {
			rep.HarnessError(err.Error())
			return
		}
		for step := 0; step < 40; step++ {
			if step > 0 && step%3 == 0 {
				cur = 1 - cur
				if mode == 0 {
					rd.DialectRW = mkDRW(cur)
				} else {
					drw.Dialect = &dialect.Dialect{Version: 3, Messages: []message.Message{defs[cur][0].Msg, defs[cur][1].Msg}}
					if err := drw.Initialize(); err != nil {
						rep.HarnessError(err.Error())
						return
					}
				}
			}
			idx := ((step + 1) / 3) % 2 // the id stays the same across a change: the last one read before it is the first one after it
			for _, sealedFor := range []int{cur, 1 - cur} {
				mi := defs[sealedFor][idx]
				sp, _ := validFrame(r, mi, 1+r.Intn(2), 0, false, nil)
				wire := ref.Serialize(sp)
				buf.Write(wire)
				rep.Eval(1)
				rep.Count("swapped_dialect_frames", 1)
				var fr frame.Frame
				var err error
				guard(rep, "kind=panic", func() interface{} { return vh.Hex(wire) }, func() { fr, err = rd.Read() })
				wit := map[string]interface{}{"frame": vh.Hex(wire), "sealed_for": names[sealedFor], "configured": names[cur], "step": step,
					"change": []string{"Reader.DialectRW replaced", "dialect.ReadWriter re-initialised in place"}[mode]}
				if sealedFor == cur {
					if err != nil {
						rep.Violation("kind=undelivered msg=swap", "a frame valid for the reader's current dialect was rejected after the dialect had been changed: "+err.Error(), wit)
						return
					}
					if m := frameMessage(fr); reflect.TypeOf(m) != reflect.PtrTo(mi.Type) {
						rep.Violation("kind=undelivered msg=swap", fmt.Sprintf("delivered as %T: decoded with an outdated definition", m), wit)
						return
					}
				} else if err == nil {
					rep.Violation("kind=delivered msg=swap", "a frame whose checksum is correct only for the dialect the reader had before was delivered", wit)
					return
				} else {
					for buf.Len() > 0 {
						if _, e2 := rd.Read(); e2 == nil {
							rep.Violation("kind=delivered msg=swap", "the tail of a rejected frame was delivered as a frame", wit)
							return
						}
					}
				}
			}
		}
	}
}

// c02reinit: a node that is closed, whose dialect value is then extended / changed in place, and that is initialised
// again: the checksum gate of the second life works with the dialect as it is now (new ids are gated and decoded, a
// re-defined id is gated with its new CRC_EXTRA).
func c02reinit(rep *vh.Report, r *vh.RNG) {
	mk := func(m message.Message) *msgInfo {
		mi := &msgInfo{Name: reflect.TypeOf(m).Elem().Name(), Msg: m, Type: reflect.TypeOf(m).Elem()}
		l, err := ref.LayoutOf(mi.Type)
		if err != nil {
			rep.HarnessError(err.Error())
			return nil
		}
		mi.Layout = l
		return mi
	}
	hb, rds := mk(&common.MessageHeartbeat{}), mk(&common.MessageRequestDataStream{})
	twin0 := mk(&MessageTwinZero{})
	if hb == nil || rds == nil || twin0 == nil {
		return
	}
	d := &dialect.Dialect{Version: 3, Messages: []message.Message{hb.Msg}}
	tr := fake.NewTransport("reinit")
	node := &gomavlib.Node{Endpoints: []gomavlib.EndpointConf{gomavlib.EndpointCustom{ReadWriteCloser: tr}}, Dialect: d, OutVersion: gomavlib.V2, OutSystemID: 1, HeartbeatDisable: true}
	type step struct {
		what   string
		change func()
		probes []*msgInfo // messages whose frames must now be gated with these definitions
	}
	steps := []step{
		{"first life", func() {}, []*msgInfo{hb}},
		{"message 66 appended to the same dialect value", func() { d.Messages = append(d.Messages, rds.Msg) }, []*msgInfo{hb, rds}},
		{"message 0 replaced in place by another definition of id 0", func() { d.Messages[0] = twin0.Msg }, []*msgInfo{twin0, rds}},
	}
	for si, st := range steps {
		si := si
		st.change()
		tr = fake.NewTransport(fmt.Sprintf("reinit%d", si))
		node.Endpoints = []gomavlib.EndpointConf{gomavlib.EndpointCustom{ReadWriteCloser: tr}}
		if err := node.Initialize(); err != nil {
			rep.Violation("kind=undelivered msg=reinit", "a node could not be initialised again after Close ("+st.what+"): "+err.Error(), nil)
			return
		}
		type got struct {
			frames []message.Message
			perr   int
		}
		res := make(chan got, 1)
		nProbe := len(st.probes) * 2 * 6
		go func() {
			var g got
			for e := range node.Events() {
				switch ev := e.(type) {
				case *gomavlib.EventFrame:
					g.frames = append(g.frames, ev.Message())
				case *gomavlib.EventParseError:
					g.perr++
				}
				if si == 1 {
					// an application that takes a moment over every event: refusals are reported to it all the same, one by one
					time.Sleep(500 * time.Microsecond)
				}
				if len(g.frames)+g.perr >= nProbe {
					break
				}
			}
			res <- g
			for range node.Events() {
			}
		}()
		var wantTypes []reflect.Type
		for _, mi := range st.probes {
			for k := 0; k < 6; k++ {
				s, _ := validFrame(r, mi, 1+k%2, 0, false, nil)
				tr.Feed(ref.Serialize(s)) // valid under the current definition: delivered decoded
				wantTypes = append(wantTypes, reflect.PtrTo(mi.Type))
				bad := *s
				bad.Checksum ^= 0x0101
				tr.Feed(ref.Serialize(&bad)) // wrong checksum: never delivered
			}
		}
		var g got
		select {
		case g = <-res:
		case <-time.After(3 * time.Second):
			rep.Violation("kind=undelivered msg=reinit", fmt.Sprintf("a node initialised again after Close (%s) did not process the %d frames it was fed within 3 s", st.what, nProbe), nil)
			node.Close()
			return
		}
		node.Close()
		rep.Eval(nProbe)
		rep.Count("reinitialised_node_probes", nProbe)
		wit := map[string]interface{}{"step": st.what, "frame_events": len(g.frames), "parse_errors": g.perr, "valid_fed": len(wantTypes), "damaged_fed": len(wantTypes)}
		if len(g.frames) != len(wantTypes) {
			kind := "kind=undelivered msg=reinit"
			if len(g.frames) > len(wantTypes) {
				kind = "kind=delivered msg=reinit"
			}
			rep.Violation(kind, fmt.Sprintf("after the node was initialised again (%s): %d frame events for %d valid frames (and %d with a wrong checksum)", st.what, len(g.frames), len(wantTypes), len(wantTypes)), wit)
			continue
		}
		for i, m := range g.frames {
			if reflect.TypeOf(m) != wantTypes[i] {
				rep.Violation("kind=undelivered msg=reinit", fmt.Sprintf("after the node was initialised again (%s) a valid frame was delivered as %T instead of %v: the gate works with an outdated dialect", st.what, m, wantTypes[i]), wit)
				break
			}
		}
	}
}
