package codec

import (
	"bytes"
	"fmt"
	"io"
	"sync/atomic"
	"testing"
	"time"

	"github.com/bluenviron/gomavlib/v3"
	"github.com/bluenviron/gomavlib/v3/pkg/dialect"
	"github.com/bluenviron/gomavlib/v3/pkg/dialects/common"
	"github.com/bluenviron/gomavlib/v3/pkg/frame"
	"github.com/bluenviron/gomavlib/v3/pkg/message"
	"github.com/bluenviron/gomavlib/v3/pkg/streamwriter"

	"verifharness/fake"
	"verifharness/ref"
	"verifharness/vh"
)

// C06 — link signing: only validly signed frames pass; writers sign correctly.

var sigEpoch = time.Date(2015, 1, 1, 0, 0, 0, 0, time.UTC)

// ticksNow returns the number of 10 µs ticks since 2015-01-01 UTC per the harness clock.
func ticksNow() uint64 { return uint64(time.Since(sigEpoch) / (10 * time.Microsecond)) }

// sigJustified: a frame delivered by a keyed reader must be backed by a complete signed v2 frame
// somewhere in the stream whose signature is the reference signature under key and whose content
// equals what was delivered (and, for a dialect id, whose checksum is valid).
func sigJustified(stream []byte, fr frame.Frame, key []byte, genv *gateEnv) bool {
	if _, raw := frameMessage(fr).(*message.MessageRaw); !raw {
		return genv != nil && genv.justified(stream, fr, key)
	}
	got := fromFrame(fr)
	for off := 0; off < len(stream); off++ {
		if stream[off] != 0xFD {
			continue
		}
		f, n, st := ref.ParseAt(stream, off)
		if st != ref.ParseOK || !f.Signed {
			continue
		}
		if f.Signature != ref.SignatureOfWire(key, stream[off:off+n]) {
			continue
		}
		if ok, _ := specEqual(f, got); ok {
			return true
		}
	}
	return false
}

type c06env struct {
	rep    *vh.Report
	keyRaw []byte
	key    *frame.V2Key
	genv   *gateEnv // nil: reader without dialect
}

func (e *c06env) drw() *dialect.ReadWriter {
	if e.genv == nil {
		return nil
	}
	return e.genv.drw
}

// feed runs a keyed reader over stream; every delivery must be justified. Returns deliveries.
func (e *c06env) feed(stream []byte, class string) []frame.Frame {
	e.rep.Eval(1)
	var out []frame.Frame
	guard(e.rep, "what=panic", func() interface{} { return vh.Hex(stream) }, func() {
		rd, ierr := newFrameSource(bytes.NewReader(stream), e.drw(), e.key)
		if ierr != nil {
			e.rep.Violation("what=rejected-valid", "a keyed reader with a valid configuration could not be built: "+ierr.Error(), nil)
			return
		}
		for calls := 0; calls <= len(stream)+1; calls++ {
			fr, err := rd.Read()
			if err == io.EOF {
				break
			}
			if err != nil {
				if _, ok := err.(frame.ReadError); !ok {
					break
				}
				continue
			}
			out = append(out, fr)
			if !sigJustified(stream, fr, e.keyRaw, e.genv) {
				e.rep.Violation("what=accepted:"+class,
					"a keyed reader delivered a frame that is not a v2 frame carrying the reference signature under the configured key",
					map[string]interface{}{"stream": vh.Hex(stream), "class": class, "key": vh.Hex(e.keyRaw), "delivered": descFrame(fr)})
			}
		}
	})
	return out
}

func (e *c06env) signedFrame(r *vh.RNG, ts uint64, payloadLen int, msgs []*msgInfo) *ref.FrameSpec {
	var s *ref.FrameSpec
	if e.genv != nil && r.Chance(1, 2) {
		mi := msgs[r.Intn(len(msgs))]
		s, _ = validFrame(r, mi, 2, r.Intn(3), true, e.keyRaw)
		s.Timestamp = ts
		ref.Seal(s, mi.Layout.CRCExtra, e.keyRaw)
		return s
	}
	s = c01random(r, c01cfg{version: 2, signed: true})
	if payloadLen >= 0 {
		s.Payload = r.Bytes(payloadLen)
	}
	if r.Chance(1, 3) {
		s.MsgID = 0x10000 + uint32(r.Intn(0xFF0000))
	}
	if e.genv != nil {
		for e.genv.drw.GetMessage(s.MsgID) != nil {
			s.MsgID++
		}
	}
	s.Timestamp = ts
	s.Signature = ref.SignatureOfWire(e.keyRaw, ref.Serialize(s))
	return s
}

func TestC06(t *testing.T) {
	rep := vh.NewReport("C06")
	defer rep.Finish(t)
	rep.Rule("reader: reference-signed v2 frames (every payload length, boundary link ids / timestamps, ids above 65535) delivered; streams [valid A][tampered T][valid S] through ONE keyed reader, " +
		"T = every single-bit flip of every byte of a signed frame, substitutions, signature rotated/truncated, v1, unsigned v2, frames signed with keys differing in one bit, " +
		"forged content reusing a valid signature block: every delivered frame must be justified by a reference-signed frame in the stream; with and without dialect; keys random / zero / 0xFF. " +
		"writers: frame.Writer.WriteMessage(OutKey), streamwriter.Writer(Key), Node(OutKey): flag, link id, timestamp inside a before/after clock sandwich, signature = SHA-256 over the wire image; " +
		"Node(InKey): only authenticated frames surface as EventFrame. distinct = distinct streams / emitted frames")
	rep.RuleAdd("Rounds 12-15: the signing clock stepped backwards six times (hook VerifShiftSignatureClock); every pair of signature bytes altered by the same mask.")
	rep.RuleAdd("Rounds 16-17: stream writers on frame writers that carry signing options of their own; a frame writer whose version is switched from v1 to v2 after Initialize.")
	rep.Assume("crypto/sha256 is the trusted base; the reference hashes the wire image, the implementation hashes field by field")
	seed := vh.Seed()
	all := shippedOrViolation(rep, t)
	var err error
	_ = err
	msgs := pickMsgs(vh.Sub(seed, "c06-msgs"), all, 25)
	for _, mi := range all { // the largest messages: signed frames of the maximal size (280 bytes)
		if mi.Layout.SizeExt == 255 {
			msgs = append(msgs, mi)
		}
	}
	genv, err := newGateEnv(msgs)
	if err != nil {
		t.Fatal(err)
	}
	var glist []*msgInfo
	for _, mi := range genv.sorted() {
		glist = append(glist, mi)
	}
	r := vh.Sub(seed, "c06")
	keys := [][]byte{r.Bytes(32), make([]byte, 32), bytes.Repeat([]byte{0xFF}, 32), r.Bytes(32)}
	nTamperFrames := vh.Pick(16, 60)
	nRandTamper := vh.Pick(1500, 5000)

	for ki, keyRaw := range keys {
		for _, withDialect := range []bool{false, true} {
			env := &c06env{rep: rep, keyRaw: keyRaw, key: mkKey(keyRaw)}
			if withDialect {
				env.genv = genv
			}
			// completeness: every payload length, boundary link ids and timestamps
			ts := uint64(1000)
			for n := 0; n <= 255; n++ {
				if !vh.Thorough() && ki > 0 && n%16 != 0 && n != 255 {
					continue
				}
				ts += uint64(r.Intn(50))
				s := env.signedFrame(r, ts, n, glist)
				if n%4 == 0 {
					s.LinkID = []byte{0, 1, 0x7F, 0x80, 0xFF}[n/4%5]
					s.Signature = ref.SignatureOfWire(keyRaw, ref.Serialize(s))
					if mi := genv.layouts[s.MsgID]; mi != nil && withDialect {
						ref.Seal(s, mi.Layout.CRCExtra, keyRaw)
					}
				}
				w := ref.Serialize(s)
				rep.Distinct(w)
				got := env.feed(w, "valid")
				rep.Count("valid_signed_frames", 1)
				if len(got) != 1 {
					rep.Violation("what=rejected-valid", "a correctly signed frame was not delivered by a reader holding the key",
						map[string]interface{}{"wire": vh.Hex(w), "key": vh.Hex(keyRaw), "dialect": withDialect})
				}
			}
			for _, tsb := range c01timestamps {
				s := env.signedFrame(r, tsb, -1, glist)
				w := ref.Serialize(s)
				rep.Count("valid_signed_frames", 1)
				if got := env.feed(w, "valid"); len(got) != 1 {
					rep.Violation("what=rejected-valid", "a correctly signed frame (boundary timestamp) was not delivered",
						map[string]interface{}{"wire": vh.Hex(w), "timestamp": tsb})
				}
			}

			// soundness: A, T, S on one reader
			runATS := func(a, tampered, s []byte, class string) {
				stream := append(append(append([]byte(nil), a...), tampered...), s...)
				rep.Distinct(stream)
				rep.Count("tamper_streams", 1)
				got := env.feed(stream, class)
				if len(got) == 0 {
					rep.Violation("what=rejected-valid", "the valid frame opening the stream was not delivered", vh.Hex(stream))
				}
			}
			for fi := 0; fi < nTamperFrames; fi++ {
				ts := uint64(5000 + fi*10)
				a := ref.Serialize(env.signedFrame(r, ts, -1, glist))
				plen := -1
				if fi == 0 {
					plen = 255
				} else if fi == 1 {
					plen = 0
				}
				victim := env.signedFrame(r, ts+1, plen, glist)
				vw := ref.Serialize(victim)
				sent := ref.Serialize(env.signedFrame(r, ts+2, -1, glist))
				if fi == 0 && ki == 0 {
					rep.Sample(map[string]interface{}{"key": vh.Hex(keyRaw), "valid": vh.Hex(a), "victim": vh.Hex(vw), "damage": "every single-bit flip of the victim", "dialect": withDialect})
				}
				// every single bit
				nb := len(vw)
				for i := 0; i < nb; i++ {
					if !vh.Thorough() && nb > 80 && i > 24 && i < nb-16 && i%7 != 0 {
						continue
					}
					for bit := 0; bit < 8; bit++ {
						d := append([]byte(nil), vw...)
						d[i] ^= 1 << uint(bit)
						runATS(a, d, sent, "bitflip")
					}
				}
				// every pair of signature bytes altered by the same mask (two errors that could cancel out in a folded comparison),
				// and every pair of adjacent bits of the last 14 bytes
				for i := 0; i < 6; i++ {
					for j := i + 1; j < 6; j++ {
						for bit := 0; bit < 8; bit += 1 + (i+j)%3 {
							d := append([]byte(nil), vw...)
							d[nb-6+i] ^= 1 << uint(bit)
							d[nb-6+j] ^= 1 << uint(bit)
							runATS(a, d, sent, "sig-two-bytes-same-mask")
						}
					}
				}
				// other tampering
				for k := 0; k < nRandTamper/nTamperFrames+1; k++ {
					d := append([]byte(nil), vw...)
					class := ""
					switch r.Intn(10) {
					case 0:
						class = "subst"
						d[r.Intn(len(d))] = r.Byte()
					case 1:
						class = "sig-rotated"
						sg := d[len(d)-6:]
						first := sg[0]
						copy(sg, sg[1:])
						sg[5] = first
					case 2:
						class = "sig-truncated"
						d = d[:len(d)-1-r.Intn(6)]
					case 3:
						class = "unsigned-v2"
						u := *victim
						u.Signed = false
						u.Incompat = 0
						d = ref.Serialize(&u)
					case 4:
						class = "v1"
						u := ref.FrameSpec{Version: 1, Seq: victim.Seq, Sys: victim.Sys, Comp: victim.Comp, MsgID: victim.MsgID & 0xFF, Payload: victim.Payload, Checksum: victim.Checksum}
						d = ref.Serialize(&u)
					case 5:
						class = "wrong-key"
						k2 := append([]byte(nil), keyRaw...)
						k2[r.Intn(32)] ^= 1 << uint(r.Intn(8))
						u := *victim
						u.Signature = ref.SignatureOfWire(k2, ref.Serialize(&u))
						d = ref.Serialize(&u)
					case 6:
						class = "replayed-sigblock"
						// forged content carrying the signature block of the valid frame A
						u := *victim
						u.Payload = r.Bytes(len(victim.Payload))
						fa, _, _ := ref.ParseAt(a, 0)
						u.LinkID, u.Timestamp, u.Signature = fa.LinkID, fa.Timestamp, fa.Signature
						d = ref.Serialize(&u)
					case 7:
						class = "content-altered-same-sigblock"
						u := *victim
						if len(u.Payload) > 0 {
							u.Payload = append([]byte(nil), u.Payload...)
							u.Payload[r.Intn(len(u.Payload))] ^= 0x10
						} else {
							u.Seq ^= 1
						}
						d = ref.Serialize(&u)
						// first the genuine victim, then the altered copy with the same signature block
						d = append(append([]byte(nil), vw...), d...)
					case 9:
						class = "checksum-wrong-resigned"
						// only meaningful with a dialect id: checksum flipped, then signed again with the right key
						u := *victim
						u.Checksum ^= 0x0100
						u.Signature = ref.SignatureOfWire(keyRaw, ref.Serialize(&u))
						if env.genv == nil || env.genv.layouts[u.MsgID] == nil {
							continue
						}
						d = ref.Serialize(&u)
					case 8:
						class = "sig-zero"
						for i := len(d) - 6; i < len(d); i++ {
							d[i] = 0
						}
					}
					runATS(a, d, sent, class)
				}
			}
		}
	}

	// ---- writers ----
	hb := func(i int) message.Message {
		mi := glist[i%len(glist)]
		return mi.Msg
	}
	_ = hb
	checkEmitted := func(api string, wire []byte, keyRaw []byte, wantLink int, t0, t1 uint64) {
		off := 0
		n := 0
		for off < len(wire) {
			f, ln, st := ref.ParseAt(wire, off)
			if st != ref.ParseOK {
				rep.Violation("what=writer:"+api+":flag", "writer output is not a sequence of whole frames", vh.Hex(wire[off:min(len(wire), off+64)]))
				return
			}
			w := wire[off : off+ln]
			rep.Eval(1)
			rep.Distinct(w)
			rep.Count("emitted_frames_"+api, 1)
			switch {
			case f.Version != 2 || !f.Signed:
				rep.Violation("what=writer:"+api+":flag", "a writer configured with an outgoing key emitted a frame without the signed flag", vh.Hex(w))
			case wantLink >= 0 && int(f.LinkID) != wantLink:
				rep.Violation("what=writer:"+api+":link", fmt.Sprintf("emitted link id %d, configured %d", f.LinkID, wantLink), vh.Hex(w))
			case f.Timestamp < t0 || f.Timestamp > t1:
				rep.Violation("what=writer:"+api+":ts", fmt.Sprintf("emitted timestamp %d outside the clock sandwich [%d,%d] (10 us ticks since 2015-01-01 UTC)", f.Timestamp, t0, t1), vh.Hex(w))
			case f.Signature != ref.SignatureOfWire(keyRaw, w):
				rep.Violation("what=writer:"+api+":sig", "emitted signature does not verify under the configured key by the reference formula", vh.Hex(w))
			}
			off += ln
			n++
		}
	}
	nW := vh.Pick(300, 20000)
	for ki, keyRaw := range keys[:3] {
		key := mkKey(keyRaw)
		link := []int{0, 7, 255}[ki]
		// streamwriter
		{
			rw := &recWriter{}
			// the frame writer underneath carries deprecated signing options of its own (another key, another link id): they are
			// nothing to the stream writer on top, whose link id may be 0
			fw := &frame.Writer{ByteWriter: rw, DialectRW: genv.drw, OutVersion: frame.V2, OutSystemID: 77, OutSignatureLinkID: 77, OutKey: mkKey(keys[(ki+1)%3])}
			_ = fw.Initialize()
			sw := &streamwriter.Writer{FrameWriter: fw, Version: streamwriter.V2, SystemID: 9, ComponentID: 3, SignatureLinkID: byte(link), Key: key}
			if err := sw.Initialize(); err != nil {
				t.Fatal(err)
			}
			t0 := ticksNow()
			for i := 0; i < nW; i++ {
				mi := glist[r.Intn(len(glist))]
				// already encoded messages come in every payload form (canonical, untruncated, partly truncated: zero tails)
				s, _ := validFrame(r, mi, 2, r.Intn(3), false, nil)
				var m message.Message = &message.MessageRaw{ID: s.MsgID, Payload: s.Payload}
				if i%2 == 0 {
					v, _ := mi.Layout.Decode(s.Payload, true)
					m = v.Interface().(message.Message)
				}
				if err := sw.Write(m); err != nil {
					rep.Violation("what=writer:streamwriter:flag", "streamwriter refused a dialect message: "+err.Error(), mi.Name)
				}
			}
			checkEmitted("streamwriter", rw.all(), keyRaw, link, t0, ticksNow())
		}
		// deprecated frame.Writer.WriteMessage
		{
			rw := &recWriter{}
			fw := &frame.Writer{ByteWriter: rw, DialectRW: genv.drw, OutVersion: frame.V2, OutSystemID: 4, OutSignatureLinkID: byte(link), OutKey: key}
			if ki == 1 {
				// a link that speaks v1 until its peer shows v2: the writer is initialised for v1 (key already in place) and its
				// version field is switched afterwards; from then on it writes v2 frames - signed
				fw.OutVersion = frame.V1
			}
			_ = fw.Initialize()
			fw.OutVersion = frame.V2
			t0 := ticksNow()
			for i := 0; i < nW; i++ {
				mi := glist[r.Intn(len(glist))]
				s, _ := validFrame(r, mi, 2, 0, false, nil)
				v, _ := mi.Layout.Decode(s.Payload, true)
				if err := fw.WriteMessage(v.Interface().(message.Message)); err != nil {
					rep.Violation("what=writer:framewriter:flag", "frame.Writer.WriteMessage refused a dialect message: "+err.Error(), mi.Name)
				}
			}
			checkEmitted("framewriter", rw.all(), keyRaw, link, t0, ticksNow())
		}
		// node with OutKey, two channels
		{
			var mlist []message.Message
			for _, mi := range glist {
				mlist = append(mlist, mi.Msg)
			}
			tr := []*fake.Transport{fake.NewTransport("a"), fake.NewTransport("b")}
			node := &gomavlib.Node{
				Endpoints:        []gomavlib.EndpointConf{gomavlib.EndpointCustom{ReadWriteCloser: tr[0]}, gomavlib.EndpointCustom{ReadWriteCloser: tr[1]}},
				Dialect:          &dialect.Dialect{Version: 3, Messages: mlist},
				OutVersion:       gomavlib.V2,
				OutSystemID:      12,
				OutKey:           key,
				HeartbeatDisable: true,
			}
			t0 := ticksNow()
			if err := node.Initialize(); err != nil {
				t.Fatal(err)
			}
			opened := 0
			for opened < 2 {
				if _, ok := (<-node.Events()).(*gomavlib.EventChannelOpen); ok {
					opened++
				}
			}
			go func() {
				for range node.Events() {
				}
			}()
			nN := vh.Pick(200, 5000)
			for i := 0; i < nN; i++ {
				mi := glist[r.Intn(len(glist))]
				s, _ := validFrame(r, mi, 2, r.Intn(3), false, nil)
				v, _ := mi.Layout.Decode(s.Payload, true)
				if i%3 == 1 {
					_ = node.WriteMessageAll(&message.MessageRaw{ID: s.MsgID, Payload: s.Payload}) // already encoded, possibly with a zero tail
				} else {
					_ = node.WriteMessageAll(v.Interface().(message.Message))
				}
				if i%32 == 31 { // flow control: stay below the 64-item queue
					tr[0].WaitWrites(i+1, 2*time.Second)
					tr[1].WaitWrites(i+1, 2*time.Second)
				}
			}
			for _, x := range tr {
				if got := x.WaitWrites(nN, 2*time.Second); got != nN {
					rep.Inconclusive(fmt.Sprintf("node writer emitted %d of %d frames before the no-progress criterion fired", got, nN))
				}
			}
			// frames the application derives from one another (struct copies of a frame it has fixed, edited and fixed again)
			// while the earlier ones are still waiting in the channels' queues: every one leaves with a signature that verifies
			nBefore := tr[0].NWrites()
			for _, x := range tr {
				x.BlockWrites()
			}
			nDerived := 0
			for i := 0; i < 12; i++ {
				mi := glist[r.Intn(len(glist))]
				s, _ := validFrame(r, mi, 2, 0, false, nil)
				v, _ := mi.Layout.Decode(s.Payload, true)
				f1 := &frame.V2Frame{IncompatibilityFlag: frame.V2FlagSigned, SequenceNumber: byte(i), SystemID: 9, ComponentID: 9, Message: v.Interface().(message.Message)}
				if err := node.FixFrame(f1); err != nil {
					continue
				}
				_ = node.WriteFrameAll(f1)
				f2 := *f1 // shares whatever f1 points to
				f2.SystemID = 10
				if err := node.FixFrame(&f2); err != nil {
					continue
				}
				_ = node.WriteFrameAll(&f2)
				nDerived += 2
			}
			for _, x := range tr {
				x.UnblockWrites()
			}
			for _, x := range tr {
				x.WaitWrites(nBefore+nDerived, 2*time.Second)
			}
			rep.Count("frames_derived_by_struct_copy_and_fixed", nDerived)
			t1 := ticksNow()
			node.Close()
			for _, x := range tr {
				// the frames fixed by the application carry the link id and timestamp it gave them: only the signature is judged
				ws := x.Writes()
				var out []byte
				for wi, w := range ws {
					if wi < nBefore {
						out = append(out, w.Data...)
						continue
					}
					f, n, st := ref.ParseAt(w.Data, 0)
					rep.Eval(1)
					if st != ref.ParseOK || n != len(w.Data) || !f.Signed || f.Signature != ref.SignatureOfWire(keyRaw, w.Data) {
						rep.Violation("what=writer:node:sig", "a frame fixed with FixFrame on a node with an outgoing key left the node with a signature that does not verify (frames derived from one another by struct copy, earlier ones still queued)", vh.Hex(w.Data))
						break
					}
				}
				if len(out) == 0 {
					continue
				}
				f0, _, _ := ref.ParseAt(out, 0)
				link := -1
				if f0 != nil {
					link = int(f0.LinkID) // "the link's link id": constant per channel
				}
				checkEmitted("node", out, keyRaw, link, t0, t1)
			}
		}
	}

	// a wall clock that is stepped BACKWARDS during the life of a link (NTP step, GPS time acquired): through the clock-shift
	// hook (build tag verif). Whatever the writers make of the timestamp then, what they emit is signed: the signature
	// verifies over the bytes that leave, timestamp included
	{
		keyRaw := keys[1]
		key := mkKey(keyRaw)
		shift := func(d time.Duration) {
			frame.VerifShiftSignatureClock(d)
			streamwriter.VerifShiftSignatureClock(d)
		}
		sigOnly := func(api string, wire []byte) {
			for off := 0; off < len(wire); {
				f, ln, st := ref.ParseAt(wire, off)
				if st != ref.ParseOK {
					rep.Violation("what=writer:"+api+":flag", "writer output is not a sequence of whole frames (clock stepped backwards)", vh.Hex(wire[off:min(len(wire), off+64)]))
					return
				}
				w := wire[off : off+ln]
				rep.Eval(1)
				rep.Count("emitted_frames_after_clock_step_back", 1)
				if !f.Signed || f.Signature != ref.SignatureOfWire(keyRaw, w) {
					rep.Violation("what=writer:"+api+":sig", "after the wall clock was stepped backwards a writer with an outgoing key emitted a frame whose signature does not verify over the bytes it sent", vh.Hex(w))
					return
				}
				off += ln
			}
		}
		hbm := &common.MessageHeartbeat{Type: 1, Autopilot: 2, SystemStatus: 4, MavlinkVersion: 3}
		drwC, _ := newDialectRW(&common.MessageHeartbeat{})
		rwS, rwF := &recWriter{}, &recWriter{}
		fwS := &frame.Writer{ByteWriter: rwS, DialectRW: drwC}
		_ = fwS.Initialize()
		sw := &streamwriter.Writer{FrameWriter: fwS, Version: streamwriter.V2, SystemID: 9, ComponentID: 3, SignatureLinkID: 4, Key: key}
		_ = sw.Initialize()
		fwF := &frame.Writer{ByteWriter: rwF, DialectRW: drwC, OutVersion: frame.V2, OutSystemID: 4, OutSignatureLinkID: 5, OutKey: key}
		_ = fwF.Initialize()
		tr := fake.NewTransport("clk")
		node := &gomavlib.Node{Endpoints: []gomavlib.EndpointConf{gomavlib.EndpointCustom{ReadWriteCloser: tr}}, Dialect: &dialect.Dialect{Version: 3, Messages: []message.Message{&common.MessageHeartbeat{}}},
			OutVersion: gomavlib.V2, OutSystemID: 12, OutKey: key, HeartbeatDisable: true}
		if err := node.Initialize(); err != nil {
			t.Fatal(err)
		}
		<-node.Events()
		go func() {
			for range node.Events() {
			}
		}()
		total := time.Duration(0)
		nodeWrites := 0
		for step := 0; step < 6; step++ {
			for i := 0; i < 5; i++ {
				hbm.CustomMode = uint32(step*10 + i)
				_ = sw.Write(hbm)
				_ = fwF.WriteMessage(hbm)
				_ = node.WriteMessageAll(&common.MessageHeartbeat{CustomMode: uint32(step*10 + i), MavlinkVersion: 3})
				nodeWrites++
			}
			tr.WaitWrites(nodeWrites, 2*time.Second) // the channel writer is idle while the clock is changed
			d := -time.Duration([]int{1, 1000, 10, 3600000, 20, 1}[step]) * time.Millisecond
			shift(d)
			total += d
		}
		for i := 0; i < 5; i++ {
			_ = sw.Write(hbm)
			_ = fwF.WriteMessage(hbm)
			_ = node.WriteMessageAll(&common.MessageHeartbeat{CustomMode: 99, MavlinkVersion: 3})
			nodeWrites++
		}
		tr.WaitWrites(nodeWrites, 2*time.Second)
		shift(-total) // the clock is right again
		node.Close()
		sigOnly("streamwriter", rwS.all())
		sigOnly("framewriter", rwF.all())
		sigOnly("node", tr.Output())
		rep.Count("clock_steps_backwards", 6)
	}

	// node with InKey: only authenticated frames surface as frame events (whatever version the node itself sends)
	for _, outVer := range []gomavlib.Version{gomavlib.V2, gomavlib.V1} {
		keyRaw := keys[0]
		var mlist []message.Message
		for _, mi := range glist {
			mlist = append(mlist, mi.Msg)
		}
		tr := fake.NewTransport("in")
		node := &gomavlib.Node{
			Endpoints:        []gomavlib.EndpointConf{gomavlib.EndpointCustom{ReadWriteCloser: tr}},
			Dialect:          &dialect.Dialect{Version: 3, Messages: mlist},
			OutVersion:       outVer,
			OutSystemID:      12,
			InKey:            mkKey(keyRaw),
			HeartbeatDisable: true,
		}
		if err := node.Initialize(); err != nil {
			t.Fatal(err)
		}
		env := &c06env{rep: rep, keyRaw: keyRaw, key: mkKey(keyRaw), genv: genv}
		var stream []byte
		wantAuth := 0
		nIn := vh.Pick(400, 6000)
		ts := uint64(100)
		for i := 0; i < nIn; i++ {
			ts += 3
			s := env.signedFrame(r, ts, -1, glist)
			w := ref.Serialize(s)
			switch r.Intn(5) {
			case 0: // unsigned
				u := *s
				u.Signed, u.Incompat = false, 0
				if mi := genv.layouts[u.MsgID]; mi != nil {
					ref.Seal(&u, mi.Layout.CRCExtra, nil)
				}
				w = ref.Serialize(&u)
			case 1: // wrong key
				k2 := append([]byte(nil), keyRaw...)
				k2[5] ^= 4
				u := *s
				u.Signature = ref.SignatureOfWire(k2, ref.Serialize(&u))
				w = ref.Serialize(&u)
			case 2: // bit flipped after signing (not in magic/len/flags so the frame keeps its extent)
				w = append([]byte(nil), w...)
				w[3+r.Intn(len(w)-3)] ^= 1 << uint(r.Intn(8))
			default:
				wantAuth++
			}
			stream = append(stream, w...)
		}
		done := make(chan int)
		var framesSeen int64
		perr := map[string]int{}
		go func() {
			frames := 0
			for evt := range node.Events() {
				if pe, ok := evt.(*gomavlib.EventParseError); ok {
					perr[pe.Error.Error()]++
				}
				if ef, ok := evt.(*gomavlib.EventFrame); ok {
					frames++
					atomic.AddInt64(&framesSeen, 1)
					if !sigJustified(stream, ef.Frame, keyRaw, genv) {
						rep.Violation("what=accepted:node", "a node with an incoming key delivered an unauthenticated frame as a frame event",
							map[string]interface{}{"delivered": descFrame(ef.Frame)})
					}
				}
			}
			done <- frames
		}()
		for off := 0; off < len(stream); {
			n := 1 + r.Intn(300)
			if off+n > len(stream) {
				n = len(stream) - off
			}
			tr.Feed(stream[off : off+n])
			off += n
		}
		if !tr.WaitDrained(3 * time.Second) {
			rep.Inconclusive("node did not drain its input before the no-progress criterion fired")
		}
		// the transport is drained; the events of the last frames may still be on their way to this (slow: every delivered
		// frame is checked against the stream) consumer: the node is closed once they have all arrived, or nothing has arrived
		// for a while (no-progress criterion, not a fixed pause)
		lastN, lastChange := int64(-1), time.Now()
		for hard := time.Now().Add(20 * time.Second); time.Now().Before(hard); {
			n := atomic.LoadInt64(&framesSeen)
			if n >= int64(wantAuth) {
				break
			}
			if n != lastN {
				lastN, lastChange = n, time.Now()
			} else if time.Since(lastChange) > time.Second {
				break
			}
			time.Sleep(time.Millisecond)
		}
		time.Sleep(20 * time.Millisecond)
		node.Close()
		frames := <-done
		rep.Eval(nIn)
		rep.Count("node_inkey_input_frames", nIn)
		rep.Count("node_inkey_frame_events", frames)
		if frames < wantAuth {
			rep.Violation("what=rejected-valid", fmt.Sprintf("node with InKey delivered %d frame events for %d authenticated frames", frames, wantAuth), map[string]interface{}{"parse_errors_by_text": perr})
		}
	}
	rep.Floor("tamper_streams", 2000)
	rep.Floor("emitted_frames_node", 100)
}
