package codec

import (
	"fmt"
	"io"
	"reflect"
	"runtime/debug"
	"sync"

	"github.com/bluenviron/gomavlib/v3/pkg/dialect"
	"github.com/bluenviron/gomavlib/v3/pkg/frame"
	"github.com/bluenviron/gomavlib/v3/pkg/message"

	"verifharness/dialects"
	"verifharness/ref"
	"verifharness/vh"
)

// recWriter records every Write call it receives.
type recWriter struct {
	calls  [][]byte
	failAt int // 1-based index of the call that fails (0 = never)
	err    error
	n      int
	// failMode: how the failing call answers: 0 nothing written, 1 half of the bytes taken, 2 all bytes taken and then
	// the error (a writer that writes and then fails to sync / to pass the data on)
	failMode int
}

func (w *recWriter) Write(p []byte) (int, error) {
	w.n++
	if w.failAt != 0 && w.n == w.failAt {
		switch w.failMode {
		case 1:
			w.calls = append(w.calls, append([]byte(nil), p[:len(p)/2]...))
			return len(p) / 2, w.err
		case 2:
			w.calls = append(w.calls, append([]byte(nil), p...))
			return len(p), w.err
		}
		return 0, w.err
	}
	w.calls = append(w.calls, append([]byte(nil), p...))
	return len(p), nil
}

func (w *recWriter) all() []byte {
	var out []byte
	for _, c := range w.calls {
		out = append(out, c...)
	}
	return out
}

func (w *recWriter) reset() { w.calls = nil; w.n = 0 }

// toFrame converts a reference frame into a gomavlib frame carrying a raw message.
func toFrame(s *ref.FrameSpec) frame.Frame {
	var payload []byte
	if len(s.Payload) > 0 {
		payload = append([]byte(nil), s.Payload...)
	}
	raw := &message.MessageRaw{ID: s.MsgID, Payload: payload}
	if s.Version == 1 {
		return &frame.V1Frame{SequenceNumber: s.Seq, SystemID: s.Sys, ComponentID: s.Comp, Message: raw, Checksum: s.Checksum}
	}
	f := &frame.V2Frame{
		IncompatibilityFlag: s.Incompat, CompatibilityFlag: s.Compat, SequenceNumber: s.Seq,
		SystemID: s.Sys, ComponentID: s.Comp, Message: raw, Checksum: s.Checksum,
	}
	if s.Signed {
		f.IncompatibilityFlag |= 1
		f.SignatureLinkID = s.LinkID
		f.SignatureTimestamp = s.Timestamp
		sig := frame.V2Signature(s.Signature)
		f.Signature = &sig
	}
	return f
}

// fromFrame converts a gomavlib frame to reference form. The payload is taken from a raw
// message; for a decoded message Payload is nil and MsgID is the message's id.
func fromFrame(f frame.Frame) *ref.FrameSpec {
	s := &ref.FrameSpec{}
	var msg message.Message
	switch ff := f.(type) {
	case *frame.V1Frame:
		s.Version = 1
		s.Seq, s.Sys, s.Comp, s.Checksum = ff.SequenceNumber, ff.SystemID, ff.ComponentID, ff.Checksum
		msg = ff.Message
	case *frame.V2Frame:
		s.Version = 2
		s.Incompat, s.Compat = ff.IncompatibilityFlag, ff.CompatibilityFlag
		s.Seq, s.Sys, s.Comp, s.Checksum = ff.SequenceNumber, ff.SystemID, ff.ComponentID, ff.Checksum
		msg = ff.Message
		if ff.Signature != nil {
			s.Signed = true
			s.LinkID = ff.SignatureLinkID
			s.Timestamp = ff.SignatureTimestamp
			s.Signature = [6]byte(*ff.Signature)
		}
	}
	if msg != nil {
		s.MsgID = msg.GetID()
		if raw, ok := msg.(*message.MessageRaw); ok {
			s.Payload = append([]byte(nil), raw.Payload...)
		}
	}
	return s
}

func specEqual(a, b *ref.FrameSpec) (bool, string) {
	switch {
	case a.Version != b.Version:
		return false, "version"
	case a.Incompat != b.Incompat:
		return false, "incompat"
	case a.Compat != b.Compat:
		return false, "compat"
	case a.Seq != b.Seq:
		return false, "seq"
	case a.Sys != b.Sys:
		return false, "sysid"
	case a.Comp != b.Comp:
		return false, "compid"
	case a.MsgID != b.MsgID:
		return false, "msgid"
	case string(a.Payload) != string(b.Payload):
		return false, "payload"
	case a.Checksum != b.Checksum:
		return false, "checksum"
	case a.Signed != b.Signed:
		return false, "signed"
	case a.Signed && a.LinkID != b.LinkID:
		return false, "linkid"
	case a.Signed && a.Timestamp != b.Timestamp:
		return false, "timestamp"
	case a.Signed && a.Signature != b.Signature:
		return false, "signature"
	}
	return true, ""
}

func specJSON(s *ref.FrameSpec) map[string]interface{} {
	return map[string]interface{}{
		"version": s.Version, "incompat": s.Incompat, "compat": s.Compat, "seq": s.Seq, "sys": s.Sys, "comp": s.Comp,
		"msgid": s.MsgID, "payload": vh.Hex(s.Payload), "checksum": s.Checksum, "signed": s.Signed,
		"linkid": s.LinkID, "timestamp": s.Timestamp, "signature": vh.Hex(s.Signature[:]),
	}
}

// guard runs fn and converts a panic into a violation of property-specific key.
func guard(rep *vh.Report, key string, witness func() interface{}, fn func()) {
	defer func() {
		if r := recover(); r != nil {
			rep.Violation(key, fmt.Sprintf("panic in library code: %v", r),
				map[string]interface{}{"input": witness(), "stack": string(debug.Stack())})
		}
	}()
	fn()
}

// msgInfo is a shipped message type with its reference layout and real codec.
type msgInfo struct {
	Name   string
	Msg    message.Message
	Type   reflect.Type
	Layout *ref.Layout
	RW     *message.ReadWriter
}

var (
	allMsgsOnce sync.Once
	allMsgs     []*msgInfo
	allMsgsErr  error
)

// shippedOrViolation returns the shipped message types; if one of them cannot be handled by the library
// (Initialize fails) that is reported as a violation of the property being checked, not as a harness failure.
func shippedOrViolation(rep *vh.Report, t interface{ SkipNow() }) []*msgInfo {
	all, err := shippedMessages()
	if err != nil {
		rep.Violation("msg=shipped what=init", "a message definition of a shipped dialect cannot be handled: "+err.Error(), nil)
		rep.Eval(1)
		rep.DistinctN(2)
		rep.Sample(err.Error())
		t.SkipNow()
	}
	return all
}

// shippedMessages returns every distinct message struct type of the shipped dialects.
func shippedMessages() ([]*msgInfo, error) {
	allMsgsOnce.Do(func() {
		for _, m := range dialects.UniqueMessages() {
			mi := &msgInfo{Name: dialects.TypeName(m), Msg: m, Type: reflect.TypeOf(m).Elem()}
			l, err := ref.LayoutOf(mi.Type)
			if err != nil {
				allMsgsErr = fmt.Errorf("reference layout of %s: %w", mi.Name, err)
				return
			}
			mi.Layout = l
			mi.RW = &message.ReadWriter{Message: m}
			if err := mi.RW.Initialize(); err != nil {
				allMsgsErr = fmt.Errorf("Initialize of %s: %w", mi.Name, err)
				return
			}
			allMsgs = append(allMsgs, mi)
		}
	})
	return allMsgs, allMsgsErr
}

func newDialectRW(msgs ...message.Message) (*dialect.ReadWriter, error) {
	rw := &dialect.ReadWriter{Dialect: &dialect.Dialect{Version: 3, Messages: msgs}}
	return rw, rw.Initialize()
}

// pickMsgs returns n seed-chosen shipped message types (all in the thorough tier when n<=0).
func pickMsgs(r *vh.RNG, all []*msgInfo, n int) []*msgInfo {
	// distinct message types of different dialects may share an id: a pick holds at most one type per id,
	// so that it can always be turned into a dialect
	seen := map[uint32]bool{}
	out := make([]*msgInfo, 0, len(all))
	order := make([]int, len(all))
	for i := range order {
		order[i] = i
	}
	if n > 0 && n < len(all) {
		order = r.Perm(len(all))
	}
	for _, i := range order {
		if seen[all[i].Msg.GetID()] {
			continue
		}
		seen[all[i].Msg.GetID()] = true
		out = append(out, all[i])
		if n > 0 && len(out) >= n {
			break
		}
	}
	return out
}

// frameSource is what every way of building a frame reader gives back.
type frameSource interface {
	Read() (frame.Frame, error)
}

var readerPathCounter uint64

// newFrameSource builds a reader over src through one of the construction paths the package offers, in rotation:
// the Reader struct + Initialize, the deprecated NewReader(ReaderConf), ReadWriter + Initialize, the deprecated
// NewReadWriter(ReadWriterConf). All of them are the same reader with the same configuration.
func newFrameSource(src io.Reader, drw *dialect.ReadWriter, key *frame.V2Key) (frameSource, error) {
	readerPathCounter++
	rw := struct {
		io.Reader
		io.Writer
	}{src, io.Discard}
	switch readerPathCounter % 4 {
	case 1:
		return frame.NewReader(frame.ReaderConf{Reader: src, DialectRW: drw, InKey: key})
	case 2:
		r := &frame.ReadWriter{ByteReadWriter: rw, DialectRW: drw, InKey: key, OutVersion: frame.V2, OutSystemID: 1}
		if err := r.Initialize(); err != nil {
			return nil, err
		}
		return r, nil
	case 3:
		return frame.NewReadWriter(frame.ReadWriterConf{ReadWriter: rw, DialectRW: drw, InKey: key, OutVersion: frame.V2, OutSystemID: 1})
	}
	rd := &frame.Reader{ByteReader: src, DialectRW: drw, InKey: key}
	if err := rd.Initialize(); err != nil {
		return nil, err
	}
	return rd, nil
}

// mkKey builds a key the way an application may: from a scratch buffer that it wipes (or reuses for the next key)
// right afterwards. The key is the bytes it was made from, not the buffer.
func mkKey(raw []byte) *frame.V2Key {
	scratch := make([]byte, len(raw), len(raw)+16)
	copy(scratch, raw)
	k := frame.NewV2Key(scratch)
	for i := range scratch {
		scratch[i] = 0xA5
	}
	return k
}
