package codec

import (
	"bytes"
	"errors"
	"fmt"
	"io"
	"net"
	"os"
	"reflect"
	"syscall"
	"testing"
	"time"

	"github.com/bluenviron/gomavlib/v3"
	"github.com/bluenviron/gomavlib/v3/pkg/dialect"
	"github.com/bluenviron/gomavlib/v3/pkg/dialects/common"
	"github.com/bluenviron/gomavlib/v3/pkg/frame"
	"github.com/bluenviron/gomavlib/v3/pkg/message"
	"github.com/bluenviron/gomavlib/v3/pkg/streamwriter"

	"verifharness/fake"
	"verifharness/ref"
	"verifharness/vh"
)

// C09 — originated frames: configured identity, version, gapless sequence numbers.

type c09conf struct {
	version int
	sys     byte
	comp    byte // configured (0 = unset)
	keyRaw  []byte
	link    byte
}

func (c c09conf) String() string {
	return fmt.Sprintf("v%d sys=%d comp=%d key=%v link=%d", c.version, c.sys, c.comp, c.keyRaw != nil, c.link)
}

// c09emitted is one frame seen on a link together with the number of refused writes
// known to have been submitted before it was written.
type c09emitted struct {
	wire          []byte
	refusedBefore int
	// rawPayload != nil: the application handed over an already encoded message; its payload goes out as it is
	rawPayload []byte
}

var c09nodeCounter int

// c09forwardID marks the frames that the application forwards through the node (raw, id outside every dialect).
const c09forwardID = 0xF0F0F1

// checkLink runs the identity checks and the sequence automaton (DESIGN §8.4) over one link.
func c09checkLink(rep *vh.Report, api string, conf c09conf, genv *gateEnv, frames []c09emitted, wantLink int) {
	expect := 0
	used := 0
	wantComp := conf.comp
	if wantComp == 0 {
		wantComp = 1
	}
	for i, e := range frames {
		f, n, st := ref.ParseAt(e.wire, 0)
		if st == ref.ParseOK && f.MsgID == c09forwardID {
			// a frame the application forwarded with WriteFrame* (own identity on it or not): not originated here, no part
			// in the link's numbering
			rep.Count("forwarded_frames_between_originated_ones", 1)
			continue
		}
		rep.Eval(1)
		rep.Count("originated_frames_"+api, 1)
		wit := func() interface{} {
			return map[string]interface{}{"api": api, "conf": conf.String(), "index": i, "wire": vh.Hex(e.wire)}
		}
		if st != ref.ParseOK || n != len(e.wire) {
			rep.Violation("api="+api+" what=version", "a transport write is not exactly one whole frame", wit())
			return
		}
		switch {
		case f.Version != conf.version:
			rep.Violation("api="+api+" what=version", fmt.Sprintf("frame of version %d on a link configured for %d", f.Version, conf.version), wit())
		case f.Sys != conf.sys:
			rep.Violation("api="+api+" what=sysid", fmt.Sprintf("system id %d, configured %d", f.Sys, conf.sys), wit())
		case f.Comp != wantComp:
			rep.Violation("api="+api+" what=compid", fmt.Sprintf("component id %d, configured %d (1 when unset)", f.Comp, wantComp), wit())
		case f.Compat != 0:
			rep.Violation("api="+api+" what=flags", "compatibility flags are not zero", wit())
		case conf.keyRaw == nil && (f.Incompat != 0 || f.Signed):
			rep.Violation("api="+api+" what=flags", "incompatibility flags set without an outgoing key", wit())
		case conf.keyRaw != nil && (!f.Signed || f.Incompat != 1):
			rep.Violation("api="+api+" what=flags", "frame not signed although an outgoing key is configured", wit())
		case conf.keyRaw != nil && f.Signature != ref.SignatureOfWire(conf.keyRaw, e.wire):
			rep.Violation("api="+api+" what=flags", "signature does not verify", wit())
		case conf.keyRaw != nil && wantLink >= 0 && int(f.LinkID) != wantLink:
			rep.Violation("api="+api+" what=flags", "link id is not the link's", wit())
		}
		mi := genv.layouts[f.MsgID]
		if mi == nil {
			rep.Violation("api="+api+" what=checksum", "originated frame with an id outside the dialect", wit())
			return
		}
		if f.Checksum != ref.ChecksumOfWire(e.wire, mi.Layout.CRCExtra) {
			rep.Violation("api="+api+" what=checksum", "checksum is not correct for the message's CRC_EXTRA", wit())
		}
		if conf.version == 1 && len(f.Payload) != mi.Layout.SizeBase {
			rep.Violation("api="+api+" what=v1ext", fmt.Sprintf("v1 payload has %d bytes, base size is %d (extensions must be omitted)", len(f.Payload), mi.Layout.SizeBase), wit())
		}
		if e.rawPayload != nil {
			// an already encoded message: whether its payload is re-truncated is not C09's business (checksum and identity are)
			rep.Count("raw_messages_originated", 1)
		} else if conf.version == 2 && (len(f.Payload) == 0 || (len(f.Payload) > 1 && f.Payload[len(f.Payload)-1] == 0)) {
			rep.Violation("api="+api+" what=v1ext", "v2 payload not zero-truncated", wit())
		}
		// sequence automaton
		gap := (int(f.Seq) - expect) & 0xFF
		avail := e.refusedBefore - used
		if gap > avail {
			rep.Violation("api="+api+" what=seq",
				fmt.Sprintf("sequence number %d where %d was expected (frame %d of the link, %d refused writes unaccounted): gap or repeat", f.Seq, expect, i, avail), wit())
			return
		}
		if gap > 0 {
			rep.Count("seq_numbers_consumed_by_refused_writes", gap)
		}
		used += gap
		expect = (int(f.Seq) + 1) & 0xFF
	}
}

func TestC09(t *testing.T) {
	rep := vh.NewReport("C09")
	defer rep.Finish(t)
	rep.Rule("write histories (600..5000 items, >= 2 sequence wraps) mixing dialect message types, decoded and raw, with occasional refused items, over configurations " +
		"version x system id {1,2,127,255} x component id {0,1,200,255} x key x link id, through streamwriter.Writer, frame.Writer.WriteMessage, frame.ReadWriter.WriteMessage and a Node with 1..6 custom channels " +
		"(WriteMessageAll/To/Except + heartbeats + stream requests on the same per-link counter); every emitted frame parsed by the reference: identity, version, flags, checksum, v1 base size, " +
		"sequence automaton (first 0, then +1 mod 256; a step of 1..1+r only across r refused writes). A second dialect that gives ids 0 and 66 other definitions is used side by side (stream writers and nodes, raw and decoded, either dialect first). Initialization refusals enumerated. distinct = (configuration, api) links")
	rep.RuleAdd("Also: frames forwarded through the node between the originated ones, a third of them carrying the node's own system and component id and arbitrary sequence numbers; link generations; twin dialects. Every other node uses a dialect whose version is 0.")
	rep.RuleAdd("Rounds 12-15: forwarded frames between the originated ones, nodes on dialect version 0, five lives of one node value, writers initialised again on their link, transports that deliver a frame and then report a network error.")
	rep.RuleAdd("Rounds 16-17: v1 output of a struct that declares an extension before a regular field.")
	rep.RuleAdd("Round 18: version values that are neither 1 nor 2 (3, 127, 255), where a writer accepts them: every emitted frame carries the encoding of its own version.")
	rep.Assume("a sequence number consumed by a refused write is tolerated (the statement speaks of accepted writes); counted in seq_numbers_consumed_by_refused_writes")
	seed := vh.Seed()
	r := vh.Sub(seed, "c09")
	all := shippedOrViolation(rep, t)
	var err error
	_ = err
	// dialect: common heartbeat + request_data_stream (for node automatic traffic) + picked types incl. ones with extensions and ids > 255
	byType := map[reflect.Type]*msgInfo{}
	for _, mi := range all {
		byType[mi.Type] = mi
	}
	var pick []*msgInfo
	commonIdx := r.Perm(len(common.Dialect.Messages))
	for n, i := range commonIdx {
		m := common.Dialect.Messages[i]
		mi := byType[reflect.TypeOf(m).Elem()]
		switch m.GetID() {
		case 0, 66, 258, 100: // heartbeat, request_data_stream, play_tune (extension string), optical_flow (extensions)
			pick = append(pick, mi)
		default:
			if n < 30 {
				pick = append(pick, mi)
			}
		}
	}
	// user messages: a three-byte id (0xABCDEF) among them
	if users, uerr := userMsgInfos(); uerr == nil {
		for _, u := range users {
			if id := u.Msg.GetID(); id > 65535 || id == 50002 || id == 201 {
				pick = append(pick, u)
			}
		}
	}
	genv, err := newGateEnv(pick)
	if err != nil {
		t.Fatal(err)
	}
	var glist []*msgInfo
	var dmsgs []message.Message
	for _, mi := range genv.sorted() {
		glist = append(glist, mi)
		dmsgs = append(dmsgs, mi.Msg)
	}

	randMsg := func(v2 bool, raw bool) (message.Message, *msgInfo) {
		for {
			mi := glist[r.Intn(len(glist))]
			if !v2 && mi.Msg.GetID() > 255 {
				continue
			}
			val := reflect.New(mi.Type)
			vh.FillMessage(r, mi.Layout, val, vh.ModeMixed)
			if raw {
				return &message.MessageRaw{ID: mi.Msg.GetID(), Payload: mi.Layout.Encode(val, v2)}, mi
			}
			return val.Interface().(message.Message), mi
		}
	}
	// dialect messages whose id does not fit a v1 frame
	var highID []*msgInfo
	for _, mi := range glist {
		if mi.Msg.GetID() > 255 {
			highID = append(highID, mi)
		}
	}
	refusedMsg := func(v2 bool) message.Message {
		if !v2 && len(highID) > 0 && r.Chance(2, 3) {
			// a message of the dialect whose id is above 255, decoded or already encoded: version 1 must refuse it
			mi := highID[r.Intn(len(highID))]
			val := reflect.New(mi.Type)
			vh.FillMessage(r, mi.Layout, val, vh.ModeMixed)
			if r.Chance(1, 2) {
				return &message.MessageRaw{ID: mi.Msg.GetID(), Payload: mi.Layout.Encode(val, false)}
			}
			return val.Interface().(message.Message)
		}
		if !v2 && r.Chance(1, 2) {
			return &message.MessageRaw{ID: 300, Payload: []byte{1, 2, 3}} // v1 cannot carry it
		}
		return &message.MessageRaw{ID: 99999 + uint32(r.Intn(100)), Payload: []byte{1}} // not in the dialect
	}

	// configurations
	var confs []c09conf
	for _, version := range []int{1, 2} {
		for _, sys := range []byte{1, 2, 127, 255} {
			for _, comp := range []byte{0, 1, 200, 255} {
				c := c09conf{version: version, sys: sys, comp: comp}
				confs = append(confs, c)
				if version == 2 {
					c.keyRaw = r.Bytes(32)
					c.link = []byte{0, 9, 255}[r.Intn(3)]
					confs = append(confs, c)
				}
			}
		}
	}
	nConf := vh.Pick(32, len(confs))
	order := r.Perm(len(confs))
	sampled := false
	for _, ci := range order[:nConf] {
		conf := confs[ci]
		v2 := conf.version == 2
		var key *frame.V2Key
		if conf.keyRaw != nil {
			key = mkKey(conf.keyRaw)
		}
		nItems := 600 + r.Intn(vh.Pick(400, 4400))

		// streamwriter.Writer and deprecated frame.Writer.WriteMessage
		for _, api := range []string{"streamwriter", "framewriter", "readwriter", "newwriter", "newreadwriter"} {
			rw := &recWriter{}
			var write func(m message.Message) error
			var forward func(fr frame.Frame) error
			var reinit func() error
			if api == "streamwriter" {
				fw := &frame.Writer{ByteWriter: rw, DialectRW: genv.drw}
				_ = fw.Initialize()
				sw := &streamwriter.Writer{FrameWriter: fw, Version: streamwriter.Version(conf.version), SystemID: conf.sys, ComponentID: conf.comp, Key: key, SignatureLinkID: conf.link}
				if err := sw.Initialize(); err != nil {
					rep.Violation("api=streamwriter what=init:valid", "a valid configuration was refused: "+err.Error(), conf.String())
					continue
				}
				write = sw.Write
				forward = fw.Write
				reinit = sw.Initialize
			} else if api == "framewriter" {
				fw := &frame.Writer{ByteWriter: rw, DialectRW: genv.drw, OutVersion: frame.WriterOutVersion(conf.version), OutSystemID: conf.sys,
					OutComponentID: conf.comp, OutKey: key, OutSignatureLinkID: conf.link}
				if err := fw.Initialize(); err != nil {
					rep.Violation("api=framewriter what=init:valid", "a valid configuration was refused: "+err.Error(), conf.String())
					continue
				}
				write = fw.WriteMessage
				forward = fw.Write
				reinit = fw.Initialize
			} else if api == "newwriter" {
				// the deprecated constructor
				fw, err := frame.NewWriter(frame.WriterConf{Writer: rw, DialectRW: genv.drw, OutVersion: frame.WriterOutVersion(conf.version), OutSystemID: conf.sys,
					OutComponentID: conf.comp, OutKey: key, OutSignatureLinkID: conf.link})
				if err != nil {
					rep.Violation("api=newwriter what=init:valid", "a valid configuration was refused: "+err.Error(), conf.String())
					continue
				}
				write = fw.WriteMessage
				forward = fw.Write
			} else if api == "newreadwriter" {
				frw, err := frame.NewReadWriter(frame.ReadWriterConf{ReadWriter: struct {
					io.Reader
					io.Writer
				}{bytes.NewReader(nil), rw}, DialectRW: genv.drw, OutVersion: frame.WriterOutVersion(conf.version), OutSystemID: conf.sys,
					OutComponentID: conf.comp, OutKey: key, OutSignatureLinkID: conf.link})
				if err != nil {
					rep.Violation("api=newreadwriter what=init:valid", "a valid configuration was refused: "+err.Error(), conf.String())
					continue
				}
				write = frw.WriteMessage
				forward = frw.Write
			} else {
				// the deprecated message writer of frame.ReadWriter
				frw := &frame.ReadWriter{ByteReadWriter: struct {
					io.Reader
					io.Writer
				}{bytes.NewReader(nil), rw}, DialectRW: genv.drw, OutVersion: frame.WriterOutVersion(conf.version), OutSystemID: conf.sys,
					OutComponentID: conf.comp, OutKey: key, OutSignatureLinkID: conf.link}
				if err := frw.Initialize(); err != nil {
					rep.Violation("api=readwriter what=init:valid", "a valid configuration was refused: "+err.Error(), conf.String())
					continue
				}
				write = frw.WriteMessage
				forward = frw.Write
			}
			var emitted []c09emitted
			refused := 0
			guard(rep, "api="+api+" what=panic", func() interface{} { return conf.String() }, func() {
				for i := 0; i < nItems; i++ {
					rw.reset()
					if forward != nil && i%7 == 3 {
						// a pre-existing frame forwarded through the same writer between the originated ones: no part in their numbering
						fs := &ref.FrameSpec{Version: 2, Seq: r.Byte(), Sys: r.Byte(), Comp: r.Byte(), MsgID: c09forwardID, Payload: r.Bytes(1 + r.Intn(20)), Checksum: uint16(r.U64())}
						if i%21 == 3 {
							fs.Sys, fs.Comp = conf.sys, conf.comp
						}
						_ = forward(toFrame(fs))
						rep.Count("frames_forwarded_through_originating_writers", 1)
						rw.reset()
					}
					if r.Chance(1, 25) {
						err := write(refusedMsg(v2))
						if err == nil {
							rep.Violation("api="+api+" what=v1ext", "an unencodable message (id outside the dialect / above 255 on v1) was accepted", conf.String())
						}
						if len(rw.all()) != 0 {
							rep.Violation("api="+api+" what=v1ext", "a refused write emitted bytes", vh.Hex(rw.all()))
						}
						refused++
						continue
					}
					if reinit != nil && i%97 == 41 {
						// the writer value stays on its link and is validated once more (nothing changed): the link's numbering goes on
						if err := reinit(); err != nil {
							rep.Violation("api="+api+" what=init:valid", "a second Initialize of a valid writer was refused: "+err.Error(), conf.String())
						}
						rep.Count("writers_initialized_again_on_their_link", 1)
					}
					m, mi := randMsg(v2, api == "streamwriter" && r.Chance(1, 3))
					if i%53 == 17 {
						// the transport takes the whole frame and then reports a network error (a mirror socket refused, the error of an
						// earlier datagram): the frame is on the link with its number, the next frame must not repeat it. When nothing was
						// taken the number may be spent (a refused write)
						nerrs := []error{&net.OpError{Op: "write", Net: "udp", Err: syscall.ECONNREFUSED}, fmt.Errorf("mirror: %w", os.ErrDeadlineExceeded), net.ErrClosed, errors.New("plain failure")}
						rw.failAt, rw.failMode, rw.err = 1, []int{2, 2, 0}[(i/53)%3], nerrs[(i/53)%len(nerrs)]
						err := write(m)
						mode := rw.failMode
						rw.failAt = 0
						if err == nil {
							rep.Violation("api="+api+" what=seq", "a failed transport write was reported as accepted", conf.String())
						}
						rep.Count("transport_write_errors_injected", 1)
						if mode == 2 && len(rw.calls) == 1 {
							rep.Count("frames_delivered_although_the_write_failed", 1)
							var rp []byte
							if raw, isRaw := m.(*message.MessageRaw); isRaw {
								rp = append([]byte{}, raw.Payload...)
							}
							emitted = append(emitted, c09emitted{wire: rw.calls[0], refusedBefore: refused, rawPayload: rp})
						} else {
							refused++
						}
						continue
					}
					var rawPayload []byte
					if raw, isRaw := m.(*message.MessageRaw); isRaw {
						if v2 && r.Chance(1, 2) {
							// not truncated by whoever encoded it: zero tails included (the payload is the application's business)
							val := reflect.New(mi.Type)
							vh.FillMessage(r, mi.Layout, val, vh.ModeZeroTail)
							raw.Payload = mi.Layout.EncodeFull(val, true)
						}
						rawPayload = append([]byte{}, raw.Payload...)
					}
					if err := write(m); err != nil {
						rep.Violation("api="+api+" what=checksum", "a dialect message was refused: "+err.Error(), mi.Name)
						continue
					}
					if len(rw.calls) != 1 {
						rep.Violation("api="+api+" what=version", fmt.Sprintf("one write produced %d transport writes", len(rw.calls)), conf.String())
						continue
					}
					emitted = append(emitted, c09emitted{wire: rw.calls[0], refusedBefore: refused, rawPayload: rawPayload})
				}
			})
			rep.Distinct(conf.String(), api)
			c09checkLink(rep, api, conf, genv, emitted, int(conf.link))
			if !sampled && len(emitted) > 3 {
				sampled = true
				rep.Sample(map[string]interface{}{"api": api, "conf": conf.String(), "items": nItems, "first_frames": []string{vh.Hex(emitted[0].wire), vh.Hex(emitted[1].wire), vh.Hex(emitted[2].wire)}})
			}
		}

		// Node with k channels
		func() {
			k := 1 + r.Intn(6)
			trs := make([]*fake.Transport, k)
			var eps []gomavlib.EndpointConf
			refusedSeqs := []int64{}
			for i := range trs {
				trs[i] = fake.NewTransport(fmt.Sprintf("n%d", i))
				eps = append(eps, gomavlib.EndpointCustom{ReadWriteCloser: trs[i]})
			}
			// the dialect's version number (it travels in the last byte of the node's heartbeats) is 3, or 0 as in the shipped
			// "development" and "icarous" dialects and in every user dialect that leaves it unset
			c09nodeCounter++
			dver := 3
			if c09nodeCounter%2 == 0 {
				dver = 0
				rep.Count("nodes_with_dialect_version_0", 1)
			}
			node := &gomavlib.Node{
				Endpoints:              eps,
				Dialect:                &dialect.Dialect{Version: dver, Messages: dmsgs},
				OutVersion:             gomavlib.Version(conf.version),
				OutSystemID:            conf.sys,
				OutComponentID:         conf.comp,
				OutKey:                 key,
				HeartbeatPeriod:        3 * time.Millisecond,
				HeartbeatSystemType:    2,
				StreamRequestEnable:    true,
				StreamRequestFrequency: 7,
			}
			if err := node.Initialize(); err != nil {
				rep.Violation("api=node what=init:valid", "a valid configuration was refused: "+err.Error(), conf.String())
				return
			}
			chans := make([]*gomavlib.Channel, 0, k)
			for len(chans) < k {
				if o, ok := (<-node.Events()).(*gomavlib.EventChannelOpen); ok {
					chans = append(chans, o.Channel)
				}
			}
			evDone := make(chan struct{})
			go func() {
				for range node.Events() {
				}
				close(evDone)
			}()
			nNode := vh.Pick(500, 3000)
			for i := 0; i < nNode; i++ {
				if r.Chance(1, 30) {
					refusedSeqs = append(refusedSeqs, fake.NextSeq())
					_ = node.WriteMessageAll(refusedMsg(v2))
					continue
				}
				m, _ := randMsg(v2, r.Chance(1, 3))
				switch r.Intn(3) {
				case 0:
					_ = node.WriteMessageAll(m)
				case 1:
					_ = node.WriteMessageTo(chans[r.Intn(k)], m)
				case 2:
					_ = node.WriteMessageExcept(chans[r.Intn(k)], m)
				}
				if i%9 == 4 {
					// a frame forwarded through the node, every third one with the node's OWN system and component id on it (own
					// traffic echoed back to a router, a replayed frame) and any sequence number: the numbering of what the node
					// originates goes on as if nothing had happened
					fs := &ref.FrameSpec{Version: 2, Seq: r.Byte(), Sys: r.Byte(), Comp: r.Byte(), MsgID: c09forwardID, Payload: r.Bytes(1 + r.Intn(20)), Checksum: uint16(r.U64())}
					if i%27 == 4 || i%27 == 13 {
						fs.Sys, fs.Comp = conf.sys, conf.comp
						if fs.Comp == 0 {
							fs.Comp = 1
						}
					}
					switch i % 3 {
					case 0:
						_ = node.WriteFrameAll(toFrame(fs))
					case 1:
						_ = node.WriteFrameTo(chans[r.Intn(k)], toFrame(fs))
					case 2:
						_ = node.WriteFrameExcept(chans[r.Intn(k)], toFrame(fs))
					}
				}
				if i%40 == 7 {
					// an ArduPilot heartbeat from a new system on a random channel triggers 7 stream requests there
					hb := &ref.FrameSpec{Version: 2, Seq: byte(i), Sys: byte(1 + i/40%250), Comp: byte(1 + r.Intn(5)), MsgID: 0,
						Payload: ref.Truncate([]byte{0, 0, 0, 0, 2, 3, 0, 4, 3})}
					ref.Seal(hb, 50, nil)
					trs[r.Intn(k)].Feed(ref.Serialize(hb))
				}
				if i%16 == 15 {
					time.Sleep(300 * time.Microsecond)
				}
			}
			time.Sleep(15 * time.Millisecond)
			node.Close()
			<-evDone
			for ti, tr := range trs {
				var emitted []c09emitted
				for _, w := range tr.Writes() {
					rb := 0
					for _, s := range refusedSeqs {
						if s < w.Seq {
							rb++
						}
					}
					emitted = append(emitted, c09emitted{wire: w.Data, refusedBefore: rb})
				}
				link := -1
				if key != nil {
					// the link's link id: the one on the first frame the node ORIGINATED on it (forwarded frames carry whatever
					// they carry)
					for _, e := range emitted {
						if f, _, st := ref.ParseAt(e.wire, 0); st == ref.ParseOK && f.MsgID != c09forwardID {
							link = int(f.LinkID)
							break
						}
					}
				}
				rep.Distinct(conf.String(), "node", ti)
				rep.Count("node_links", 1)
				c09checkLink(rep, "node", conf, genv, emitted, link)
				// heartbeats and stream requests were part of the stream
				for _, e := range emitted {
					if f, _, st := ref.ParseAt(e.wire, 0); st == ref.ParseOK {
						if f.MsgID == 0 {
							rep.Count("node_heartbeats_seen", 1)
						} else if f.MsgID == 66 {
							rep.Count("node_stream_requests_seen", 1)
						}
					}
				}
			}
		}()
	}

	// two dialects with different definitions of ids 0 and 66 side by side
	c09twins(rep, r, genv)
	c09extEarly(rep, vh.Sub(seed, "c09-extearly"))
	c09oddVersions(rep, vh.Sub(seed, "c09-oddver"), genv, glist, dmsgs)
	// successive links of one endpoint (the link goes down and comes back): every one starts counting at 0; and what the
	// peer sends (its protocol version) has no say in what the node originates
	c09generations(rep, r, genv)
	// one Node value living several lives with another identity / version / key in each of them
	c09lives(rep, r, genv)

	// initialization refusals
	type initCase struct {
		name    string
		version int
		sys     byte
		key     bool
		wantErr bool
	}
	for _, ic := range []initCase{
		{"missing-version", 0, 1, false, true}, {"zero-sysid-v1", 1, 0, false, true}, {"zero-sysid-v2", 2, 0, false, true},
		{"key-with-v1", 1, 1, true, true}, {"missing-version-and-sysid", 0, 0, false, true}, {"missing-version-with-key", 0, 5, true, true},
		{"ok-v1", 1, 1, false, false}, {"ok-v2-key", 2, 255, true, false}, {"ok-v2", 2, 1, false, false},
	} {
		var key *frame.V2Key
		if ic.key {
			key = mkKey(r.Bytes(32))
		}
		rep.Eval(2)
		rep.Count("init_cases", 2)
		fw := &frame.Writer{ByteWriter: &recWriter{}, DialectRW: genv.drw}
		_ = fw.Initialize()
		sw := &streamwriter.Writer{FrameWriter: fw, Version: streamwriter.Version(ic.version), SystemID: ic.sys, Key: key}
		if err := sw.Initialize(); (err != nil) != ic.wantErr {
			rep.Violation("api=streamwriter what=init:"+ic.name, fmt.Sprintf("streamwriter.Writer.Initialize returned %v", err), ic.name)
		}
		// the same stream writer on a frame writer that was built with the deprecated options set (to OTHER values): they
		// belong to the frame writer's own deprecated WriteMessage; the stream writer's configuration is its own fields
		rwD := &recWriter{}
		if fwD, err := frame.NewWriter(frame.WriterConf{Writer: rwD, DialectRW: genv.drw, OutVersion: frame.V1, OutSystemID: 7, OutComponentID: 9}); err == nil {
			swD := &streamwriter.Writer{FrameWriter: fwD, Version: streamwriter.Version(ic.version), SystemID: ic.sys, Key: key}
			err := swD.Initialize()
			if (err != nil) != ic.wantErr {
				rep.Violation("api=streamwriter what=init:"+ic.name, fmt.Sprintf("on a frame writer carrying deprecated options of its own, streamwriter.Writer.Initialize returned %v", err), ic.name)
			} else if err == nil && !ic.key {
				if mi := genv.layouts[0]; mi != nil || true {
					for _, cand := range genv.sorted() {
						if ic.version == 1 && cand.Msg.GetID() > 255 {
							continue
						}
						val := reflect.New(cand.Type)
						vh.FillMessage(r, cand.Layout, val, vh.ModeMixed)
						rwD.reset()
						if swD.Write(val.Interface().(message.Message)) == nil && len(rwD.calls) == 1 {
							c09checkLink(rep, "streamwriter", c09conf{version: ic.version, sys: ic.sys, comp: 0, keyRaw: nil, link: 0}, genv, []c09emitted{{wire: rwD.calls[0]}}, -1)
						}
						break
					}
				}
			}
		}
		tr := fake.NewTransport("init")
		node := &gomavlib.Node{
			Endpoints:  []gomavlib.EndpointConf{gomavlib.EndpointCustom{ReadWriteCloser: tr}},
			Dialect:    common.Dialect,
			OutVersion: gomavlib.Version(ic.version), OutSystemID: ic.sys, OutKey: key, HeartbeatDisable: true,
		}
		err := node.Initialize()
		if (err != nil) != ic.wantErr {
			rep.Violation("api=node what=init:"+ic.name, fmt.Sprintf("Node.Initialize returned %v", err), ic.name)
		}
		if err == nil {
			node.Close()
		}
	}
	if len(highID) == 0 {
		rep.HarnessError("no dialect message with an id above 255 in the pick")
	}
	rep.Floor("originated_frames_node", 2000)
	rep.Floor("node_heartbeats_seen", 50)
	rep.Floor("node_stream_requests_seen", 50)
}

// ---- two dialects that give the same ids different definitions, used side by side in one process ----

type MessageTwinZero struct { // id 0 like HEARTBEAT, another definition
	Alpha uint64
	Beta  uint16
}

func (*MessageTwinZero) GetID() uint32 { return 0 }

type MessageTwinSixtySix struct { // id 66 like REQUEST_DATA_STREAM, another definition
	Gamma [3]uint32
	Delta int8
}

func (*MessageTwinSixtySix) GetID() uint32 { return 66 }

// c09twins interleaves writers (stream writers and nodes) of the main dialect and of the twin dialect; every frame's
// checksum must be the one of its own dialect's definition, whichever dialect used the id first.
// c09oddVersions: version values that are neither 1 nor 2. Whether a writer accepts them is its own business (the statement
// speaks of "the configured protocol version", and these are none); IF it does, every frame it emits is still a frame of
// ONE version: a v2 frame carries the v2 encoding of the message (extensions, zero-truncated), a v1 frame the v1 encoding.
func c09oddVersions(rep *vh.Report, r *vh.RNG, genv *gateEnv, glist []*msgInfo, dmsgs []message.Message) {
	check := func(api string, wire []byte, val reflect.Value, mi *msgInfo) bool {
		f, n, st := ref.ParseAt(wire, 0)
		if st != ref.ParseOK || n != len(wire) {
			rep.Violation("api="+api+" what=version", "a writer configured with an out-of-range version emitted something that is not one whole frame", vh.Hex(wire))
			return false
		}
		if f.MsgID != mi.Msg.GetID() {
			rep.Inconclusive(fmt.Sprintf("C09 out-of-range versions (%s): frame %d where message %d was expected; not judged", api, f.MsgID, mi.Msg.GetID()))
			return false
		}
		want := mi.Layout.Encode(val, f.Version == 2)
		if !bytes.Equal(f.Payload, want) {
			rep.Violation("api="+api+" what=v1ext", fmt.Sprintf("a writer configured with an out-of-range version emitted a v%d frame whose payload is not the v%d encoding of the message (extensions / truncation of the other version)", f.Version, f.Version),
				map[string]interface{}{"msg": mi.Name, "wire": vh.Hex(wire), "want_payload": vh.Hex(want)})
			return false
		}
		return true
	}
	var withExt []*msgInfo
	for _, mi := range glist {
		if mi.Layout.SizeExt > mi.Layout.SizeBase && mi.Msg.GetID() <= 255 {
			withExt = append(withExt, mi)
		}
	}
	if len(withExt) == 0 {
		return
	}
	for _, ver := range []int{3, 0x7F, 255} {
		rw := &recWriter{}
		fw := &frame.Writer{ByteWriter: rw, DialectRW: genv.drw}
		_ = fw.Initialize()
		sw := &streamwriter.Writer{FrameWriter: fw, Version: streamwriter.Version(ver), SystemID: 5, ComponentID: 6}
		if err := sw.Initialize(); err == nil {
			rep.Count("out_of_range_versions_accepted_by_streamwriter", 1)
			for i := 0; i < 40; i++ {
				mi := withExt[r.Intn(len(withExt))]
				val := reflect.New(mi.Type)
				vh.FillMessage(r, mi.Layout, val, vh.ModeMixed)
				rw.reset()
				rep.Eval(1)
				if err := sw.Write(val.Interface().(message.Message)); err != nil {
					continue
				}
				if !check("streamwriter", rw.all(), val, mi) {
					break
				}
			}
		}
		tr := fake.NewTransport("oddver")
		node := &gomavlib.Node{Endpoints: []gomavlib.EndpointConf{gomavlib.EndpointCustom{ReadWriteCloser: tr}}, Dialect: &dialect.Dialect{Version: 3, Messages: dmsgs},
			OutVersion: gomavlib.Version(ver), OutSystemID: 5, HeartbeatDisable: true}
		if err := node.Initialize(); err != nil {
			continue
		}
		rep.Count("out_of_range_versions_accepted_by_node", 1)
		evCh := node.Events()
		for {
			if _, ok := (<-evCh).(*gomavlib.EventChannelOpen); ok {
				break // (a write issued before the channel is open reaches nobody)
			}
		}
		drained := make(chan struct{})
		go func() {
			defer close(drained)
			for range evCh {
			}
		}()
		var vals []reflect.Value
		var mis []*msgInfo
		for i := 0; i < 30; i++ {
			mi := withExt[r.Intn(len(withExt))]
			val := reflect.New(mi.Type)
			vh.FillMessage(r, mi.Layout, val, vh.ModeMixed)
			vals, mis = append(vals, val), append(mis, mi)
			cp := reflect.New(mi.Type)
			cp.Elem().Set(val.Elem())
			_ = node.WriteMessageAll(cp.Interface().(message.Message))
		}
		tr.WaitWrites(len(vals), time.Second)
		node.Close()
		<-drained
		for i, w := range tr.Writes() {
			rep.Eval(1)
			if i >= len(vals) || !check("node", w.Data, vals[i], mis[i]) {
				break
			}
		}
	}
}

// c09extEarly: v1 output of a struct whose Go declaration has an extension field before a regular one.
func c09extEarly(rep *vh.Report, r *vh.RNG) {
	lay, err := ref.LayoutOf(reflect.TypeOf(MessageVfExtEarly{}))
	if err != nil {
		rep.HarnessError("C09 ext-early: " + err.Error())
		return
	}
	genv, err := newGateEnv([]*msgInfo{{Name: "user.MessageVfExtEarly", Msg: &MessageVfExtEarly{}, Type: reflect.TypeOf(MessageVfExtEarly{}), Layout: lay}})
	if err != nil {
		rep.Observe("C09 ext-early: the library refuses the struct: " + err.Error())
		return
	}
	for _, api := range []string{"streamwriter", "framewriter"} {
		rw := &recWriter{}
		var write func(m message.Message) error
		if api == "streamwriter" {
			fw := &frame.Writer{ByteWriter: rw, DialectRW: genv.drw}
			_ = fw.Initialize()
			sw := &streamwriter.Writer{FrameWriter: fw, Version: streamwriter.V1, SystemID: 5, ComponentID: 6}
			if err := sw.Initialize(); err != nil {
				rep.HarnessError(err.Error())
				return
			}
			write = sw.Write
		} else {
			fw := &frame.Writer{ByteWriter: rw, DialectRW: genv.drw, OutVersion: frame.V1, OutSystemID: 5, OutComponentID: 6}
			_ = fw.Initialize()
			write = fw.WriteMessage
		}
		for i := 0; i < 64; i++ {
			m := &MessageVfExtEarly{A: 1 + r.Byte()%250, X: 1 + r.Byte()%250, B: 1 + r.Byte()%250}
			rw.reset()
			rep.Eval(1)
			rep.Count("v1_frames_of_a_struct_with_an_early_extension", 1)
			if err := write(m); err != nil {
				rep.Violation("api="+api+" what=v1ext", "a struct with an extension declared before a regular field was refused on v1: "+err.Error(), nil)
				break
			}
			f, _, st := ref.ParseAt(rw.all(), 0)
			if st != ref.ParseOK || f.Version != 1 || !bytes.Equal(f.Payload, []byte{m.A, m.B}) {
				rep.Violation("api="+api+" what=v1ext", fmt.Sprintf("v1 payload of {A:%d X(ext):%d B:%d} is %v: it must carry the regular fields only (A, B)", m.A, m.X, m.B, f.Payload), vh.Hex(rw.all()))
				break
			}
			if f.Checksum != ref.ChecksumOfWire(rw.all(), lay.CRCExtra) {
				rep.Violation("api="+api+" what=checksum", "checksum is not correct for the message's CRC_EXTRA (extension declared early)", vh.Hex(rw.all()))
				break
			}
		}
	}
}

func c09twins(rep *vh.Report, r *vh.RNG, main *gateEnv) {
	var twinInfos []*msgInfo
	for _, m := range []message.Message{&MessageTwinZero{}, &MessageTwinSixtySix{}} {
		mi := &msgInfo{Name: "twin." + reflect.TypeOf(m).Elem().Name(), Msg: m, Type: reflect.TypeOf(m).Elem()}
		l, err := ref.LayoutOf(mi.Type)
		if err != nil {
			rep.HarnessError(err.Error())
			return
		}
		mi.Layout = l
		twinInfos = append(twinInfos, mi)
	}
	twin, err := newGateEnv(twinInfos)
	if err != nil {
		rep.Violation("api=streamwriter what=init:valid", "a dialect that re-defines ids 0 and 66 was refused: "+err.Error(), nil)
		return
	}
	for _, mi := range twinInfos {
		if m := main.layouts[mi.Msg.GetID()]; m == nil || m.Layout.CRCExtra == mi.Layout.CRCExtra {
			rep.HarnessError("twin dialect: id not in the main dialect or same CRC_EXTRA")
			return
		}
	}
	envs := []*gateEnv{main, twin}
	names := []string{"main", "twin"}
	conf := c09conf{version: 2, sys: 11, comp: 22}
	// stream writers: one per dialect, raw and decoded items of ids 0 and 66 in alternation; the id is used first by the
	// main dialect for 0 and first by the twin for 66
	type link struct {
		rw      *recWriter
		sw      *streamwriter.Writer
		emitted []c09emitted
	}
	links := make([]*link, 2)
	for i, env := range envs {
		rw := &recWriter{}
		fw := &frame.Writer{ByteWriter: rw, DialectRW: env.drw}
		_ = fw.Initialize()
		sw := &streamwriter.Writer{FrameWriter: fw, Version: streamwriter.V2, SystemID: conf.sys, ComponentID: conf.comp}
		if err := sw.Initialize(); err != nil {
			rep.HarnessError(err.Error())
			return
		}
		links[i] = &link{rw: rw, sw: sw}
	}
	write := func(li int, id uint32, raw bool) {
		env, l := envs[li], links[li]
		mi := env.layouts[id]
		val := reflect.New(mi.Type)
		vh.FillMessage(r, mi.Layout, val, vh.ModeMixed)
		var m message.Message = val.Interface().(message.Message)
		if raw {
			m = &message.MessageRaw{ID: id, Payload: mi.Layout.Encode(val, true)}
		}
		l.rw.reset()
		if err := l.sw.Write(m); err != nil {
			rep.Violation("api=streamwriter what=checksum", fmt.Sprintf("the %s dialect's writer refused a message of its own dialect (id %d) while another dialect defining that id is in use: %v", names[li], id, err), nil)
			return
		}
		if len(l.rw.calls) == 1 {
			l.emitted = append(l.emitted, c09emitted{wire: l.rw.calls[0]})
		}
	}
	for round := 0; round < 40; round++ {
		raw := round%2 == 0
		write(0, 0, raw) // main uses id 0 first
		write(1, 0, raw)
		write(1, 66, raw) // twin uses id 66 first
		write(0, 66, raw)
		write(1, 0, !raw)
		write(0, 66, !raw)
	}
	for i := range envs {
		c09checkLink(rep, "streamwriter", conf, envs[i], links[i].emitted, -1)
		rep.Count("twin_dialect_frames_"+names[i], len(links[i].emitted))
	}
	// nodes: one per dialect, alive at the same time, application messages of both ids
	type nl struct {
		node *gomavlib.Node
		tr   *fake.Transport
	}
	var nodes []nl
	for i, env := range envs {
		var dmsgs []message.Message
		for _, mi := range env.sorted() {
			dmsgs = append(dmsgs, mi.Msg)
		}
		tr := fake.NewTransport("twin-" + names[i])
		node := &gomavlib.Node{Endpoints: []gomavlib.EndpointConf{gomavlib.EndpointCustom{ReadWriteCloser: tr}}, Dialect: &dialect.Dialect{Version: 3, Messages: dmsgs},
			OutVersion: gomavlib.V2, OutSystemID: conf.sys, OutComponentID: conf.comp, HeartbeatDisable: true}
		if err := node.Initialize(); err != nil {
			rep.Violation("api=node what=init:valid", "a valid configuration was refused: "+err.Error(), names[i])
			return
		}
		go func() {
			for range node.Events() {
			}
		}()
		nodes = append(nodes, nl{node, tr})
	}
	for round := 0; round < 30; round++ {
		for _, step := range [][2]int{{1, 0}, {0, 0}, {0, 66}, {1, 66}} { // here the twin uses id 0 first and the main dialect id 66
			env := envs[step[0]]
			mi := env.layouts[uint32(step[1])]
			val := reflect.New(mi.Type)
			vh.FillMessage(r, mi.Layout, val, vh.ModeMixed)
			_ = nodes[step[0]].node.WriteMessageAll(val.Interface().(message.Message))
		}
		time.Sleep(200 * time.Microsecond)
	}
	for i, n := range nodes {
		n.tr.WaitWrites(60, 500*time.Millisecond)
		n.node.Close()
		var emitted []c09emitted
		for _, w := range n.tr.Writes() {
			emitted = append(emitted, c09emitted{wire: w.Data})
		}
		c09checkLink(rep, "node", conf, envs[i], emitted, -1)
		rep.Count("twin_dialect_node_frames_"+names[i], len(emitted))
	}
	rep.Distinct("twin-dialects")
}

// c09lives: the same Node value is closed, its Out* fields are changed in place, and it is initialised again (an application
// that reconfigures its link layer): what it originates in each life carries that life's identity, version and signature.
func c09lives(rep *vh.Report, r *vh.RNG, genv *gateEnv) {
	var dmsgs []message.Message
	var low []*msgInfo
	for _, mi := range genv.sorted() {
		dmsgs = append(dmsgs, mi.Msg)
		if mi.Msg.GetID() <= 255 {
			low = append(low, mi)
		}
	}
	if len(low) == 0 {
		return
	}
	node := &gomavlib.Node{Dialect: &dialect.Dialect{Version: 3, Messages: dmsgs}, HeartbeatDisable: true}
	lives := []c09conf{{version: 2, sys: 10, comp: 0}, {version: 1, sys: 22, comp: 7}, {version: 2, sys: 33, comp: 9, keyRaw: r.Bytes(32), link: 0}, {version: 2, sys: 44, comp: 0}, {version: 1, sys: 10, comp: 3}}
	for li, conf := range lives {
		tr := fake.NewTransport(fmt.Sprintf("life%d", li))
		node.Endpoints = []gomavlib.EndpointConf{gomavlib.EndpointCustom{ReadWriteCloser: tr}}
		node.OutVersion, node.OutSystemID, node.OutComponentID = gomavlib.Version(conf.version), conf.sys, conf.comp
		node.OutKey = nil
		if conf.keyRaw != nil {
			node.OutKey = mkKey(conf.keyRaw)
		}
		if err := node.Initialize(); err != nil {
			rep.Violation("api=node what=init:valid", fmt.Sprintf("life %d of a node value (%s) was refused: %v", li+1, conf.String(), err), nil)
			return
		}
		for {
			if _, ok := (<-node.Events()).(*gomavlib.EventChannelOpen); ok {
				break
			}
		}
		evCh := node.Events() // (read once, here: the next life's Initialize replaces the channel in the same Node value)
		drained := make(chan struct{})
		go func() {
			defer close(drained)
			for range evCh {
			}
		}()
		n := 40
		for i := 0; i < n; i++ {
			mi := low[r.Intn(len(low))]
			val := reflect.New(mi.Type)
			vh.FillMessage(r, mi.Layout, val, vh.ModeMixed)
			_ = node.WriteMessageAll(val.Interface().(message.Message))
			if i%16 == 15 {
				tr.WaitWrites(i+1, time.Second)
			}
		}
		tr.WaitWrites(n, time.Second)
		node.Close()
		<-drained
		var emitted []c09emitted
		for _, w := range tr.Writes() {
			emitted = append(emitted, c09emitted{wire: w.Data})
		}
		link := -1
		if conf.keyRaw != nil && len(emitted) > 0 {
			if f, _, st := ref.ParseAt(emitted[0].wire, 0); st == ref.ParseOK {
				link = int(f.LinkID)
			}
		}
		rep.Count("node_value_lives", 1)
		rep.Distinct("lives", li)
		if len(emitted) < n {
			rep.Observe(fmt.Sprintf("c09 lives: life %d (%s) emitted %d of %d", li+1, conf.String(), len(emitted), n))
		}
		if len(emitted) == 0 {
			rep.Violation("api=node what=version", fmt.Sprintf("life %d of a node value (%s) originated nothing", li+1, conf.String()), nil)
			continue
		}
		c09checkLink(rep, "node", conf, genv, emitted, link)
	}
}

var errC09Session = errors.New("link went down")

// c09generations: one custom endpoint whose link fails and is re-established several times; in each generation the node
// originates more than 256 frames (and the peer sends v1 and v2 frames of its own). Each generation is a link of its own.
func c09generations(rep *vh.Report, r *vh.RNG, genv *gateEnv) {
	var dmsgs []message.Message
	for _, mi := range genv.sorted() {
		dmsgs = append(dmsgs, mi.Msg)
	}
	for _, version := range []int{2, 1} {
		conf := c09conf{version: version, sys: 77, comp: 5}
		tr := fake.NewTransport("gen")
		node := &gomavlib.Node{Endpoints: []gomavlib.EndpointConf{gomavlib.EndpointCustom{ReadWriteCloser: tr}}, Dialect: &dialect.Dialect{Version: 3, Messages: dmsgs},
			OutVersion: gomavlib.Version(version), OutSystemID: conf.sys, OutComponentID: conf.comp, HeartbeatDisable: true}
		if err := node.Initialize(); err != nil {
			rep.Violation("api=node what=init:valid", "a valid configuration was refused: "+err.Error(), conf.String())
			return
		}
		opens, closes := make(chan *gomavlib.Channel, 16), make(chan struct{}, 16)
		evDone := make(chan struct{})
		go func() {
			defer close(evDone)
			for e := range node.Events() {
				switch ev := e.(type) {
				case *gomavlib.EventChannelOpen:
					opens <- ev.Channel
				case *gomavlib.EventChannelClose:
					closes <- struct{}{}
				}
			}
		}()
		v2 := version == 2
		written := 0
		var bounds []int
		for gen := 0; gen < 5; gen++ {
			var ch *gomavlib.Channel
			select {
			case ch = <-opens:
			case <-time.After(3 * time.Second):
				rep.Inconclusive("C09 generations: the endpoint did not provide its next channel")
				gen = 99
				continue
			}
			// the peer talks too, in both protocol versions
			hb := &ref.FrameSpec{Version: 1 + gen%2, Seq: byte(gen), Sys: 3, Comp: 1, MsgID: 0, Payload: []byte{0, 0, 0, 0, 2, 12, 0, 4, 3}}
			if hb.Version == 2 {
				hb.Payload = ref.Truncate(hb.Payload)
			}
			ref.Seal(hb, 50, nil)
			tr.Feed(ref.Serialize(hb))
			n := 260 + r.Intn(80)
			for i := 0; i < n; i++ {
				mi := genv.sorted()[r.Intn(len(genv.sorted()))]
				for !v2 && mi.Msg.GetID() > 255 {
					mi = genv.sorted()[r.Intn(len(genv.sorted()))]
				}
				val := reflect.New(mi.Type)
				vh.FillMessage(r, mi.Layout, val, vh.ModeMixed)
				if i%2 == 0 {
					_ = node.WriteMessageAll(val.Interface().(message.Message))
				} else {
					_ = node.WriteMessageTo(ch, val.Interface().(message.Message))
				}
				if i%32 == 31 {
					tr.WaitWrites(written+i+1, 2*time.Second)
				}
				if i == n/2 {
					tr.Feed(ref.Serialize(hb)) // once more in mid-stream
				}
			}
			written += n
			if got := tr.WaitWrites(written, 2*time.Second); got != written {
				// fewer frames than accepted writes: what did come out is still judged (below); the shortfall itself is
				// C11's business (nothing is dropped below the queue bound) and is only noted here
				rep.Observe(fmt.Sprintf("C09 generations: %d of %d accepted writes came out on the link (see property C11)", got, written))
				bounds = append(bounds, got)
				break
			}
			bounds = append(bounds, written)
			tr.FeedError(errC09Session)
			select {
			case <-closes:
			case <-time.After(3 * time.Second):
				rep.Inconclusive("C09 generations: no close event after the link went down")
				gen = 99
			}
		}
		node.Close()
		<-evDone
		ws := tr.Writes()
		start := 0
		for gi, end := range bounds {
			if end > len(ws) {
				break
			}
			var emitted []c09emitted
			for _, w := range ws[start:end] {
				emitted = append(emitted, c09emitted{wire: w.Data})
			}
			rep.Distinct(conf.String(), "node-generation", gi)
			rep.Count("node_link_generations", 1)
			c09checkLink(rep, "node", conf, genv, emitted, -1)
			start = end
		}
	}
}
