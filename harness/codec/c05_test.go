package codec

import (
	"bufio"
	"bytes"
	"errors"
	"fmt"
	"io"
	"reflect"
	"runtime/debug"
	"sync"
	"testing"

	"github.com/bluenviron/gomavlib/v3/pkg/dialect"
	"github.com/bluenviron/gomavlib/v3/pkg/frame"
	"github.com/bluenviron/gomavlib/v3/pkg/message"
	"github.com/bluenviron/gomavlib/v3/pkg/tlog"

	"verifharness/ref"
	"verifharness/vh"
)

// C05 — the frame reader is total, makes progress and resynchronises on arbitrary streams.

var errInjected = errors.New("injected transport error")

var errWrappedEOF = fmt.Errorf("tunnel closed by peer: %w", io.EOF)

// c05netErr is a transport error of a type of its own that reports itself as an end of stream to errors.Is.
type c05netErr struct{}

func (*c05netErr) Error() string        { return "link layer: stream ended" }
func (*c05netErr) Is(target error) bool { return target == io.EOF }

// scriptReader serves a byte stream in prescribed pieces and counts what it delivered.
type scriptReader struct {
	data      []byte
	pos       int
	cuts      []int // ascending positions at which a read ends (besides the end of data)
	ci        int
	every     int // if > 0: fixed chunk size instead of cuts
	errAt     int // position at which an error is injected (-1: never)
	errFired  bool
	errSticky bool
	errVal    error // the error injected at errAt (nil: errInjected)
	reads     int
	// idleN > 0: at position idleAt the transport returns (0, nil) idleN times in a row (an idle link that was opened with
	// a read timeout, a misbehaving wrapper) before it goes on
	idleAt, idleN, idled int
}

func (s *scriptReader) Read(p []byte) (int, error) {
	s.reads++
	if s.idleN > 0 && s.pos == s.idleAt && s.idled < s.idleN {
		s.idled++
		return 0, nil
	}
	if s.errAt >= 0 && s.pos == s.errAt && (!s.errFired || s.errSticky) {
		s.errFired = true
		if s.errVal != nil {
			return 0, s.errVal
		}
		return 0, errInjected
	}
	if s.pos >= len(s.data) {
		return 0, io.EOF
	}
	end := len(s.data)
	if s.every > 0 {
		if s.pos+s.every < end {
			end = s.pos + s.every
		}
	} else {
		for s.ci < len(s.cuts) && s.cuts[s.ci] <= s.pos {
			s.ci++
		}
		if s.ci < len(s.cuts) && s.cuts[s.ci] < end {
			end = s.cuts[s.ci]
		}
	}
	if s.errAt > s.pos && s.errAt < end {
		end = s.errAt
	}
	n := end - s.pos
	if n > len(p) {
		n = len(p)
	}
	copy(p, s.data[s.pos:s.pos+n])
	s.pos += n
	return n, nil
}

type rdResult struct {
	class      int // 0 frame, 1 parse error, 2 transport error
	desc       string
	start, end int
	fr         frame.Frame
}

type c05env struct {
	bufSize int // > 0: size of a caller-supplied bufio.Reader
	rep     *vh.Report
	drw     *dialect.ReadWriter
	layouts map[uint32]*msgInfo
	key     *frame.V2Key
	keyRaw  []byte
}

func descFrame(fr frame.Frame) string {
	s := fromFrame(fr)
	m := frameMessage(fr)
	if _, raw := m.(*message.MessageRaw); raw {
		return fmt.Sprintf("F%v", specJSON(s))
	}
	return fmt.Sprintf("F%v msg=%T%+v", specJSON(s), m, m)
}

// run reads the whole stream through a real frame.Reader, with byte accounting around every call.
// faulty: a transport error is injected (then only totality, classification and progress are asserted).
func (e *c05env) run(stream []byte, sr *scriptReader, tag string) (res []rdResult, ok bool) {
	ok = true
	defer func() {
		if r := recover(); r != nil {
			ok = false
			e.rep.Violation("what=panic", fmt.Sprintf("frame.Reader panicked: %v", r),
				map[string]interface{}{"stream": vh.Hex(stream), "chunking": tag, "stack": string(debug.Stack())})
		}
	}()
	rd := &frame.Reader{ByteReader: sr, DialectRW: e.drw, InKey: e.key}
	var own *bufio.Reader
	if e.bufSize > 0 {
		// the caller supplies its own (small) buffered reader through the public BufByteReader field
		own = bufio.NewReaderSize(sr, e.bufSize)
		rd = &frame.Reader{BufByteReader: own, DialectRW: e.drw, InKey: e.key}
	}
	if err := rd.Initialize(); err != nil {
		e.rep.HarnessError("reader init: " + err.Error())
		return nil, false
	}
	// (with a caller-supplied buffered reader the bytes are counted where the caller sees them: on its own reader, which
	// it may go on using itself or hand to another consumer between two frames)
	consumed := func() int {
		if own != nil {
			return sr.pos - own.Buffered()
		}
		return sr.pos - rd.BufByteReader.Buffered()
	}
	maxCalls := len(stream) + 1
	if sr.errAt >= 0 {
		maxCalls++ // one extra call reports the injected error
	}
	maxCalls += sr.idleN/100 + 1
	for calls := 1; ; calls++ {
		before := consumed()
		fr, err := rd.Read()
		after := consumed()
		e.rep.Count("read_calls", 1)
		r := rdResult{start: before, end: after, fr: fr}
		var re frame.ReadError
		switch {
		case err == nil && fr != nil:
			r.class = 0
			r.desc = descFrame(fr)
		case err != nil && errors.As(err, &re):
			r.class = 1
			r.desc = "E:" + err.Error()
		case err == io.EOF || err == errInjected || (sr.errVal != nil && err == sr.errVal) || (err == io.ErrNoProgress && sr.idleN > 0):
			// (io.ErrNoProgress is what the buffered reader makes of a transport that keeps returning nothing: the transport's doing)
			r.class = 2
			r.desc = "T:" + err.Error()
		default:
			ok = false
			e.rep.Violation("what=class", fmt.Sprintf("Read returned neither a frame, a frame.ReadError nor the transport's own error: (%v, %v)", fr, err),
				map[string]interface{}{"stream": vh.Hex(stream), "chunking": tag})
			return res, ok
		}
		if err == io.EOF && sr.pos < len(sr.data) && sr.errVal != nil && sr.errVal != io.EOF {
			ok = false
			e.rep.Violation("what=class", fmt.Sprintf("the transport failed with its own error value (%T: %v) and Read returned the bare io.EOF sentinel instead", sr.errVal, sr.errVal),
				map[string]interface{}{"stream": vh.Hex(stream), "chunking": tag})
			return res, ok
		}
		res = append(res, r)
		if r.class != 2 && after-before < 1 {
			ok = false
			e.rep.Violation("what=progress", "a call that did not report a transport error consumed no byte",
				map[string]interface{}{"stream": vh.Hex(stream), "chunking": tag, "call": calls, "result": r.desc, "consumed_before": before})
			return res, ok
		}
		if r.class == 2 {
			if err == io.EOF && sr.pos >= len(sr.data) {
				break // the real end of the stream (an io.EOF injected earlier was the transport's one-off answer)
			}
			if sr.errSticky {
				break
			}
		}
		if calls > maxCalls {
			ok = false
			e.rep.Violation("what=calls", fmt.Sprintf("stream of %d bytes not exhausted after %d calls", len(stream), calls),
				map[string]interface{}{"stream": vh.Hex(stream), "chunking": tag})
			return res, ok
		}
	}
	return res, ok
}

// frameBytes checks that a returned frame corresponds exactly to the bytes consumed by its call.
func (e *c05env) frameBytes(stream []byte, r *rdResult, tag string) {
	got := fromFrame(r.fr)
	seg := stream[r.start:r.end]
	wit := func() interface{} {
		return map[string]interface{}{"stream": vh.Hex(stream), "chunking": tag, "consumed": []int{r.start, r.end}, "frame": r.desc}
	}
	f, n, st := ref.ParseAt(seg, 0)
	if st != ref.ParseOK || n != len(seg) {
		e.rep.Violation("what=framebytes", "the bytes consumed for a returned frame are not exactly one frame", wit())
		return
	}
	m := frameMessage(r.fr)
	if _, raw := m.(*message.MessageRaw); raw {
		if ok, diff := specEqual(f, got); !ok {
			e.rep.Violation("what=framebytes", "returned frame differs from the bytes consumed for it ("+diff+")", wit())
		}
		return
	}
	// decoded message: header equal, value = reference decode of the consumed payload,
	// checksum = carried one, or the one of the zero-stripped payload (documented v2 normalisation)
	mi := e.layouts[f.MsgID]
	if mi == nil {
		e.rep.Violation("what=framebytes", "decoded message for an id outside the dialect", wit())
		return
	}
	hdr := *f
	hdr.Payload = nil
	hdr.Checksum = got.Checksum
	if ok, diff := specEqual(&hdr, got); !ok {
		e.rep.Violation("what=framebytes", "returned frame differs from the bytes consumed for it ("+diff+")", wit())
		return
	}
	want, err := mi.Layout.Decode(f.Payload, f.Version == 2)
	if err != nil || reflect.TypeOf(m) != want.Type() {
		e.rep.Violation("what=framebytes", "returned message cannot be the decoding of the consumed payload", wit())
		return
	}
	if eq, diff := mi.Layout.BitEqual(reflect.ValueOf(m), want); !eq {
		e.rep.Violation("what=framebytes", "returned message differs from the consumed payload in field "+diff, wit())
		return
	}
	if got.Checksum != f.Checksum {
		st := *f
		st.Payload = ref.Truncate(f.Payload)
		if f.Version != 2 || got.Checksum != ref.ChecksumOfWire(ref.Serialize(&st), mi.Layout.CRCExtra) {
			e.rep.Violation("what=framebytes", "returned checksum is neither the carried one nor that of the zero-stripped payload", wit())
		}
	}
}

func sameResults(a, b []rdResult) (bool, int) {
	n := len(a)
	if len(b) < n {
		n = len(b)
	}
	for i := 0; i < n; i++ {
		if a[i].class != b[i].class || a[i].desc != b[i].desc || a[i].start != b[i].start || a[i].end != b[i].end {
			return false, i
		}
	}
	if len(a) != len(b) {
		return false, n
	}
	return true, -1
}

// check runs a stream under several chunkings and compares.
func (e *c05env) check(stream []byte, r *vh.RNG, allSegs bool) []rdResult {
	e.rep.Eval(1)
	whole, ok := e.run(stream, &scriptReader{data: stream, errAt: -1}, "whole")
	if !ok {
		return whole
	}
	for i := range whole {
		if whole[i].class == 0 {
			e.rep.Count("frames_returned", 1)
			e.frameBytes(stream, &whole[i], "whole")
		} else if whole[i].class == 1 {
			e.rep.Count("parse_errors_returned", 1)
		}
	}
	cmp := func(sr *scriptReader, tag string) {
		e.rep.Count("chunkings", 1)
		other, ok := e.run(stream, sr, tag)
		if !ok {
			return
		}
		if same, at := sameResults(whole, other); !same {
			var a, b string
			if at < len(whole) {
				a = whole[at].desc
			}
			if at < len(other) {
				b = other[at].desc
			}
			e.rep.Violation("what=chunking", "the sequence of results depends on how the stream is split into transport reads",
				map[string]interface{}{"stream": vh.Hex(stream), "chunking": tag, "cuts": sr.cuts, "every": sr.every, "first_difference_at_result": at, "whole": a, "split": b})
		}
	}
	cmp(&scriptReader{data: stream, every: 1, errAt: -1}, "1-byte")
	if len(stream) > 2 {
		var cuts []int
		for i := 1; i < len(stream); i++ {
			if r.Chance(1, 3) {
				cuts = append(cuts, i)
			}
		}
		cmp(&scriptReader{data: stream, cuts: cuts, errAt: -1}, "random")
	}
	if allSegs && len(stream) >= 2 && len(stream) <= 14 {
		n := len(stream) - 1
		for mask := 1; mask < (1<<uint(n))-1; mask++ {
			var cuts []int
			for i := 0; i < n; i++ {
				if mask&(1<<uint(i)) != 0 {
					cuts = append(cuts, i+1)
				}
			}
			cmp(&scriptReader{data: stream, cuts: cuts, errAt: -1}, "segmentation")
		}
		e.rep.Count("streams_with_all_segmentations", 1)
	}
	return whole
}

// idles lets the transport return nothing, k times in a row, at frame boundaries and inside frames. Totality, result
// classes and progress hold as ever (an idle stretch is not a parse error that consumes nothing); with the idle stretch at
// a frame boundary every frame of a clean stream is still returned.
func (e *c05env) idles(stream []byte, frames []*ref.FrameSpec, r *vh.RNG) {
	var bounds []int
	off := 0
	for _, f := range frames {
		w := ref.Serialize(f)
		idx := bytes.Index(stream[off:], w)
		if idx < 0 {
			return
		}
		bounds = append(bounds, off+idx, off+idx+len(w))
		off += idx + len(w)
	}
	for _, n := range []int{1, 7, 99, 100, 101, 250} {
		at := bounds[r.Intn(len(bounds))]
		e.rep.Eval(1)
		e.rep.Count("idle_transport_runs", 1)
		res, ok := e.run(stream, &scriptReader{data: stream, errAt: -1, every: 64, idleAt: at, idleN: n}, fmt.Sprintf("idle x%d @%d (frame boundary)", n, at))
		if ok {
			e.completeness(stream, frames, res)
		}
		mid := r.Intn(len(stream) + 1)
		e.rep.Eval(1)
		_, _ = e.run(stream, &scriptReader{data: stream, errAt: -1, every: 64, idleAt: mid, idleN: n}, fmt.Sprintf("idle x%d @%d", n, mid))
	}
	// a transport that answers with an error once, at a frame boundary, and then goes on delivering (a log file that is
	// still growing reports io.EOF until more has been written; a one-off I/O error): the error is passed on, and the
	// frames that arrive afterwards are returned like any others
	// (the transport's own error value is what comes back: also one that merely WRAPS io.EOF - a tunnel's "peer closed: EOF")
	for _, ev := range []error{io.EOF, errInjected, errWrappedEOF, &c05netErr{}} {
		at := bounds[r.Intn(len(bounds))]
		if at >= len(stream) {
			at = bounds[0]
		}
		e.rep.Eval(1)
		e.rep.Count("transient_error_at_boundary_runs", 1)
		res, ok := e.run(stream, &scriptReader{data: stream, errAt: at, errVal: ev, every: 64}, fmt.Sprintf("transient %v @%d (frame boundary)", ev, at))
		if ok {
			var kept []rdResult
			for _, x := range res {
				if x.class != 2 {
					kept = append(kept, x)
				}
			}
			e.completeness(stream, frames, kept)
		}
	}
}

// faults injects a transport error at every byte offset (transient and persistent).
func (e *c05env) faults(stream []byte) {
	for off := 0; off <= len(stream); off++ {
		for _, sticky := range []bool{false, true} {
			e.rep.Eval(1)
			e.rep.Count("fault_runs", 1)
			res, ok := e.run(stream, &scriptReader{data: stream, errAt: off, errSticky: sticky, every: 97}, fmt.Sprintf("fault@%d sticky=%v", off, sticky))
			if !ok {
				continue
			}
			// the injected error must surface as such at some point (never silently swallowed as EOF)
			seen := false
			for _, r := range res {
				if r.class == 2 && r.desc == "T:"+errInjected.Error() {
					seen = true
				}
				if r.class == 1 && bytes.Contains([]byte(r.desc), []byte(errInjected.Error())) {
					seen = true // met in the middle of a frame: reported inside a parse error
				}
			}
			if !seen {
				e.rep.Violation("what=class", "an injected transport error was never reported (neither as itself nor inside a parse error)",
					map[string]interface{}{"stream": vh.Hex(stream), "offset": off, "sticky": sticky})
			}
		}
	}
}

// ---- stream grammar ----

type c05gen struct {
	r      *vh.RNG
	env    *c05env
	msgs   []*msgInfo
	tsNext uint64
}

func (g *c05gen) validFrame() (*ref.FrameSpec, []byte) {
	r := g.r
	version := 1 + r.Intn(2)
	if g.env.key != nil {
		version = 2
	}
	var s *ref.FrameSpec
	if g.env.drw != nil && r.Chance(2, 3) {
		mi := g.msgs[r.Intn(len(g.msgs))]
		for version == 1 && mi.Msg.GetID() > 255 {
			mi = g.msgs[r.Intn(len(g.msgs))]
		}
		form := 0
		if version == 2 {
			form = r.Intn(3)
		}
		signed := g.env.key != nil || (version == 2 && r.Chance(1, 5))
		s, _ = validFrame(r, mi, version, form, signed, g.env.keyRaw)
	} else {
		s = c01random(r, c01cfg{version: version, signed: g.env.key != nil || (version == 2 && r.Chance(1, 5))})
		if g.env.drw != nil {
			for g.env.drw.GetMessage(s.MsgID) != nil {
				s.MsgID = (s.MsgID + 7) & 0xFF
			}
		}
	}
	if s.Signed {
		g.tsNext += uint64(r.Intn(1000))
		s.Timestamp = g.tsNext
		crc := byte(0)
		if mi := g.env.layouts[s.MsgID]; mi != nil {
			crc = mi.Layout.CRCExtra
		}
		if g.env.layouts[s.MsgID] != nil {
			ref.Seal(s, crc, g.env.keyRaw)
		} else if g.env.keyRaw != nil {
			s.Signature = ref.SignatureOfWire(g.env.keyRaw, ref.Serialize(s))
		}
	}
	return s, ref.Serialize(s)
}

func (g *c05gen) junk(markers bool) []byte {
	n := 1 + g.r.Intn(40)
	if g.r.Chance(1, 10) {
		n = 300 + g.r.Intn(400)
	}
	b := g.r.Bytes(n)
	for i := range b {
		if !markers && (b[i] == 0xFD || b[i] == 0xFE) {
			b[i] = byte(i)
			if b[i] == 0xFD || b[i] == 0xFE {
				b[i] = 0x11
			}
		}
	}
	return b
}

// cleanStream: valid frames optionally separated by non-marker junk. Returns the frames expected.
func (g *c05gen) cleanStream(maxLen int) ([]byte, []*ref.FrameSpec) {
	var out []byte
	var frames []*ref.FrameSpec
	n := 1 + g.r.Intn(12)
	for i := 0; i < n; i++ {
		if g.r.Chance(1, 3) {
			out = append(out, g.junk(false)...)
		}
		if g.env.key != nil && g.r.Chance(1, 4) && len(out) < maxLen-300 {
			// a complete frame of the other protocol version, or a complete unsigned v2 frame: rejected by a reader that
			// demands signatures, as a unit - the authenticated frames that follow are still returned. Marker bytes inside
			// it (sequence number 0xFD, payload bytes) are part of that frame.
			ver := 1 + g.r.Intn(2)
			u := c01random(g.r, c01cfg{version: ver})
			if g.env.drw != nil {
				for g.env.drw.GetMessage(u.MsgID) != nil {
					u.MsgID = (u.MsgID + 7) & 0xFF
				}
			}
			switch g.r.Intn(3) {
			case 0:
				u.Seq = 0xFD
			case 1:
				if len(u.Payload) > 0 {
					u.Payload[g.r.Intn(len(u.Payload))] = 0xFD
				}
			}
			out = append(out, ref.Serialize(u)...)
			g.env.rep.Count("unsigned_complete_frames_in_keyed_clean_streams", 1)
		}
		s, w := g.validFrame()
		if len(out)+len(w) > maxLen && len(frames) > 0 {
			break
		}
		out = append(out, w...)
		frames = append(frames, s)
	}
	if g.r.Chance(1, 4) {
		out = append(out, g.junk(false)...)
	}
	return out, frames
}

// hostileStream: valid, truncated, corrupted frames, unknown flags, noise with markers.
func (g *c05gen) hostileStream(maxLen int) []byte {
	var out []byte
	n := 1 + g.r.Intn(10)
	for i := 0; i < n && len(out) < maxLen; i++ {
		_, w := g.validFrame()
		switch g.r.Intn(9) {
		case 6:
			// a frame of a dialect message with a correct checksum (and signature) whose payload has a size the
			// message cannot have: well-formed on the wire, undecodable -> must surface as a parse error
			if g.env.drw != nil && len(g.msgs) > 0 {
				mi := g.msgs[g.r.Intn(len(g.msgs))]
				version := 1
				if g.env.key != nil || mi.Msg.GetID() > 255 || g.r.Chance(1, 3) {
					version = 2
				}
				s, _ := validFrame(g.r, mi, version, 0, g.env.key != nil, g.env.keyRaw)
				n := g.r.Intn(256)
				if g.r.Chance(1, 2) {
					n = mi.Layout.SizeBase + g.r.Intn(5) - 2
					if n < 0 {
						n = 0
					}
					if n > 255 {
						n = 255
					}
				}
				s.Payload = g.r.Bytes(n)
				if s.Signed {
					g.tsNext += uint64(g.r.Intn(1000))
					s.Timestamp = g.tsNext
				}
				ref.Seal(s, mi.Layout.CRCExtra, g.env.keyRaw)
				g.env.rep.Count("wrong_size_valid_checksum_frames", 1)
				w = ref.Serialize(s)
			}
			out = append(out, w...)
		case 0:
			out = append(out, w[:g.r.Intn(len(w))]...) // truncated
		case 1:
			w[g.r.Intn(len(w))] ^= byte(1 + g.r.Intn(255)) // corrupted
			out = append(out, w...)
		case 2:
			if w[0] == 0xFD {
				w[2] = byte(2 + g.r.Intn(254)) // unknown incompat flag
			}
			out = append(out, w...)
		case 3:
			out = append(out, g.junk(true)...)
		case 4:
			out = append(out, 0xFD, 0xFE, 0xFD)
		case 5:
			w[1] = byte(g.r.Intn(256)) // wrong length
			out = append(out, w...)
		default:
			out = append(out, w...)
		}
	}
	if len(out) > maxLen {
		out = out[:maxLen]
	}
	return out
}

// completeness: every expected frame is returned, in order, exactly once.
func (e *c05env) completeness(stream []byte, frames []*ref.FrameSpec, res []rdResult) {
	var got []rdResult
	for _, r := range res {
		if r.class == 0 {
			got = append(got, r)
		}
	}
	wit := func() interface{} {
		var descs []string
		for _, r := range res {
			descs = append(descs, fmt.Sprintf("[%d,%d) %s", r.start, r.end, r.desc[:min(len(r.desc), 90)]))
		}
		return map[string]interface{}{"stream": vh.Hex(stream), "expected_frames": len(frames), "returned_frames": len(got),
			"buf_size": e.bufSize, "dialect": e.drw != nil, "key": e.key != nil, "results": descs}
	}
	if len(got) != len(frames) {
		e.rep.Violation("what=missing", "a stream of valid frames separated by non-marker bytes did not yield exactly those frames", wit())
		return
	}
	off := 0
	for i, f := range frames {
		w := ref.Serialize(f)
		idx := bytes.Index(stream[off:], w)
		if idx < 0 || got[i].start != off+idx || got[i].end != off+idx+len(w) {
			e.rep.Violation("what=missing", fmt.Sprintf("frame %d of a valid stream was not returned from its own bytes (order / duplication / loss)", i), wit())
			return
		}
		off += idx + len(w)
	}
}

func TestC05(t *testing.T) {
	rep := vh.NewReport("C05")
	defer rep.Finish(t)
	rep.Rule("(a) bounded-exhaustive byte streams without dialect: alphabet {FD,FE,00,01,03} up to length L1 and {FD,00,01} up to length L2, each under whole / 1-byte / random " +
		"chunkings, all 2^(n-1) segmentations for a seeded subset; (b) grammar-based streams (valid v1/v2/signed frames of dialect and unknown ids, truncated, corrupted, unknown flags, " +
		"noise with and without markers) with and without dialect and key under the same chunkings plus all segmentations when <= 14 bytes; (c) a transport error (transient and persistent) " +
		"injected at every byte offset; (d) the same streams through tlog.Reader (totality, termination). Byte accounting consumed = delivered - BufByteReader.Buffered() around every call. " +
		"distinct = distinct streams")
	rep.RuleAdd("Also: complete v1 / unsigned v2 frames inside the clean streams of keyed readers (rejected as a unit); idle transports; a transport that answers io.EOF or an error once at a frame boundary and goes on; eight concurrent readers on one dialect.")
	rep.RuleAdd("Rounds 12-15: keyed clean streams with refused complete v1 / unsigned v2 frames; transient transport errors at frame boundaries (io.EOF, wrapped EOF, net.Error), passed on with their identity.")
	rep.RuleAdd("Rounds 16-17: with a caller-supplied buffered reader the consumed bytes are counted on the caller's own reader.")
	rep.Assume("a transport error met in the middle of a frame may be reported inside a frame.ReadError (allowed result class)")
	rep.Assume("chunking independence is asserted for fault-free streams only (the statement quantifies over streams and splittings, not faults)")
	seed := vh.Seed()

	all := shippedOrViolation(rep, t)
	var err error
	_ = err
	msgs := pickMsgs(vh.Sub(seed, "c05-msgs"), all, 30)
	genv, err := newGateEnv(msgs)
	if err != nil {
		t.Fatal(err)
	}
	// two picked types may share an id (different dialects): generate frames only for the types the dialect really holds
	msgs = msgs[:0]
	for _, mi := range all {
		if genv.layouts[mi.Msg.GetID()] == mi {
			msgs = append(msgs, mi)
		}
	}
	keyRaw := vh.Sub(seed, "c05-key").Bytes(32)
	key := mkKey(keyRaw)
	plain := &c05env{rep: rep}
	withD := &c05env{rep: rep, drw: genv.drw, layouts: genv.layouts}
	withDK := &c05env{rep: rep, drw: genv.drw, layouts: genv.layouts, key: key, keyRaw: keyRaw}
	withK := &c05env{rep: rep, key: key, keyRaw: keyRaw, layouts: map[uint32]*msgInfo{}}

	// (a) bounded-exhaustive
	r := vh.Sub(seed, "c05-exh")
	enumerate := func(alpha []byte, maxLen int, label string) {
		total := 0
		buf := make([]byte, maxLen)
		idx := make([]int, maxLen)
		for n := 0; n <= maxLen; n++ {
			for i := 0; i < n; i++ {
				idx[i] = 0
			}
			for {
				for i := 0; i < n; i++ {
					buf[i] = alpha[idx[i]]
				}
				stream := append([]byte(nil), buf[:n]...)
				allSegs := n >= 2 && r.Chance(1, vh.Pick(4000, 600))
				plain.check(stream, r, allSegs)
				total++
				if total%200003 == 1 {
					rep.Sample(map[string]interface{}{"kind": "exhaustive:" + label, "stream": vh.Hex(stream)})
				}
				// next
				k := n - 1
				for k >= 0 {
					idx[k]++
					if idx[k] < len(alpha) {
						break
					}
					idx[k] = 0
					k--
				}
				if k < 0 {
					break
				}
			}
		}
		rep.DistinctN(total)
		rep.Count("exhaustive_streams_"+label, total)
		rep.Set("exhaustive_"+label, fmt.Sprintf("alphabet %x up to length %d: %d streams", alpha, maxLen, total))
	}
	enumerate([]byte{0xFD, 0xFE, 0x00, 0x01, 0x03}, vh.Pick(8, 10), "v1")
	enumerate([]byte{0xFD, 0x00, 0x01}, vh.Pick(12, 14), "v2")

	// (b) grammar-based
	nStreams := vh.Pick(1500, 60000)
	for ei, env := range []*c05env{plain, withD, withDK, withK} {
		g := &c05gen{r: vh.Sub(seed, fmt.Sprintf("c05-gram-%d", ei)), env: env, msgs: msgs, tsNext: 1000}
		for i := 0; i < nStreams; i++ {
			max := 4096
			if i%5 == 0 {
				max = 14 // short ones get every segmentation
			}
			stream, frames := g.cleanStream(max)
			rep.Distinct(stream)
			res := env.check(stream, g.r, len(stream) <= 14)
			if rep.NViolations() == 0 || true {
				env.completeness(stream, frames, res)
			}
			rep.Count("clean_streams", 1)
			rep.Count("clean_frames_expected", len(frames))
			if i%3 == 0 {
				g.tsNext += 5
				hs := g.hostileStream(4096)
				rep.Distinct(hs)
				env.check(hs, g.r, false)
				rep.Count("hostile_streams", 1)
				if i == 3 {
					rep.Sample(map[string]interface{}{"kind": fmt.Sprintf("hostile env=%d", ei), "stream": vh.Hex(hs[:min(len(hs), 200)])})
				}
			}
		}
	}

	// (b2) the same grammar through caller-supplied buffered readers of 16..4096 bytes
	for bi, size := range []int{16, 17, 64, 128, 200, 300, 4096} {
		for ei, base := range []*c05env{plain, withD, withDK} {
			env := *base
			env.bufSize = size
			g := &c05gen{r: vh.Sub(seed, fmt.Sprintf("c05-buf-%d-%d", bi, ei)), env: &env, msgs: msgs, tsNext: 1000}
			for i := 0; i < vh.Pick(60, 2000); i++ {
				stream, frames := g.cleanStream(4096)
				rep.Distinct(stream, size)
				res := env.check(stream, g.r, false)
				env.completeness(stream, frames, res)
				rep.Count("small_buffer_streams", 1)
			}
		}
	}

	// (b3) a transport that returns nothing for a while (idle link), at frame boundaries and inside frames
	for ei, env := range []*c05env{plain, withD, withDK} {
		g := &c05gen{r: vh.Sub(seed, fmt.Sprintf("c05-idle-%d", ei)), env: env, msgs: msgs, tsNext: 1000}
		for i := 0; i < vh.Pick(40, 1000); i++ {
			stream, frames := g.cleanStream(1500)
			env.idles(stream, frames, g.r)
		}
	}

	// (b4) several readers, each with its own stream and goroutine, sharing one dialect (as the channels of a node do); the
	// streams are dense with v2 frames of one and the same message type whose payloads were truncated on the wire
	{
		mi := msgs[0]
		for _, c := range msgs {
			if c.Layout.SizeExt > mi.Layout.SizeExt && c.Layout.SizeExt <= 255 {
				mi = c
			}
		}
		var wg sync.WaitGroup
		for gi := 0; gi < 8; gi++ {
			wg.Add(1)
			gr := vh.Sub(seed, fmt.Sprintf("c05-shared-%d", gi))
			go func() {
				defer wg.Done()
				for round := 0; round < vh.Pick(6, 100); round++ {
					var stream []byte
					var frames []*ref.FrameSpec
					for len(frames) < 200 {
						sp, _ := validFrame(gr, mi, 2, 0, false, nil)
						if len(sp.Payload) >= mi.Layout.SizeExt {
							continue // not truncated
						}
						frames = append(frames, sp)
						stream = append(stream, ref.Serialize(sp)...)
					}
					res, ok := withD.run(stream, &scriptReader{data: stream, errAt: -1, every: 500}, "shared dialect, concurrent readers")
					if !ok {
						return
					}
					for k := range res {
						if res[k].class == 0 {
							withD.frameBytes(stream, &res[k], "shared dialect, concurrent readers")
						}
					}
					withD.completeness(stream, frames, res)
					rep.Count("streams_read_concurrently_with_a_shared_dialect", 1)
				}
			}()
		}
		wg.Wait()
	}

	// (c) transport error at every byte offset
	nFault := vh.Pick(25, 400)
	for ei, env := range []*c05env{plain, withD, withDK} {
		g := &c05gen{r: vh.Sub(seed, fmt.Sprintf("c05-fault-%d", ei)), env: env, msgs: msgs, tsNext: 1000}
		for i := 0; i < nFault; i++ {
			var stream []byte
			if i%2 == 0 {
				stream, _ = g.cleanStream(600)
			} else {
				stream = g.hostileStream(600)
			}
			if len(stream) > 600 {
				stream = stream[:600]
			}
			rep.Distinct("fault", stream)
			env.faults(stream)
		}
	}

	// (d) tlog.Reader shares the buffered reader: totality and termination
	nTlog := vh.Pick(1500, 60000)
	g := &c05gen{r: vh.Sub(seed, "c05-tlog"), env: withD, msgs: msgs, tsNext: 1000}
	for i := 0; i < nTlog; i++ {
		var stream []byte
		switch i % 3 {
		case 0:
			stream = g.hostileStream(2000)
		case 1:
			stream = g.r.Bytes(g.r.Intn(300))
		default:
			// well-formed log entries, then cut somewhere
			for k := 0; k < 1+g.r.Intn(6); k++ {
				stream = append(stream, g.r.Bytes(8)...)
				_, w := g.validFrame()
				stream = append(stream, w...)
			}
			stream = stream[:g.r.Intn(len(stream)+1)]
		}
		rep.Eval(1)
		rep.Count("tlog_streams", 1)
		guard(rep, "what=panic", func() interface{} { return map[string]interface{}{"tlog_stream": vh.Hex(stream)} }, func() {
			tr := &tlog.Reader{ByteReader: &scriptReader{data: stream, every: 1 + g.r.Intn(50), errAt: -1}, DialectRW: genv.drw}
			if err := tr.Initialize(); err != nil {
				rep.HarnessError(err.Error())
				return
			}
			calls := 0
			for {
				_, err := tr.Read()
				calls++
				if err == io.EOF || err == io.ErrUnexpectedEOF {
					break
				}
				if calls > len(stream)+2 {
					rep.Violation("what=calls", "tlog.Reader did not exhaust the stream within n+1 calls", map[string]interface{}{"tlog_stream": vh.Hex(stream)})
					break
				}
			}
		})
	}
	rep.Floor("frames_returned", 1000)
	rep.Floor("fault_runs", 1000)
	rep.Floor("streams_with_all_segmentations", 20)
}

func min(a, b int) int {
	if a < b {
		return a
	}
	return b
}
