package codec

import (
	"bytes"
	"errors"
	"fmt"
	"io"
	"net"
	"os"
	"reflect"
	"runtime"
	"strings"
	"sync"
	"testing"
	"time"
	_ "time/tzdata" // the zone database travels with the test binary

	"github.com/bluenviron/gomavlib/v3"
	"github.com/bluenviron/gomavlib/v3/pkg/dialect"
	"github.com/bluenviron/gomavlib/v3/pkg/dialects/common"
	"github.com/bluenviron/gomavlib/v3/pkg/frame"
	"github.com/bluenviron/gomavlib/v3/pkg/message"
	"github.com/bluenviron/gomavlib/v3/pkg/streamwriter"

	"verifharness/fake"
	"verifharness/ref"
	"verifharness/vh"
)

// C07 — signature replay window and outgoing timestamps.
//
// Sequential model (DESIGN §8.5): newest = none; a correctly signed frame with timestamp t is
// refused iff newest = some(N) and t + 1_000_000 < N (no wrap possible: 48-bit values in uint64);
// on accept newest = max(newest, t).

const c07window = 1000000

var c07dialect = func() *dialect.ReadWriter {
	rw := &dialect.ReadWriter{Dialect: &dialect.Dialect{Version: 3, Messages: []message.Message{&common.MessageHeartbeat{}}}}
	if err := rw.Initialize(); err != nil {
		panic(err)
	}
	return rw
}()

type c07model struct {
	has    bool
	newest uint64
}

func (m *c07model) step(t uint64) bool {
	if m.has && t+c07window < m.newest {
		return false
	}
	if !m.has || t > m.newest {
		m.newest = t
	}
	m.has = true
	return true
}

func c07histKey(h []uint64) string {
	var sb strings.Builder
	for i, t := range h {
		if i > 0 {
			sb.WriteByte(',')
		}
		fmt.Fprintf(&sb, "%d", t)
	}
	return sb.String()
}

// runHistory feeds correctly signed frames with the given timestamps to one keyed reader and
// compares every accept / refuse decision with the model.
const c07forged = uint64(1) << 63 // history entries with this bit carry a wrong signature: they must be refused and must not move the window

func c07runHistory(rep *vh.Report, keyRaw []byte, key *frame.V2Key, hist []uint64, frames map[uint64][]byte) {
	rep.Eval(1)
	var stream []byte
	// a dialect is configured for every other history; the frames carry ids outside it (they come back raw) and the window
	// works the same - except for the "bad" entries below
	withDialect := len(hist)%2 == 0
	var offs []int
	bad := map[int]bool{}
	var bm c07model
	// every fifth history: half way through, the application gives the live reader ANOTHER key (key rotation on the link) and
	// the peer signs with it from then on. The window is the reader's: what was accepted before the rotation still counts
	origKey := keyRaw
	key2Raw := make([]byte, len(keyRaw))
	for i := range keyRaw {
		key2Raw[i] = keyRaw[i] ^ 0x5A
	}
	kc := -1
	if len(hist)%5 == 3 && len(hist) >= 2 {
		kc = len(hist) / 2
	}
	for hi, ent := range hist {
		offs = append(offs, len(stream))
		if hi == kc {
			keyRaw = key2Raw
		}
		ts := ent &^ c07forged
		if ent&c07forged == 0 && withDialect && bm.has && ts <= bm.newest && ts+c07window >= bm.newest && (hi+len(hist))%4 == 1 {
			// a correctly signed frame inside the window and not newer than the newest accepted one, carrying a message of the
			// dialect with a checksum made for another definition of it: refused after its signature was checked. The window is
			// where it was: what was accepted before stays the newest
			s := &ref.FrameSpec{Version: 2, Incompat: 1, Signed: true, Seq: byte(ts), Sys: 1, Comp: 1, MsgID: 0, LinkID: 3, Payload: []byte{1, 2, 3, 4, 5, 6, 7, 8, 3}, Timestamp: ts}
			s.Checksum = ref.ChecksumOfWire(ref.Serialize(s), 50) ^ 0x0101
			s.Signature = ref.SignatureOfWire(keyRaw, ref.Serialize(s))
			stream = append(stream, ref.Serialize(s)...)
			bad[hi] = true
			rep.Count("signed_frames_refused_for_their_checksum_inside_the_window", 1)
			continue
		}
		if ent&c07forged == 0 {
			bm.step(ts)
		}
		if ent&c07forged != 0 {
			s := &ref.FrameSpec{Version: 2, Incompat: 1, Signed: true, Seq: byte(ts), Sys: 1, Comp: 1, MsgID: 0x54321, LinkID: 1, Payload: []byte{1, 2, 3, 4}, Timestamp: ts}
			s.Signature = ref.SignatureOfWire(keyRaw, ref.Serialize(s))
			s.Signature[int(ts%6)] ^= 0x20
			stream = append(stream, ref.Serialize(s)...)
			continue
		}
		// the author of a frame (system, component, link id) varies independently of its timestamp: three authors take turns
		// on the link, each of them far behind or ahead of the others at times. The window is the reader's, whoever signs
		variant := uint64((hi*5 + len(hist)) % 3)
		if len(hist)%3 == 0 {
			variant = 3 // (a third of the histories: the link id follows the timestamp, one system)
		}
		w, ok := frames[ts<<2|variant]
		if hi >= kc && kc >= 0 {
			ok = false
		}
		if !ok {
			s := &ref.FrameSpec{Version: 2, Incompat: 1, Signed: true, Seq: byte(ts), Sys: 1, Comp: 1, MsgID: 0x12345 ^ uint32(ts&0xFF), LinkID: byte(ts >> 3),
				Payload: []byte{byte(ts), byte(ts >> 8), 7}, Timestamp: ts}
			if variant < 3 {
				s.Sys, s.Comp, s.LinkID = byte(1+variant), byte(1+variant%2), byte(10*variant)
			}
			s.Signature = ref.SignatureOfWire(keyRaw, ref.Serialize(s))
			w = ref.Serialize(s)
			if len(frames) < 8192 && !(hi >= kc && kc >= 0) {
				frames[ts<<2|variant] = w
			}
		}
		stream = append(stream, w...)
	}
	keyRaw = origKey
	guard(rep, "what=panic", func() interface{} { return hist }, func() {
		var drw *dialect.ReadWriter
		if withDialect {
			drw = c07dialect
		}
		// every third history: the transport hands over one frame per read and, between some of them, reports an expired read
		// deadline (a silent spell on a link with read timeouts); the caller goes on reading. What the reader remembers of the
		// link is not touched by that
		var src io.Reader = bytes.NewReader(stream)
		timeouts := map[int]bool{}
		if len(hist)%3 == 1 {
			ts := &c07timeoutSrc{data: stream, offs: offs, timeoutBefore: timeouts}
			for i := 1; i < len(hist); i++ {
				if (i*3+len(hist))%7 < 2 {
					timeouts[i] = true
				}
			}
			src = ts
		}
		rd, ierr := newFrameSource(src, drw, key)
		if ierr != nil {
			rep.Violation("what=reader init", "a keyed reader with a valid configuration could not be built: "+ierr.Error(), nil)
			return
		}
		var m c07model
		for i, ent := range hist {
			ts := ent &^ c07forged
			if i == kc {
				var r0 *frame.Reader
				switch x := rd.(type) {
				case *frame.Reader:
					r0 = x
				case *frame.ReadWriter:
					r0 = x.Reader
				}
				if r0 == nil {
					rep.HarnessError(fmt.Sprintf("C07: no reader to rotate the key on (%T)", rd))
					return
				}
				keyRaw = key2Raw
				r0.InKey = mkKey(key2Raw)
				rep.Count("keys_rotated_on_live_readers", 1)
			}
			if timeouts[i] {
				fr, err := rd.Read()
				var nerr net.Error
				if err == nil || !errors.As(err, &nerr) || !nerr.Timeout() {
					rep.Violation("what=reader timeout-passed-on", fmt.Sprintf("the transport's timeout between two frames was not passed on as it is: %v, %v", fr, err), hist)
					return
				}
				rep.Count("read_timeouts_between_frames_of_a_history", 1)
			}
			if bad[i] {
				fr, err := rd.Read()
				if err == nil {
					rep.Violation("what=reader badsum-accepted", "a frame of a dialect message with a wrong checksum was delivered", fmt.Sprintf("%+v", fr))
					return
				}
				if _, ok := err.(frame.ReadError); !ok {
					rep.Violation("what=reader hist="+c07histKey(hist[:i+1]), "unexpected error class: "+err.Error(), hist)
					return
				}
				continue
			}
			if ent&c07forged != 0 {
				fr, err := rd.Read()
				if err == nil {
					rep.Violation("what=reader forged-accepted", "a frame with a wrong signature was delivered", fmt.Sprintf("%+v", fr))
					return
				}
				if _, ok := err.(frame.ReadError); !ok {
					rep.Violation("what=reader hist="+c07histKey(hist[:i+1]), "unexpected error class: "+err.Error(), hist)
					return
				}
				continue
			}
			if r0, isReader := rd.(*frame.Reader); isReader && i > 0 && (i+len(hist))%3 == 0 {
				// the application installs the key again (a configuration reload: an equal key in a new object): the link, and what
				// the reader remembers of it, are the same
				r0.InKey = mkKey(keyRaw)
			}
			want := m.step(ts)
			fr, err := rd.Read()
			if err == io.EOF {
				rep.Violation("what=reader hist="+c07histKey(hist[:i+1]), "reader hit EOF early", hist)
				return
			}
			got := err == nil
			if err != nil {
				if _, ok := err.(frame.ReadError); !ok {
					rep.Violation("what=reader hist="+c07histKey(hist[:i+1]), "unexpected error class: "+err.Error(), hist)
					return
				}
				if want && !strings.Contains(err.Error(), "too old") {
					rep.Violation("what=reader hist="+c07histKey(hist[:i+1]), "a correctly signed frame was rejected for another reason: "+err.Error(), hist)
					return
				}
			}
			if got && fr.(*frame.V2Frame).SignatureTimestamp != ts {
				rep.Violation("what=reader hist="+c07histKey(hist[:i+1]), "delivered frame carries a different timestamp", hist)
				return
			}
			if got && (i+len(hist))%2 == 0 {
				// the frame is the application's now: it wipes or re-stamps the signature fields (before forwarding it). What the
				// reader remembers is its own
				v2 := fr.(*frame.V2Frame)
				if i%4 < 2 {
					v2.SignatureTimestamp = 0
				} else {
					v2.SignatureTimestamp = 0xFFFFFFFFFFFF
				}
				v2.SignatureLinkID ^= 0xFF
			}
			if got != want {
				verdict := "refused a frame inside the window"
				if got {
					verdict = "accepted a frame more than 10 s older than the newest accepted one"
				}
				key := c07histKey(hist[:i+1])
				forgedBefore := false
				for _, e := range hist[:i] {
					forgedBefore = forgedBefore || e&c07forged != 0
				}
				badBefore := false
				for j := 0; j < i; j++ {
					badBefore = badBefore || bad[j]
				}
				if badBefore {
					key = "after-frame-refused-for-its-checksum"
				} else if forgedBefore && len(hist) > 6 {
					key = "random after-forged-frame"
				} else if len(hist) > 6 {
					// long random histories: fingerprint by the deciding pair (newest, t) relation instead of the whole history
					rel := "older"
					if ts+c07window >= m.newest {
						rel = "inside"
					}
					key = fmt.Sprintf("random newest-minus-t=%d rel=%s", int64(m.newest)-int64(ts), rel)
				}
				rep.Violation("what=reader hist="+key, "replay window: reader "+verdict,
					map[string]interface{}{"history": hist[:i+1], "model_newest": m.newest, "timestamp": ts, "reader_accepted": got, "model_accepts": want})
				return
			}
		}
	})
}

// c07timeoutSrc serves a stream one frame per Read and answers the read before chosen frames, once each, with a timeout.
type c07timeoutSrc struct {
	data          []byte
	offs          []int
	timeoutBefore map[int]bool
	pos, next     int
	fired         map[int]bool
}

func (s *c07timeoutSrc) Read(p []byte) (int, error) {
	if s.pos >= len(s.data) {
		return 0, io.EOF
	}
	for s.next < len(s.offs) && s.offs[s.next] < s.pos {
		s.next++
	}
	if s.next < len(s.offs) && s.offs[s.next] == s.pos && s.timeoutBefore[s.next] {
		if s.fired == nil {
			s.fired = map[int]bool{}
		}
		if !s.fired[s.next] {
			s.fired[s.next] = true
			return 0, &net.OpError{Op: "read", Net: "tcp", Err: os.ErrDeadlineExceeded}
		}
	}
	end := len(s.data)
	for _, o := range s.offs {
		if o > s.pos {
			end = o
			break
		}
	}
	n := copy(p, s.data[s.pos:end])
	s.pos += n
	return n, nil
}

func TestC07(t *testing.T) {
	rep := vh.NewReport("C07")
	defer rep.Finish(t)
	rep.Rule("reader: bounded-exhaustive histories of correctly signed frames over the boundary alphabet {0,1,5,999999,1000000,1000001,1999999,2000000,2000001,2^32,2^48-1000001,2^48-1} " +
		"and two frames with a wrong signature (which must be refused and must leave the window untouched) to depth D on fresh readers, plus random histories (with forged future-dated frames injected) of length 50..500 with steps drawn relative to the current maximum (+-1, +-(10^6-1), +-10^6, +-(10^6+1), far); every accept/refuse " +
		"decision compared with a sequential window model. writers: signed write histories on streamwriter.Writer, frame.Writer.WriteMessage and Node channels; every timestamp inside " +
		"[ticks(before call), ticks(after call)] by the harness clock and non-decreasing per link. distinct = distinct histories")
	rep.RuleAdd("Also: links used in both directions on which frames dated ahead of the local clock (1 s, 1 h, 2^48-1) were accepted before writing (frame.ReadWriter and node channels); writes packed around second boundaries on many OS threads; a second child process in another time zone.")
	rep.RuleAdd("Rounds 12-15: three authors per link, key objects replaced on live readers, delivered frames re-stamped by the application, 31 s of silence, correctly signed frames refused for their checksum inside the window, read timeouts between the frames of a history.")
	rep.RuleAdd("Rounds 16-17: key rotation on live readers half way through a history; future-dated frames forwarded through a writer that then originates; the whole test also as a GOARCH=386 program.")
	rep.Assume("wall clock is not stepped backwards during the run (not injected: the two clauses of the statement would contradict each other)")
	seed := vh.Seed()
	if os.Getenv("VERIF_SHARD") == "1" {
		seed ^= 0x9E3779B97F4A7C15 // the child process that runs in another time zone takes other cases too
	}
	rep.Set("time_zone_"+os.Getenv("VERIF_SHARD"), time.Now().Format("MST -0700"))
	if _, off := time.Now().Zone(); off != 0 {
		rep.Count("runs_in_a_time_zone_other_than_utc", 1)
	}
	r := vh.Sub(seed, "c07")
	keyRaw := r.Bytes(32)
	key := mkKey(keyRaw)
	frames := map[uint64][]byte{}
	// what the reader remembers does not fade with (real) time: a link that was silent for 31 s still refuses a frame that
	// is more than 10 s of timestamp older than the newest one accepted before the silence. Runs in the second child
	// process only, next to everything else (its 31 s are the wall time of that child)
	silenceDone := make(chan struct{})
	if os.Getenv("VERIF_SHARD") == "1" || os.Getenv("VERIF_NSHARDS") == "" {
		go func() {
			defer close(silenceDone)
			mk := func(ts uint64) []byte {
				s := &ref.FrameSpec{Version: 2, Incompat: 1, Signed: true, Seq: byte(ts), Sys: 7, Comp: 1, MsgID: 0x4321, LinkID: 2, Payload: []byte{1, 2, 3}, Timestamp: ts}
				s.Signature = ref.SignatureOfWire(keyRaw, ref.Serialize(s))
				return ref.Serialize(s)
			}
			var buf bytes.Buffer
			rd := &frame.Reader{ByteReader: &buf, InKey: mkKey(keyRaw)}
			if rd.Initialize() != nil {
				return
			}
			buf.Write(mk(50000000))
			if _, err := rd.Read(); err != nil {
				return
			}
			time.Sleep(31 * time.Second)
			buf.Write(mk(50000000 - 2000000))
			_, err := rd.Read()
			rep.Eval(1)
			rep.Count("replay_after_31s_of_silence_checked", 1)
			if err == nil {
				rep.Violation("what=reader after-silence", "after 31 s without traffic the reader accepted a correctly signed frame whose timestamp is 20 s older than the newest one it had accepted before", nil)
			}
			buf.Write(mk(50000000 + 1))
			if _, err := rd.Read(); err != nil {
				rep.Violation("what=reader after-silence", "after 31 s without traffic the reader refused a frame newer than everything it had accepted: "+err.Error(), nil)
			}
		}()
	} else {
		close(silenceDone)
	}
	defer func() { <-silenceDone }()

	alpha := []uint64{0, 1, 5, 999999, 1000000, 1000001, 1999999, 2000000, 2000001, 1 << 32, (1 << 48) - 1000001, (1 << 48) - 1,
		3000001 | c07forged, (1 << 47) | c07forged} // two frames with a wrong signature: refused, no effect on the window
	depth := vh.Pick(4, 5)
	// exhaustive histories of every length 1..depth
	total := 0
	hist := make([]uint64, depth)
	idx := make([]int, depth)
	for n := 1; n <= depth; n++ {
		for i := range idx {
			idx[i] = 0
		}
		for {
			for i := 0; i < n; i++ {
				hist[i] = alpha[idx[i]]
			}
			c07runHistory(rep, keyRaw, key, append([]uint64(nil), hist[:n]...), frames)
			total++
			if total == 2222 {
				rep.Sample(map[string]interface{}{"kind": "exhaustive history", "timestamps": append([]uint64(nil), hist[:n]...)})
			}
			k := n - 1
			for k >= 0 {
				idx[k]++
				if idx[k] < len(alpha) {
					break
				}
				idx[k] = 0
				k--
			}
			if k < 0 {
				break
			}
		}
	}
	rep.DistinctN(total)
	rep.Count("exhaustive_histories", total)
	rep.Set("exhaustive_histories_depth", depth)

	// random histories relative to the running maximum
	nRand := vh.Pick(400, 20000)
	const max48 = (uint64(1) << 48) - 1
	for i := 0; i < nRand; i++ {
		n := 50 + r.Intn(451)
		h := make([]uint64, 0, n)
		var m c07model
		cur := []uint64{0, 1, 500000, 999999, 1000000, 3000000, 1 << 40, max48 - 2000000}[r.Intn(8)] + uint64(r.Intn(3))
		for k := 0; k < n; k++ {
			base := cur
			if m.has {
				base = m.newest
			}
			var t uint64
			delta := []uint64{0, 1, c07window - 1, c07window, c07window + 1, 2 * c07window, uint64(r.Intn(3 * c07window))}[r.Intn(7)]
			if r.Chance(1, 2) {
				if delta > base {
					t = uint64(r.Intn(3))
				} else {
					t = base - delta
				}
			} else {
				t = base + delta
				if r.Chance(1, 10) {
					t = base + uint64(r.U64()%(1<<30))
				}
			}
			if t > max48 {
				t = max48
			}
			if r.Chance(1, 40) {
				t = r.U64() & max48
			}
			if i%2 == 1 && r.Chance(1, 12) {
				// a frame nobody holding the key signed, dated far ahead (or anywhere): refused, and without any effect on the window
				ft := t + uint64(r.Intn(50*c07window))
				if r.Chance(1, 3) {
					ft = r.U64() & max48
				}
				if ft > max48 {
					ft = max48
				}
				h = append(h, ft|c07forged)
				rep.Count("forged_frames_in_histories", 1)
			}
			h = append(h, t)
			m.step(t)
		}
		rep.Distinct(c07histKey(h))
		c07runHistory(rep, keyRaw, key, h, frames)
		if i == 0 {
			rep.Sample(map[string]interface{}{"kind": "random history (first 12)", "timestamps": h[:12]})
		}
	}
	rep.Count("random_histories", nRand)

	// ---- outgoing timestamps ----
	drw, err := newDialectRW(common.Dialect.Messages...)
	if err != nil {
		t.Fatal(err)
	}
	nOut := vh.Pick(3000, 200000)
	checkLink := func(api string, emit func(i int) ([]byte, error), n int) {
		var prev uint64
		havePrev := false
		t0 := ticksNow()
		for i := 0; i < n; i++ {
			before := ticksNow()
			wire, err := emit(i)
			if err != nil {
				rep.Violation("what=writer:"+api+":range", "signed write refused: "+err.Error(), nil)
				return
			}
			after := ticksNow()
			if len(wire) == 0 {
				rep.Violation("what=writer:"+api+":range", "write emitted nothing", nil)
				return
			}
			f, ln, st := ref.ParseAt(wire, 0)
			if st != ref.ParseOK || !f.Signed || ln != len(wire) {
				rep.Violation("what=writer:"+api+":range", "writer with a key emitted something that is not exactly one signed frame", vh.Hex(wire[:min(len(wire), 40)]))
				return
			}
			rep.Eval(1)
			rep.Count("outgoing_timestamps_"+api, 1)
			if f.Timestamp < before || f.Timestamp > after {
				rep.Violation("what=writer:"+api+":range",
					fmt.Sprintf("outgoing timestamp %d outside [%d,%d] = ticks of 10 us since 2015-01-01 UTC around the call", f.Timestamp, before, after),
					map[string]interface{}{"api": api, "index": i, "since_start_ticks": before - t0})
				return
			}
			if havePrev && f.Timestamp < prev {
				rep.Violation("what=writer:"+api+":decrease", fmt.Sprintf("outgoing timestamp decreased on a link: %d after %d", f.Timestamp, prev),
					map[string]interface{}{"api": api, "index": i})
				return
			}
			prev, havePrev = f.Timestamp, true
		}
	}
	hbMsg := &common.MessageHeartbeat{Type: 1, Autopilot: 2, SystemStatus: 4, MavlinkVersion: 3}
	{
		rw := &recWriter{}
		fw := &frame.Writer{ByteWriter: rw, DialectRW: drw}
		_ = fw.Initialize()
		sw := &streamwriter.Writer{FrameWriter: fw, Version: streamwriter.V2, SystemID: 1, Key: key, SignatureLinkID: 3}
		_ = sw.Initialize()
		checkLink("streamwriter", func(i int) ([]byte, error) {
			hbMsg.CustomMode = uint32(i)
			// spread the history over > 1 s of wall clock in the quick tier too (second boundaries)
			if i%600 == 599 {
				time.Sleep(time.Duration(vh.Pick(250, 20)) * time.Millisecond)
			}
			rw.reset()
			err := sw.Write(hbMsg)
			return rw.all(), err
		}, nOut)
	}
	{
		rw := &recWriter{}
		fw := &frame.Writer{ByteWriter: rw, DialectRW: drw, OutVersion: frame.V2, OutSystemID: 1, OutKey: key}
		_ = fw.Initialize()
		checkLink("framewriter", func(i int) ([]byte, error) {
			hbMsg.CustomMode = uint32(i)
			rw.reset()
			err := fw.WriteMessage(hbMsg)
			return rw.all(), err
		}, nOut)
	}
	{
		tr := fake.NewTransport("c07")
		node := &gomavlib.Node{
			Endpoints:        []gomavlib.EndpointConf{gomavlib.EndpointCustom{ReadWriteCloser: tr}},
			Dialect:          &dialect.Dialect{Version: 3, Messages: []message.Message{&common.MessageHeartbeat{}}},
			OutVersion:       gomavlib.V2,
			OutSystemID:      5,
			OutKey:           key,
			HeartbeatDisable: true,
		}
		if err := node.Initialize(); err != nil {
			t.Fatal(err)
		}
		<-node.Events()
		go func() {
			for range node.Events() {
			}
		}()
		nNode := vh.Pick(1500, 30000)
		checkLink("node", func(i int) ([]byte, error) {
			m := &common.MessageHeartbeat{CustomMode: uint32(i), MavlinkVersion: 3}
			if err := node.WriteMessageAll(m); err != nil {
				return nil, err
			}
			if got := tr.WaitWrites(i+1, 3*time.Second); got < i+1 {
				return nil, fmt.Errorf("node emitted %d of %d frames (no progress)", got, i+1)
			}
			return tr.WriteAt(i).Data, nil
		}, nNode)
		node.Close()
	}
	// both directions of one link in use: correctly signed frames whose timestamps are AHEAD of the local clock (a peer whose
	// clock runs ahead, the boundary value 2^48-1) are accepted on the link first; what is written on it afterwards still
	// carries the local time since 2015-01-01
	{
		hbInfo := (*msgInfo)(nil)
		if l, err := ref.LayoutOf(reflect.TypeOf(common.MessageHeartbeat{})); err == nil {
			hbInfo = &msgInfo{Name: "common.MessageHeartbeat", Msg: &common.MessageHeartbeat{}, Type: reflect.TypeOf(common.MessageHeartbeat{}), Layout: l}
		}
		future := func(r *vh.RNG, ahead uint64, linkID byte) []byte {
			sp, _ := validFrame(r, hbInfo, 2, 0, true, keyRaw)
			sp.LinkID = linkID
			sp.Timestamp = ahead
			ref.Seal(sp, hbInfo.Layout.CRCExtra, keyRaw)
			return ref.Serialize(sp)
		}
		rf := vh.Sub(seed, "c07-future")
		aheads := []uint64{ticksNow() + 360000000, ticksNow() + 100000, 0xFFFFFFFFFFFF}
		if hbInfo != nil {
			for ai, ahead := range aheads {
				var in bytes.Buffer
				rw := &recWriter{}
				frw := &frame.ReadWriter{ByteReadWriter: struct {
					io.Reader
					io.Writer
				}{&in, rw}, DialectRW: drw, InKey: key, OutKey: key, OutVersion: frame.V2, OutSystemID: 1}
				if err := frw.Initialize(); err != nil {
					t.Fatal(err)
				}
				for lid := 0; lid < 3; lid++ {
					in.Write(future(rf, ahead-uint64(2-lid), byte(lid)))
					if _, err := frw.Read(); err != nil {
						rep.Observe("c07: a correctly signed frame dated ahead of the local clock was refused by the reader: " + err.Error())
					} else {
						rep.Count("future_dated_frames_accepted_before_writing", 1)
					}
				}
				checkLink(fmt.Sprintf("readwriter-after-future-frame-%d", ai), func(i int) ([]byte, error) {
					hbMsg.CustomMode = uint32(i)
					rw.reset()
					err := frw.WriteMessage(hbMsg)
					return rw.all(), err
				}, 50)
				// a writer that routes and originates (deprecated options): signed frames dated ahead are FORWARDED through it with
				// Write(), then it originates messages of its own - stamped with the local time
				rw2 := &recWriter{}
				fw2 := &frame.Writer{ByteWriter: rw2, DialectRW: drw, OutKey: key, OutVersion: frame.V2, OutSystemID: 1, OutSignatureLinkID: 4}
				if err := fw2.Initialize(); err != nil {
					t.Fatal(err)
				}
				for lid := 0; lid < 3; lid++ {
					fr, _, st := ref.ParseAt(future(rf, ahead-uint64(2-lid), byte(lid)), 0)
					if st != ref.ParseOK {
						continue
					}
					if err := fw2.Write(toFrame(fr)); err == nil {
						rep.Count("future_dated_frames_forwarded_before_originating", 1)
					}
				}
				checkLink(fmt.Sprintf("writer-after-forwarding-future-frame-%d", ai), func(i int) ([]byte, error) {
					hbMsg.CustomMode = uint32(i)
					rw2.reset()
					err := fw2.WriteMessage(hbMsg)
					return rw2.all(), err
				}, 50)
			}
			for ai, ahead := range aheads {
				tr := fake.NewTransport("c07f")
				node := &gomavlib.Node{
					Endpoints:        []gomavlib.EndpointConf{gomavlib.EndpointCustom{ReadWriteCloser: tr}},
					Dialect:          &dialect.Dialect{Version: 3, Messages: []message.Message{&common.MessageHeartbeat{}}},
					OutVersion:       gomavlib.V2,
					OutSystemID:      5,
					OutKey:           key,
					InKey:            key,
					HeartbeatDisable: true,
				}
				if err := node.Initialize(); err != nil {
					t.Fatal(err)
				}
				<-node.Events()
				tr.Feed(future(rf, ahead, 3))
				select {
				case e := <-node.Events():
					if _, ok := e.(*gomavlib.EventFrame); ok {
						rep.Count("future_dated_frames_accepted_before_writing", 1)
					}
				case <-time.After(2 * time.Second):
				}
				go func() {
					for range node.Events() {
					}
				}()
				checkLink(fmt.Sprintf("node-after-future-frame-%d", ai), func(i int) ([]byte, error) {
					m := &common.MessageHeartbeat{CustomMode: uint32(i), MavlinkVersion: 3}
					if err := node.WriteMessageAll(m); err != nil {
						return nil, err
					}
					if got := tr.WaitWrites(i+1, 3*time.Second); got < i+1 {
						return nil, fmt.Errorf("node emitted %d of %d frames (no progress)", got, i+1)
					}
					return tr.WriteAt(i).Data, nil
				}, 50)
				node.Close()
			}
		}
	}
	// observation only (the statement's two writer clauses contradict each other when the wall clock steps backwards, so
	// nothing is judged): what the writer does with its timestamps when the clock goes back by one second
	{
		rw := &recWriter{}
		fw := &frame.Writer{ByteWriter: rw, DialectRW: drw, OutVersion: frame.V2, OutSystemID: 1, OutKey: key}
		_ = fw.Initialize()
		_ = fw.WriteMessage(hbMsg)
		a, _, _ := ref.ParseAt(rw.all(), 0)
		frame.VerifShiftSignatureClock(-time.Second)
		rw.reset()
		_ = fw.WriteMessage(hbMsg)
		b, _, _ := ref.ParseAt(rw.all(), 0)
		frame.VerifShiftSignatureClock(time.Second)
		if a != nil && b != nil {
			if b.Timestamp < a.Timestamp {
				rep.Observe("c07: when the wall clock is stepped backwards (1 s, through the verif clock hook) the timestamps of a keyed writer follow it and decrease on the link; not judged (the clock is outside the statement's quantifier)")
			} else {
				rep.Observe("c07: when the wall clock is stepped backwards (1 s, through the verif clock hook) the timestamps of a keyed writer do not decrease")
			}
		}
	}
	// writes packed around wall-clock second boundaries (a timestamp assembled from two clock readings breaks there)
	{
		type link struct {
			write func(i int) ([]byte, error)
		}
		mk := func() link {
			rw := &recWriter{}
			fw := &frame.Writer{ByteWriter: rw, DialectRW: drw}
			_ = fw.Initialize()
			sw := &streamwriter.Writer{FrameWriter: fw, Version: streamwriter.V2, SystemID: 1, Key: key}
			_ = sw.Initialize()
			m := &common.MessageHeartbeat{MavlinkVersion: 3}
			return link{func(i int) ([]byte, error) {
				rw.reset()
				m.CustomMode = uint32(i)
				err := sw.Write(m)
				return rw.all(), err
			}}
		}
		crossings := vh.Pick(10, 40)
		var wg sync.WaitGroup
		// far more writers than cores: at every instant most of them are parked at some point of their write (the scheduler
		// preempts them anywhere), so that whatever a writer does between two readings of the clock is stretched over the
		// boundary for some of them
		// ... and far more OS threads than cores, so that the kernel, too, takes writers off the CPU at arbitrary instructions
		nw := 16 * runtime.GOMAXPROCS(0)
		defer runtime.GOMAXPROCS(runtime.GOMAXPROCS(nw))
		for w := 0; w < nw; w++ {
			wg.Add(1)
			go func(w int) {
				defer wg.Done()
				l := mk()
				var prev uint64
				for c := 0; c < crossings; c++ {
					now := time.Now()
					next := now.Truncate(time.Second).Add(time.Second)
					// start early enough for the scheduler's time slices (10 ms) to have parked writers in mid-write when the
					// second rolls over
					time.Sleep(next.Sub(now) - 70*time.Millisecond)
					for i := 0; time.Now().Before(next.Add(25 * time.Millisecond)); i++ {
						before := ticksNow()
						wire, err := l.write(i)
						after := ticksNow()
						if err != nil || len(wire) == 0 {
							return
						}
						f, _, st := ref.ParseAt(wire, 0)
						if st != ref.ParseOK {
							return
						}
						rep.Count("writes_around_second_boundaries", 1)
						if f.Timestamp < before || f.Timestamp > after {
							rep.Violation("what=writer:streamwriter:range", fmt.Sprintf("outgoing timestamp %d outside [%d,%d] next to a wall-clock second boundary", f.Timestamp, before, after), nil)
							return
						}
						if f.Timestamp < prev {
							rep.Violation("what=writer:streamwriter:decrease", fmt.Sprintf("outgoing timestamp decreased across a second boundary: %d after %d", f.Timestamp, prev), nil)
							return
						}
						prev = f.Timestamp
					}
				}
			}(w)
		}
		wg.Wait()
		rep.Eval(int(rep.Counter("writes_around_second_boundaries")))
	}
	rep.Floor("exhaustive_histories", 20000)
	rep.Floor("outgoing_timestamps_node", 1000)
}
