package codec

import (
	"bufio"
	"bytes"
	"errors"
	"fmt"
	"io"
	"net"
	"os"
	"reflect"
	"runtime"
	"strings"
	"sync"
	"testing"
	"time"

	"github.com/bluenviron/gomavlib/v3/pkg/dialect"
	"github.com/bluenviron/gomavlib/v3/pkg/frame"
	"github.com/bluenviron/gomavlib/v3/pkg/message"
	"github.com/bluenviron/gomavlib/v3/pkg/tlog"

	"verifharness/ref"
	"verifharness/vh"
)

// C20 — telemetry logs: round trip, crash-truncation safety, no partial entries.

type c20entry struct {
	t     time.Time
	spec  *ref.FrameSpec // expected wire form of the frame
	mi    *msgInfo       // non-nil: the entry carries a decoded dialect message
	val   reflect.Value
	bad   string // non-empty: unencodable entry of this class
	image []byte // reference image of the entry (empty for bad entries)
}

func c20time(r *vh.RNG) time.Time {
	switch r.Intn(10) {
	case 0:
		return time.Unix(0, 0)
	case 1:
		return time.Unix(-1, 999999500) // just before the epoch, between microseconds
	case 2:
		return time.Date(1, 1, 1, 0, 0, 0, 0, time.UTC)
	case 3:
		return time.Date(9999, 12, 31, 23, 59, 59, 999999999, time.UTC)
	case 4:
		return time.Unix(int64(r.Intn(1<<31-1)), int64(r.Intn(1000))*1000+999) // 1 ns before a microsecond boundary
	case 5:
		return time.Unix(int64(r.Intn(1<<31-1)), int64(r.Intn(1000))*1000+1)
	case 6:
		return time.Unix(-int64(r.Intn(1<<31-1)), int64(r.Intn(1000000000)))
	case 7:
		return time.Unix(int64(r.Intn(1<<31-1)), int64(r.Intn(1000000000))).In(time.FixedZone("x", 3600*5))
	default:
		return time.Unix(1600000000+int64(r.Intn(1<<27)), int64(r.Intn(1000000000)))
	}
}

func be64(v int64) []byte {
	out := make([]byte, 8)
	for i := 0; i < 8; i++ {
		out[i] = byte(uint64(v) >> (8 * uint(7-i)))
	}
	return out
}

func (e *c20entry) frame() frame.Frame {
	if e.bad == "nil-message" {
		return &frame.V2Frame{SequenceNumber: 1, SystemID: 1, ComponentID: 1}
	}
	fr := toFrame(e.spec)
	if f2, ok := fr.(*frame.V2Frame); ok && !e.spec.Signed && len(e.image)%3 == 0 {
		// an unsigned frame object that still carries signature fields (not part of its encoding)
		f2.Signature = &frame.V2Signature{0xFD, 0xFE, 0xFD, 0xFE, 0xFD, 0xFE}
		f2.SignatureLinkID, f2.SignatureTimestamp = 0xFD, 0xFEFEFEFEFEFE
	}
	if (e.mi != nil && e.bad == "") || e.bad == "not-in-dialect" || e.bad == "no-dialect" {
		m := e.val.Interface().(message.Message)
		switch ff := fr.(type) {
		case *frame.V1Frame:
			ff.Message = m
		case *frame.V2Frame:
			ff.Message = m
		}
	}
	return fr
}

type c20gen struct {
	r     *vh.RNG
	genv  *gateEnv // nil: no dialect
	glist []*msgInfo
	other *msgInfo // a message type that is not in the dialect
}

func (g *c20gen) entry(allowBad bool) *c20entry {
	r := g.r
	e := &c20entry{t: c20time(r)}
	if allowBad && r.Chance(1, 6) {
		switch r.Intn(3) {
		case 0:
			e.bad = "v1-id"
			e.spec = c01random(r, c01cfg{version: 1})
			e.spec.MsgID = 256 + uint32(r.Intn(70000))
		case 1:
			e.bad = "not-in-dialect"
			e.spec = c01random(r, c01cfg{version: 2})
			e.spec.MsgID = g.other.Msg.GetID()
			e.val = reflect.New(g.other.Type)
			vh.FillMessage(r, g.other.Layout, e.val, vh.ModeMixed)
		case 2:
			e.bad = "nil-message"
		}
		return e
	}
	version := 1 + r.Intn(2)
	if g.genv != nil && r.Chance(1, 2) {
		mi := g.glist[r.Intn(len(g.glist))]
		for version == 1 && mi.Msg.GetID() > 255 {
			mi = g.glist[r.Intn(len(g.glist))]
		}
		e.mi = mi
		e.val = reflect.New(mi.Type)
		vh.FillMessage(r, mi.Layout, e.val, vh.ModeMixed)
		e.spec = c01random(r, c01cfg{version: version, signed: version == 2 && r.Chance(1, 4)})
		e.spec.MsgID = mi.Msg.GetID()
		e.spec.Payload = mi.Layout.Encode(e.val, version == 2)
		e.spec.Checksum = ref.ChecksumOfWire(ref.Serialize(e.spec), mi.Layout.CRCExtra)
	} else {
		e.spec = c01random(r, c01cfg{version: version, signed: version == 2 && r.Chance(1, 4)})
		if g.genv == nil && r.Chance(1, 5) {
			// a tunnelled log record inside the payload: eight bytes and a complete small frame behind them (MAVLink carried in
			// another message's payload). If the log is cut inside THIS entry, what remains of it is not an entry
			inner := c01random(r, c01cfg{version: 1 + r.Intn(2)})
			inner.Payload = r.Bytes(r.Intn(12))
			p := append(r.Bytes(8), ref.Serialize(inner)...)
			p = append(p, r.Bytes(r.Intn(40))...)
			if len(p) > 255 {
				p = p[:255]
			}
			e.spec.Payload = p
		}
		if g.genv != nil {
			if mi := g.genv.layouts[e.spec.MsgID]; mi != nil {
				// raw frame of a dialect id: give it a decodable payload and a valid checksum so that it reads back
				val := reflect.New(mi.Type)
				vh.FillMessage(r, mi.Layout, val, vh.ModeMixed)
				e.spec.Payload = mi.Layout.Encode(val, version == 2)
				e.spec.Checksum = ref.ChecksumOfWire(ref.Serialize(e.spec), mi.Layout.CRCExtra)
				e.mi, e.val = mi, val
				e.spec = &ref.FrameSpec{Version: e.spec.Version, Incompat: e.spec.Incompat, Compat: e.spec.Compat, Seq: e.spec.Seq, Sys: e.spec.Sys, Comp: e.spec.Comp,
					MsgID: e.spec.MsgID, Payload: e.spec.Payload, Checksum: e.spec.Checksum, Signed: e.spec.Signed, LinkID: e.spec.LinkID, Timestamp: e.spec.Timestamp, Signature: e.spec.Signature}
			}
		}
	}
	e.image = append(be64(e.t.UnixMicro()), ref.Serialize(e.spec)...)
	return e
}

func (g *c20gen) drw() *dialect.ReadWriter {
	if g.genv == nil {
		return nil
	}
	return g.genv.drw
}

// readBack reads a log image and compares with the expected entries; returns number of entries read before the first error.
func c20readBack(rep *vh.Report, g *c20gen, img []byte, want []*c20entry, what string) {
	guard(rep, "what=panic", func() interface{} {
		return map[string]interface{}{"image": vh.Hex(img[:min(len(img), 400)]), "case": what}
	}, func() {
		var src io.Reader = &scriptReader{data: img, every: 1 + g.r.Intn(600), errAt: -1}
		if g.r.Chance(1, 4) {
			// a source that hands over as much as it is asked for in one go (a file, a memory image)
			src = bytes.NewReader(img)
			rep.Count("logs_read_from_a_source_serving_large_blocks", 1)
		} else if g.r.Chance(1, 3) {
			// the caller hands over its own buffered reader, of any size
			src = bufio.NewReaderSize(src, []int{16, 64, 256, 511, 512, 4096}[g.r.Intn(6)])
			rep.Count("logs_read_through_caller_bufio", 1)
		}
		rd := &tlog.Reader{ByteReader: src, DialectRW: g.drw()}
		if err := rd.Initialize(); err != nil {
			rep.Violation("what=roundtrip", "tlog.Reader.Initialize failed on a valid configuration: "+err.Error(), nil)
			return
		}
		var kept []*tlog.Entry
		defer func() {
			// entries handed out earlier must still be what they were once the whole log has been read
			for i, e := range kept {
				if _, raw := frameMessage(e.Frame).(*message.MessageRaw); !raw {
					continue
				}
				if ok, diff := specEqual(want[i].spec, fromFrame(e.Frame)); !ok {
					rep.Violation("what="+what, fmt.Sprintf("entry %d changed (%s) after later entries were read from the same log", i, diff),
						map[string]interface{}{"image_len": len(img), "entry_image": vh.Hex(want[i].image)})
					return
				}
			}
		}()
		for i, w := range want {
			e, err := rd.Read()
			if err != nil {
				rep.Violation("what="+what, fmt.Sprintf("entry %d of %d could not be read back: %v", i, len(want), err),
					map[string]interface{}{"image_len": len(img), "entry_image": vh.Hex(w.image)})
				return
			}
			kept = append(kept, e)
			wt := time.UnixMicro(w.t.UnixMicro()).UTC()
			if !e.Time.Equal(wt) || e.Time.Location() != time.UTC {
				rep.Violation("what="+what, fmt.Sprintf("entry %d: time read back %v, written %v (to the microsecond, UTC)", i, e.Time, wt), vh.Hex(w.image))
				return
			}
			got := fromFrame(e.Frame)
			exp := *w.spec
			if _, raw := frameMessage(e.Frame).(*message.MessageRaw); !raw {
				if w.mi == nil {
					rep.Violation("what="+what, fmt.Sprintf("entry %d: a raw frame was read back as a decoded message", i), vh.Hex(w.image))
					return
				}
				exp.Payload = nil
				canon := w.mi.Layout.Canonical(w.val, w.spec.Version == 2)
				if eq, diff := w.mi.Layout.BitEqual(reflect.ValueOf(frameMessage(e.Frame)), canon); !eq {
					rep.Violation("what="+what, fmt.Sprintf("entry %d: message read back differs in field %s", i, diff), vh.Hex(w.image))
					return
				}
			}
			if ok, diff := specEqual(&exp, got); !ok {
				rep.Violation("what="+what, fmt.Sprintf("entry %d: frame read back differs in %s", i, diff), vh.Hex(w.image))
				return
			}
		}
		// after the complete entries: an error, and errors ever after; never another entry
		for k := 0; k < 3; k++ {
			e, err := rd.Read()
			if err == nil {
				rep.Violation("what="+what, "the reader fabricated an entry beyond the complete entries of the log",
					map[string]interface{}{"image_len": len(img), "complete_entries": len(want), "fabricated": fmt.Sprintf("%+v", e)})
				return
			}
		}
	})
}

func TestC20(t *testing.T) {
	rep := vh.NewReport("C20")
	defer rep.Finish(t)
	rep.Rule("histories of 1..60 entries (v1/v2, signed, raw and dialect messages; times before 1970, around microsecond boundaries, year 1 and 9999, non-UTC zones), plus long logs " +
		"beyond the reader's 4 KiB buffer: (1) bytes in the underlying writer after every Write = reference prefix; (2) read back = same entries then error; (3) EVERY cut offset of the image " +
		"(sampled offsets for the long logs in the quick tier): exactly the complete entries before the cut, then errors forever; (4) write error at the k-th underlying Write for every k; " +
		"(5) unencodable entry (v1 id > 255, message not in the dialect, nil message) at every position: error, file length unchanged, final file reads back as the accepted entries. " +
		"distinct = distinct log images")
	rep.RuleAdd("Also: underlying writers with a Flush method whose write error is not sticky; six logs written concurrently through slow writers with unencodable entries mixed in. A log of 6000+ entries read back from a source serving large blocks.")
	rep.RuleAdd("Rounds 12-15: writers with Flush methods, slow writers with six concurrent logs, logs of 6000+ entries, entries that make the encoder panic, tunnelled records, write errors of the timeout class.")
	rep.Assume("reference log image = BE64(unix microseconds) || reference frame serialization")
	seed := vh.Seed()
	all := shippedOrViolation(rep, t)
	var err error
	_ = err
	msgs := pickMsgs(vh.Sub(seed, "c20-msgs"), all, 20)
	genv, err := newGateEnv(msgs)
	if err != nil {
		t.Fatal(err)
	}
	var glist []*msgInfo
	for _, mi := range all {
		if genv.layouts[mi.Msg.GetID()] == mi {
			glist = append(glist, mi)
		}
	}
	// a message type whose id is not in the dialect
	var other *msgInfo
	for _, mi := range all {
		if genv.layouts[mi.Msg.GetID()] == nil {
			other = mi
			break
		}
	}
	nHist := vh.Pick(300, 3000)
	cuts := 0
	for h := 0; h < nHist; h++ {
		g := &c20gen{r: vh.Sub(seed, fmt.Sprintf("c20-%d", h)), glist: glist, other: other}
		if h%2 == 0 {
			g.genv = genv
		}
		n := 1 + g.r.Intn(60)
		long := h%10 == 9
		if long {
			n = 150 + g.r.Intn(200) // well beyond 4096 bytes
		}
		huge := h%100 == 19
		if huge {
			n = 6000 + g.r.Intn(500) // a log of a few hundred KiB: beyond any buffer a reader might reasonably use
			long = true
		}
		var entries []*c20entry
		for i := 0; i < n; i++ {
			entries = append(entries, g.entry(true))
		}
		rw := &recWriter{}
		w := &tlog.Writer{ByteWriter: rw, DialectRW: g.drw()}
		if err := w.Initialize(); err != nil {
			rep.Violation("what=image", "tlog.Writer.Initialize failed on a valid configuration: "+err.Error(), nil)
			return
		}
		var image []byte
		var accepted []*c20entry
		bounds := []int{0}
		guard(rep, "what=panic", func() interface{} { return "writer history" }, func() {
			for i, e := range entries {
				rep.Eval(1)
				if huge && i%500 != 499 && i != len(entries)-1 && e.bad == "" {
					// the few-hundred-KiB log: the file is compared with the image every 500 entries and at the end
					if err := w.Write(&tlog.Entry{Time: e.t, Frame: e.frame()}); err != nil {
						rep.Violation("what=image", "a well-formed entry was refused: "+err.Error(), vh.Hex(e.image))
						return
					}
					image = append(image, e.image...)
					accepted = append(accepted, e)
					bounds = append(bounds, len(image))
					continue
				}
				before := len(rw.all())
				if e.bad == "not-in-dialect" && g.genv == nil {
					e.bad = "no-dialect"
				}
				err := w.Write(&tlog.Entry{Time: e.t, Frame: e.frame()})
				after := rw.all()
				if e.bad != "" {
					rep.Count("unencodable_entries", 1)
					if err == nil {
						rep.Violation("what=orphan:"+e.bad, "an entry whose frame cannot be encoded was accepted", e.bad)
					}
					if len(after) != before {
						rep.Violation("what=orphan:"+e.bad, fmt.Sprintf("an unencodable entry left %d bytes in the log", len(after)-before),
							map[string]interface{}{"class": e.bad, "position": i, "bytes": vh.Hex(after[before:])})
						return
					}
					continue
				}
				if err != nil {
					rep.Violation("what=image", "a well-formed entry was refused: "+err.Error(), vh.Hex(e.image))
					return
				}
				image = append(image, e.image...)
				accepted = append(accepted, e)
				bounds = append(bounds, len(image))
				if !bytes.Equal(after, image) {
					rep.Violation("what=image", fmt.Sprintf("log bytes after entry %d differ from the reference image (8-byte big-endian microsecond timestamp + frame)", i),
						map[string]interface{}{"want_tail": vh.Hex(e.image), "got_tail": vh.Hex(after[min(before, len(after)):])})
					return
				}
			}
		})
		rep.Distinct(image)
		rep.Count("entries_written", len(accepted))
		if h == 1 {
			rep.Sample(map[string]interface{}{"entries": len(accepted), "image_bytes": len(image), "first_entry": vh.Hex(accepted[0].image)})
		}
		if len(image) > 4096 {
			rep.Count("logs_longer_than_4096_bytes", 1)
		}
		// (2) round trip (also of whatever the file holds if the image check failed: the accepted entries)
		c20readBack(rep, g, rw.all(), accepted, "roundtrip")
		// (3) every cut offset
		step := 1
		if len(image) > 3000 && !vh.Thorough() {
			step = 53
		}
		if huge {
			step = len(image)/40 + 1
			rep.Count("logs_longer_than_128_KiB", 1)
		}
		for cut := 0; cut < len(image); cut += step {
			k := 0
			for k+1 < len(bounds) && bounds[k+1] <= cut {
				k++
			}
			rep.Eval(1)
			cuts++
			rel := "mid-frame"
			if cut == bounds[k] {
				rel = "boundary"
			} else if cut-bounds[k] < 8 {
				rel = "mid-timestamp"
			}
			c20readBack(rep, g, image[:cut], accepted[:k], "cut@"+rel)
		}
		// (4) write error at the k-th underlying Write
		if (!long || vh.Thorough()) && !huge {
			calls := rw.n
			for k := 1; k <= calls; k++ {
				rep.Eval(1)
				rep.Count("write_fault_positions", 1)
				// the error is a plain one or of the timeout class (a pipe, socket or serial device with a write deadline)
				werr := []error{errors.New("disk full"), fmt.Errorf("log device: %w", os.ErrDeadlineExceeded), &net.OpError{Op: "write", Net: "unix", Err: os.ErrDeadlineExceeded}}[(k/3)%3]
				if (k/3)%3 != 0 {
					rep.Count("write_faults_of_the_timeout_class", 1)
				}
				fw := &recWriter{failAt: k, err: werr, failMode: k % 3}
				var bw io.Writer = fw
				if k%2 == 0 {
					// a staged writer with a Flush method of its own whose write error is not sticky (Flush succeeds afterwards)
					bw = &flushingWriter{recWriter: fw}
					rep.Count("write_faults_on_writers_with_flush_method", 1)
				}
				w2 := &tlog.Writer{ByteWriter: bw, DialectRW: g.drw()}
				_ = w2.Initialize()
				reported := false
				failedIdx := -1
				for ei, e := range accepted {
					err := w2.Write(&tlog.Entry{Time: e.t, Frame: e.frame()})
					if err != nil {
						if reported {
							rep.Violation("what=werr@k", "a second write error was reported although the transport failed only once: "+err.Error(), k)
							break
						}
						reported = true
						failedIdx = ei
						if !errors.Is(err, werr) && err.Error() != werr.Error() {
							rep.Violation(fmt.Sprintf("what=werr@%s", "k"), "the transport's write error was replaced by another error: "+err.Error(), k)
						}
						// the application goes on logging: the transport works again
					}
				}
				if !reported {
					rep.Violation("what=werr@k", "a transport write error was not reported to the caller", map[string]interface{}{"k": k, "calls": calls})
				}
				if failedIdx >= 0 {
					// what reached the file: the entries before the failed one, of the failed one exactly what the transport took
					// (nothing / half / all), then every later entry, whole and once
					var want []byte
					for ei, e := range accepted {
						switch {
						case ei != failedIdx:
							want = append(want, e.image...)
						case fw.failMode == 1:
							want = append(want, e.image[:len(e.image)/2]...)
						case fw.failMode == 2:
							want = append(want, e.image...)
						}
					}
					if got := fw.all(); !bytes.Equal(got, want) {
						rep.Violation("what=werr@k", "after a reported write error the log does not consist of the earlier entries, what the transport took of the failed one, and the later entries (each whole and once)",
							map[string]interface{}{"k": k, "fail_mode": fw.failMode, "got_len": len(got), "want_len": len(want)})
					}
				}
			}
		}
	}
	rep.Count("cut_offsets", cuts)
	// an unencodable entry at EVERY position of a fixed history
	{
		g := &c20gen{r: vh.Sub(seed, "c20-positions"), glist: glist, other: other, genv: genv}
		var good []*c20entry
		for i := 0; i < vh.Pick(25, 50); i++ {
			good = append(good, g.entry(false))
		}
		for _, class := range []string{"v1-id", "not-in-dialect", "nil-message", "panic:nil-frame", "panic:signed-without-signature", "panic:oversized-raw"} {
			for pos := 0; pos <= len(good); pos++ {
				if strings.HasPrefix(class, "panic:") {
					// entries that make the encoder panic (an application bug; the application recovers and goes on logging with the
					// same Writer): whether Write panics or returns an error, nothing of the entry is in the file and the log stays
					// the concatenation of the accepted entries
					if pos%5 != 0 && pos != len(good) {
						continue
					}
					var bf frame.Frame
					switch class {
					case "panic:signed-without-signature":
						bf = &frame.V2Frame{IncompatibilityFlag: 1, SystemID: 1, ComponentID: 1, Message: &message.MessageRaw{ID: 77, Payload: []byte{1, 2, 3}}}
					case "panic:oversized-raw":
						bf = &frame.V2Frame{SystemID: 1, ComponentID: 1, Message: &message.MessageRaw{ID: 77, Payload: make([]byte, 700)}}
					}
					rep.Eval(1)
					rep.Count("panicking_entry_positions", 1)
					rw := &recWriter{}
					w := &tlog.Writer{ByteWriter: rw, DialectRW: genv.drw}
					_ = w.Initialize()
					var image []byte
					for i := 0; i <= len(good); i++ {
						if i == pos {
							before := len(rw.all())
							func() {
								defer func() {
									if recover() != nil {
										rep.Count("entries_that_made_write_panic", 1)
									}
								}()
								_ = w.Write(&tlog.Entry{Time: c20time(g.r), Frame: bf})
							}()
							if class != "panic:oversized-raw" && len(rw.all()) != before {
								rep.Violation("what=orphan:"+class, "an entry that cannot be encoded (the encoder panicked or refused) left bytes in the log", map[string]interface{}{"position": pos})
							}
							if len(rw.all()) != before {
								break // (an oversized raw payload that the writer accepts is outside the statement: stop this history)
							}
						}
						if i < len(good) {
							_ = w.Write(&tlog.Entry{Time: good[i].t, Frame: good[i].frame()})
							image = append(image, good[i].image...)
						}
					}
					if len(image) > 0 && bytes.HasPrefix(image, rw.all()) && len(rw.all()) != len(image) && class == "panic:oversized-raw" {
						continue
					}
					if !bytes.Equal(rw.all(), image) {
						rep.Violation("what=orphan:"+class, "after an entry that made the encoder panic (recovered by the application) the log is no longer the concatenation of the accepted entries",
							map[string]interface{}{"position": pos, "log_len": len(rw.all()), "want_len": len(image)})
					}
					continue
				}
				rep.Eval(1)
				rep.Count("unencodable_positions", 1)
				bad := &c20entry{t: c20time(g.r), bad: class, spec: c01random(g.r, c01cfg{version: 1})}
				bad.spec.MsgID = 300
				if class == "not-in-dialect" {
					bad.spec = c01random(g.r, c01cfg{version: 2})
					bad.val = reflect.New(other.Type)
				}
				rw := &recWriter{}
				w := &tlog.Writer{ByteWriter: rw, DialectRW: genv.drw}
				_ = w.Initialize()
				var image []byte
				guard(rep, "what=panic", func() interface{} { return class }, func() {
					for i := 0; i <= len(good); i++ {
						if i == pos {
							before := len(rw.all())
							if err := w.Write(&tlog.Entry{Time: bad.t, Frame: bad.frame()}); err == nil {
								rep.Violation("what=orphan:"+class, "an unencodable entry was accepted", pos)
							}
							if len(rw.all()) != before {
								rep.Violation("what=orphan:"+class, "an unencodable entry left bytes in the log", map[string]interface{}{"position": pos})
							}
						}
						if i < len(good) {
							_ = w.Write(&tlog.Entry{Time: good[i].t, Frame: good[i].frame()})
							image = append(image, good[i].image...)
						}
					}
				})
				if !bytes.Equal(rw.all(), image) {
					rep.Violation("what=orphan:"+class, "after an unencodable entry the log is no longer the concatenation of the accepted entries",
						map[string]interface{}{"position": pos, "log_len": len(rw.all()), "want_len": len(image)})
				}
				c20readBack(rep, g, rw.all(), good, "orphan:"+class)
			}
		}
	}
	// (6) several logs written at the same time by goroutines of their own (one Writer each, slow underlying writers),
	// unencodable entries mixed in: every log is exactly the image of its own accepted entries
	{
		const G = 6
		type res struct {
			got, want []byte
		}
		out := make([]res, G)
		var wg sync.WaitGroup
		for gi := 0; gi < G; gi++ {
			wg.Add(1)
			g := &c20gen{r: vh.Sub(seed, fmt.Sprintf("c20-conc-%d", gi)), glist: glist, other: other, genv: genv}
			var entries []*c20entry
			for i := 0; i < vh.Pick(150, 1500); i++ {
				entries = append(entries, g.entry(i%7 == 3))
			}
			go func(gi int) {
				defer wg.Done()
				defer func() {
					if p := recover(); p != nil {
						rep.Violation("what=panic", fmt.Sprintf("tlog.Writer panicked while other writers were in use: %v", p), nil)
					}
				}()
				sw := &slowWriter{}
				w := &tlog.Writer{ByteWriter: sw, DialectRW: genv.drw}
				if err := w.Initialize(); err != nil {
					return
				}
				for _, e := range entries {
					err := w.Write(&tlog.Entry{Time: e.t, Frame: e.frame()})
					if e.bad == "" && err == nil {
						out[gi].want = append(out[gi].want, e.image...)
					}
				}
				out[gi].got = sw.buf
			}(gi)
		}
		wg.Wait()
		for gi := range out {
			rep.Eval(1)
			rep.Count("concurrently_written_logs", 1)
			rep.Distinct("conc", gi, out[gi].want)
			if !bytes.Equal(out[gi].got, out[gi].want) {
				rep.Violation("what=image", "a log written while other tlog.Writers were in use (after unencodable entries) differs from the image of its own entries",
					map[string]interface{}{"log": gi, "got_len": len(out[gi].got), "want_len": len(out[gi].want)})
			}
		}
	}
	_ = io.EOF
	rep.Floor("cut_offsets", 5000)
	rep.Floor("logs_longer_than_4096_bytes", 3)
	rep.Floor("unencodable_entries", 50)
}

// flushingWriter is a recWriter with a Flush method (a staged / rotating file): Flush always succeeds.
type flushingWriter struct {
	*recWriter
	flushes int
}

func (f *flushingWriter) Flush() error { f.flushes++; return nil }

// slowWriter takes its time inside Write and only then looks at the bytes it was handed.
type slowWriter struct {
	buf []byte
	n   int
}

func (s *slowWriter) Write(p []byte) (int, error) {
	s.n++
	if s.n%3 == 0 {
		time.Sleep(20 * time.Microsecond)
	} else {
		runtime.Gosched()
	}
	s.buf = append(s.buf, p...)
	return len(p), nil
}
