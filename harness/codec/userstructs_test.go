package codec

import (
	"reflect"
	"strings"

	"github.com/bluenviron/gomavlib/v3/pkg/message"

	"verifharness/ref"
	twincommon "verifharness/twin/common"
)

// User-defined message structs covering shapes the shipped dialects lack or have once.

type (
	vfEnumA uint64
	vfEnumB uint64
)

// length-1 arrays and strings, next to a scalar char
type MessageVfOne struct {
	A [1]uint8
	B string `mavlen:"1"`
	C uint16
	D string
	E [1]float32
}

func (*MessageVfOne) GetID() uint32 { return 50001 }

// every scalar type, declared in ascending size (forces a full reorder)
type MessageVfAllTypes struct {
	U8  uint8
	I8  int8
	Ch  string
	U16 uint16
	I16 int16
	U32 uint32
	I32 int32
	F32 float32
	U64 uint64
	I64 int64
	F64 float64
}

func (*MessageVfAllTypes) GetID() uint32 { return 50002 }

// equal sizes interleaved: only a stable sort keeps declaration order
type MessageVfStable struct {
	A1 uint16
	B1 uint32
	A2 int16
	B2 float32
	A3 uint16
	C1 uint8
	B3 int32
	C2 int8
	A4 [2]int16
	C3 string `mavlen:"3"`
	B4 [2]uint32
	C4 [2]uint8
	D1 float64
	C5 vfEnumA `mavenum:"uint8"`
	A5 vfEnumB `mavenum:"uint16"`
	D2 uint64
}

func (*MessageVfStable) GetID() uint32 { return 50003 }

// extensions of mixed widths, narrower before wider, arrays of 8-byte types and enum arrays among them
type MessageVfExtMix struct {
	Base1 uint8
	Base2 uint32
	X1    uint8      `mavext:"true"`
	X2    uint64     `mavext:"true"`
	X3    [2]int64   `mavext:"true"`
	X4    uint16     `mavext:"true"`
	X5    [3]float64 `mavext:"true"`
	X6    [2]vfEnumA `mavenum:"uint8" mavext:"true"`
	X7    string     `mavext:"true" mavlen:"5"`
	X8    [2]vfEnumB `mavenum:"uint32" mavext:"true"`
	X9    int8       `mavext:"true"`
	X10   [2]float32 `mavext:"true"`
}

func (*MessageVfExtMix) GetID() uint32 { return 50004 }

// names that are not plain snake case
type MessageVfMavname struct {
	TestString string `mavlen:"16" mavname:"Test_string"`
	CamelCase  uint8  `mavname:"camelCase"`
	Plain      uint8
	Q1         float32
	Param_1    uint16 //nolint
	Vx         int16
	AltMSL     int32 `mavname:"alt_MSL"`
}

func (*MessageVfMavname) GetID() uint32 { return 50005 }

// largest payloads
type MessageVfBig255 struct {
	Data [255]uint8
}

func (*MessageVfBig255) GetID() uint32 { return 50006 }

type MessageVfBigString struct {
	Seq  uint16
	Text string `mavlen:"253"`
}

func (*MessageVfBigString) GetID() uint32 { return 50007 }

type MessageVfSingle struct {
	V uint8
}

func (*MessageVfSingle) GetID() uint32 { return 50008 }

// enums on every wire type that can carry one, scalars and arrays
type MessageVfEnums struct {
	E8   vfEnumA    `mavenum:"uint8"`
	Ei8  vfEnumA    `mavenum:"int8"`
	E16  vfEnumA    `mavenum:"uint16"`
	E32  vfEnumB    `mavenum:"uint32"`
	Ei32 vfEnumB    `mavenum:"int32"`
	E64  vfEnumB    `mavenum:"uint64"`
	A8   [3]vfEnumA `mavenum:"uint8"`
	A16  [2]vfEnumA `mavenum:"uint16"`
	A32  [2]vfEnumB `mavenum:"int32"`
	A64  [2]vfEnumB `mavenum:"uint64"`
}

func (*MessageVfEnums) GetID() uint32 { return 50009 }

// base fields full, then a 200-byte extension string (255 in total)
type MessageVfBaseAndBigExt struct {
	Target uint8
	Tune   string `mavlen:"30"`
	Tune2  string `mavext:"true" mavlen:"224"`
}

func (*MessageVfBaseAndBigExt) GetID() uint32 { return 50010 }

// message name with digits and underscore-digit groups
type MessageVfEsc_1To_4 struct { //nolint
	Temp [4]uint8
	Volt [4]uint16
}

func (*MessageVfEsc_1To_4) GetID() uint32 { return 50011 }

type MessageVf2Gps2Raw struct {
	Chan1Raw uint16
	Chan2Raw uint16
	Rssi     uint8
}

func (*MessageVf2Gps2Raw) GetID() uint32 { return 50012 }

// doubles and int64 arrays in the base part
type MessageVfWide struct {
	A uint8
	B [4]float64
	C [3]int64
	D [2]uint64
	E float32
}

func (*MessageVfWide) GetID() uint32 { return 50013 }

// id above 65535 and a v1-compatible id
type MessageVfHighID struct {
	A uint32
	B string `mavlen:"4"`
}

func (*MessageVfHighID) GetID() uint32 { return 0xABCDEF }

type MessageVfLowID struct {
	A int16
	B [3]int8
	C string `mavlen:"7"`
	X uint8  `mavext:"true"`
}

func (*MessageVfLowID) GetID() uint32 { return 201 }

// a vendor variant that has the same struct name as a shipped message (common.MessageDebug) but another definition
type MessageDebug struct {
	Value float64
	Ind   uint16
	Note  string `mavlen:"6"`
}

func (*MessageDebug) GetID() uint32 { return 50020 }

// char[1]: an array of one character (its length byte is part of CRC_EXTRA), next to a scalar char
type MessageVfCharOne struct {
	A uint16
	S string `mavlen:"1"`
	T string
	U string `mavlen:"2"`
}

func (*MessageVfCharOne) GetID() uint32 { return 50041 }

// a struct written by a generator that spells the tag out on every field: only mavext:"true" marks an extension
type MessageVfExtSpelled struct {
	A uint8    `mavext:"false"`
	B uint32   `mavext:"false"`
	C [2]int16 `mavext:"false"`
	D string   `mavext:"false" mavlen:"3"`
	E uint16   `mavext:""`
	X uint64   `mavext:"true"`
	Y uint8    `mavext:"true"`
}

func (*MessageVfExtSpelled) GetID() uint32 { return 50040 }

// structs that the library may or may not accept (the documentation is silent): IF Initialize accepts one, it is a user
// struct like any other and must follow the spec layout
type MessageVfMaybeEnumInt16 struct {
	A uint8
	B vfEnumA `mavenum:"int16"`
	C uint16
	D uint8
}

func (*MessageVfMaybeEnumInt16) GetID() uint32 { return 50030 }

type MessageVfMaybeEnumInt8Array struct {
	A [3]vfEnumB `mavenum:"int8"`
	B uint32
}

func (*MessageVfMaybeEnumInt8Array) GetID() uint32 { return 50031 }

type MessageVfMaybeEnumUint64 struct {
	A uint8
	B vfEnumA `mavenum:"uint64"`
}

func (*MessageVfMaybeEnumUint64) GetID() uint32 { return 50032 }

type vfCelsius float32

type vfMode uint8

type MessageVfMaybeNamedTypes struct {
	A uint8
	T vfCelsius
	M vfMode
	B uint16
	C [2]vfMode
}

func (*MessageVfMaybeNamedTypes) GetID() uint32 { return 50033 }

// an enum-typed field whose mavenum tag was forgotten
type MessageVfMaybeUntaggedEnum struct {
	A uint8
	E vfEnumA
	B uint32
}

func (*MessageVfMaybeUntaggedEnum) GetID() uint32 { return 50034 }

// wire names outside ASCII (a definition written by hand): CRC_EXTRA is computed over the BYTES of the names
type MessageVfUnicodeName struct {
	Hoehe   float32 `mavname:"höhe_m"`
	Groesse uint16  `mavname:"größe"`
	Plain   uint8
	Ja      string `mavlen:"4" mavname:"日本"`
}

func (*MessageVfUnicodeName) GetID() uint32 { return 50042 }

// a hand-written struct that declares an extension BEFORE a regular field (no XML definition can say that, so only its v1
// form is judged, in C09: v1 leaves extensions out wherever they stand in the Go struct; base fields of one size keep
// their declaration order)
type MessageVfExtEarly struct {
	A uint8
	X uint8 `mavext:"true"`
	B uint8
}

func (*MessageVfExtEarly) GetID() uint32 { return 243 }

func maybeMessages() []message.Message {
	return []message.Message{&MessageVfMaybeEnumInt16{}, &MessageVfMaybeEnumInt8Array{}, &MessageVfMaybeEnumUint64{}, &MessageVfMaybeNamedTypes{}, &MessageVfMaybeUntaggedEnum{}, &MessageVfUnicodeName{}}
}

func userMessages() []message.Message {
	return []message.Message{
		&MessageVfOne{}, &MessageVfAllTypes{}, &MessageVfStable{}, &MessageVfExtMix{}, &MessageVfMavname{},
		&MessageVfBig255{}, &MessageVfBigString{}, &MessageVfSingle{}, &MessageVfEnums{}, &MessageVfBaseAndBigExt{},
		&MessageVfEsc_1To_4{}, &MessageVf2Gps2Raw{}, &MessageVfWide{}, &MessageVfHighID{}, &MessageVfLowID{}, &MessageDebug{}, &MessageVfExtSpelled{}, &MessageVfCharOne{},
		// a user package called "common" with messages that carry the names and ids of shipped ones and other definitions
		&twincommon.MessageHeartbeat{}, &twincommon.MessageDebug{}, &twincommon.MessageParamRequestRead{},
	}
}

// userMsgInfos initialises the user structs with the real codec and the reference layout.
func userMsgInfos() ([]*msgInfo, error) {
	var out []*msgInfo
	msgs := userMessages()
	for _, m := range maybeMessages() {
		if err := (&message.ReadWriter{Message: m}).Initialize(); err == nil {
			msgs = append(msgs, m) // accepted: then it counts
		}
	}
	for _, m := range msgs {
		mi := &msgInfo{Name: "user." + reflect.TypeOf(m).Elem().Name(), Msg: m, Type: reflect.TypeOf(m).Elem()}
		if strings.HasSuffix(mi.Type.PkgPath(), "twin/common") {
			mi.Name = "twin.common." + mi.Type.Name()
		}
		l, err := ref.LayoutOf(mi.Type)
		if err != nil {
			return nil, err
		}
		mi.Layout = l
		mi.RW = &message.ReadWriter{Message: m}
		if err := mi.RW.Initialize(); err != nil {
			return nil, err
		}
		out = append(out, mi)
	}
	return out, nil
}
