package codec

import (
	"bytes"
	"fmt"
	"reflect"
	"testing"
	"time"

	"github.com/bluenviron/gomavlib/v3"
	"github.com/bluenviron/gomavlib/v3/pkg/dialect"
	"github.com/bluenviron/gomavlib/v3/pkg/frame"
	"github.com/bluenviron/gomavlib/v3/pkg/message"

	"verifharness/fake"
	"verifharness/ref"
	"verifharness/vh"
)

// C08 — routing transparency.

type c08enc struct {
	class   string
	payload []byte
}

// c08encodings returns wire payloads of one value: canonical and non-canonical forms.
func c08encodings(r *vh.RNG, mi *msgInfo, val reflect.Value, version int, deep bool) []c08enc {
	v2 := version == 2
	full := mi.Layout.EncodeFull(val, v2)
	var out []c08enc
	if !v2 {
		out = append(out, c08enc{"canonical", full})
	} else {
		tr := ref.Truncate(full)
		out = append(out, c08enc{"canonical", append([]byte(nil), tr...)})
		// zeros not truncated: every amount (deep) or a few
		for n := len(tr) + 1; n <= len(full); n++ {
			if !deep && n != len(full) && n != len(tr)+1 && r.Intn(8) != 0 {
				continue
			}
			out = append(out, c08enc{"zeros", append([]byte(nil), full[:n]...)})
		}
		// unknown trailing bytes (non-zero) after the full payload
		if len(full) < 255 {
			for _, k := range []int{1, 3, 255 - len(full)} {
				if k <= 0 || len(full)+k > 255 {
					continue
				}
				t := r.Bytes(k)
				for i := range t {
					if t[i] == 0 {
						t[i] = 0x5A
					}
				}
				out = append(out, c08enc{"tail", append(append([]byte(nil), full...), t...)})
			}
		}
	}
	// non-zero bytes after a string terminator
	for i := range mi.Layout.Fields {
		f := &mi.Layout.Fields[i]
		if !f.IsString || f.Count < 2 || (f.Ext && !v2) {
			continue
		}
		p := append([]byte(nil), full...)
		fld := p[f.Offset : f.Offset+f.Count]
		nul := bytes.IndexByte(fld, 0)
		if nul < 0 {
			nul = r.Intn(f.Count)
			fld[nul] = 0
		}
		if nul+1 >= f.Count {
			continue
		}
		for k := nul + 1; k < f.Count; k++ {
			fld[k] = byte(0x41 + r.Intn(26))
		}
		out = append(out, c08enc{"afternul", p})
	}
	return out
}

type c08env struct {
	rep  *vh.Report
	genv *gateEnv
}

// checkForwarded verifies the forwarded wire image of one frame (dialect case).
func (e *c08env) checkForwarded(api string, mi *msgInfo, in *ref.FrameSpec, inWire, outWire []byte, class string, nextKey *frame.V2Key) {
	key := func(what string) string {
		return fmt.Sprintf("msg=%s ver=%d enc=%s what=%s", mi.Name, in.Version, class, what)
	}
	wit := func() interface{} {
		return map[string]interface{}{"api": api, "msg": mi.Name, "enc": class, "received": vh.Hex(inWire), "forwarded": vh.Hex(outWire)}
	}
	f, n, st := ref.ParseAt(outWire, 0)
	if st != ref.ParseOK || n != len(outWire) {
		e.rep.Violation(key("bytes"), "forwarded bytes are not exactly one frame", wit())
		return
	}
	if f.Version != in.Version || f.Incompat != in.Incompat || f.Compat != in.Compat || f.Seq != in.Seq || f.Sys != in.Sys || f.Comp != in.Comp || f.MsgID != in.MsgID {
		e.rep.Violation(key("header"), "forwarded frame does not keep version / flags / sequence / system id / component id", wit())
		return
	}
	if f.Checksum != ref.ChecksumOfWire(outWire, mi.Layout.CRCExtra) {
		e.rep.Violation(key("checksum"), "forwarded checksum is not correct for the payload actually sent", wit())
		return
	}
	// next hop: real reader with the dialect
	rd := &frame.Reader{ByteReader: bytes.NewReader(outWire), DialectRW: e.genv.drw, InKey: nextKey}
	_ = rd.Initialize()
	fr, err := rd.Read()
	if err != nil {
		e.rep.Violation(key("checksum"), "next hop rejected the forwarded frame: "+err.Error(), wit())
		return
	}
	want, _ := mi.Layout.Decode(in.Payload, in.Version == 2)
	m := frameMessage(fr)
	if reflect.TypeOf(m) != want.Type() {
		e.rep.Violation(key("decode"), fmt.Sprintf("next hop decoded %T", m), wit())
		return
	}
	if eq, diff := mi.Layout.BitEqual(reflect.ValueOf(m), want); !eq {
		e.rep.Violation(key("decode"), "next hop decoded a different message (field "+diff+")", wit())
	}
}

// routerNode is a real Node routing between two custom transports.
type routerNode struct {
	node   *gomavlib.Node
	a, b   *fake.Transport
	onFrom func(fr frame.Frame) // called in the consumer before forwarding
	done   chan struct{}
}

func newRouter(d *dialect.Dialect, version gomavlib.Version, outKey *frame.V2Key, onFrom func(n *gomavlib.Node, fr frame.Frame)) (*routerNode, error) {
	rt := &routerNode{a: fake.NewTransport("A"), b: fake.NewTransport("B"), done: make(chan struct{})}
	rt.node = &gomavlib.Node{
		Endpoints:        []gomavlib.EndpointConf{gomavlib.EndpointCustom{ReadWriteCloser: rt.a}, gomavlib.EndpointCustom{ReadWriteCloser: rt.b}},
		Dialect:          d,
		OutVersion:       version,
		OutSystemID:      200,
		OutKey:           outKey,
		HeartbeatDisable: true,
	}
	if err := rt.node.Initialize(); err != nil {
		return nil, err
	}
	var chA, chB *gomavlib.Channel
	opened := 0
	for opened < 2 {
		if o, ok := (<-rt.node.Events()).(*gomavlib.EventChannelOpen); ok {
			opened++
			if o.Channel.Endpoint().Conf().(gomavlib.EndpointCustom).ReadWriteCloser == rt.a {
				chA = o.Channel
			} else {
				chB = o.Channel
			}
		}
	}
	go func() {
		defer close(rt.done)
		n := 0
		for evt := range rt.node.Events() {
			if ef, ok := evt.(*gomavlib.EventFrame); ok && ef.Channel == chA {
				if onFrom != nil {
					onFrom(rt.node, ef.Frame)
				}
				// the three ways of forwarding, in rotation; what B receives is the same
				handed := ef.Frame.GetMessage() // the decoded message value the application was handed with the event
				n++
				switch n % 3 {
				case 0:
					_ = rt.node.WriteFrameExcept(ef.Channel, ef.Frame)
				case 1:
					_ = rt.node.WriteFrameTo(chB, ef.Frame)
				case 2:
					_ = rt.node.WriteFrameAll(ef.Frame)
				}
				// once the write call has returned the frame is the application's again: it wipes the message it was handed
				// (a pooled struct reused for the next event); what was forwarded is what the frame held at the time of the call
				if _, raw := handed.(*message.MessageRaw); handed != nil && !raw {
					if v := reflect.ValueOf(handed); v.Kind() == reflect.Ptr && v.Elem().CanSet() {
						v.Elem().Set(reflect.Zero(v.Elem().Type()))
					}
				}
			}
		}
	}()
	return rt, nil
}

// forward pushes frames through the router in flow-controlled batches and returns what came out of B, per frame.
func (rt *routerNode) forward(rep *vh.Report, wires [][]byte, perIn int) [][]byte {
	out := make([][]byte, 0, len(wires))
	base := rt.b.NWrites()
	for i := 0; i < len(wires); i += 16 {
		end := min(i+16, len(wires))
		for _, w := range wires[i:end] {
			rt.a.Feed(w)
		}
		if got := rt.b.WaitWrites(base+end*perIn, 3*time.Second); got < base+end*perIn {
			rep.Count("router_not_forwarded", base+end*perIn-got)
			break
		}
	}
	for i := base; i < rt.b.NWrites(); i++ {
		out = append(out, rt.b.WriteAt(i).Data)
	}
	return out
}

func (rt *routerNode) close() {
	rt.node.Close()
	<-rt.done
}

func TestC08(t *testing.T) {
	rep := vh.NewReport("C08")
	defer rep.Finish(t)
	rep.Rule("(1) no dialect: random frames (v1, v2, signed) through k=1..4 hops of fresh frame.Reader->frame.Writer and through a real Node router (WriteFrameExcept): bytes out == bytes in; " +
		"(2) dialect: per message type x {v1,v2} x {unsigned, signed} encodings {canonical, zeros not truncated (every amount), unknown non-zero trailing bytes, non-zero bytes after a string NUL} " +
		"forwarded reader->writer over 1..3 hops and through a Node router: one frame, header kept, checksum = reference over the forwarded bytes, accepted and decoded to the same value by a next-hop real reader; " +
		"(3) edit + Node.FixFrame (edited message field / header; also forward-then-edit-then-fix) validates at a next hop with the dialect and InKey=OutKey. distinct = distinct received wire images")
	rep.RuleAdd("Also: the router forwards with WriteFrameTo / All / Except in rotation and wipes the decoded message it was handed once the call has returned. Router nodes configured with OutVersion V1; two value copies of a received frame edited and fixed before either is written.")
	rep.RuleAdd("Rounds 12-15: routers that wipe the handed message, routers of the other protocol version, fan-out copies, one frame object to two writers, unsigned input into keyed routers.")
	rep.RuleAdd("Rounds 16-17: both routing entry points of frame.Writer (Write and the deprecated WriteFrame) in turn.")
	rep.Assume("signed frames forwarded with a dialect go to a next hop without InKey (the statement promises checksum validity there, not signature survival)")
	seed := vh.Seed()
	r := vh.Sub(seed, "c08")
	all := shippedOrViolation(rep, t)
	var err error
	_ = err
	deep := vh.Thorough()

	// (1) without dialect
	{
		n := vh.Pick(4000, 200000)
		var batch [][]byte
		for i := 0; i < n; i++ {
			cfg := c01cfg{version: 1 + r.Intn(2)}
			cfg.signed = cfg.version == 2 && r.Chance(1, 2)
			s := c01random(r, cfg)
			w := ref.Serialize(s)
			rep.Eval(1)
			rep.Distinct(w)
			cur := w
			hops := 1 + r.Intn(4)
			guard(rep, "what=panic nodialect", func() interface{} { return vh.Hex(w) }, func() {
				for h := 0; h < hops; h++ {
					rd := &frame.Reader{ByteReader: bytes.NewReader(cur)}
					_ = rd.Initialize()
					fr, err := rd.Read()
					if err != nil {
						rep.Violation(fmt.Sprintf("msg=raw ver=%d enc=raw what=bytes", s.Version), "reader without dialect rejected a well-formed frame: "+err.Error(), vh.Hex(w))
						return
					}
					rw := &recWriter{}
					fw := &frame.Writer{ByteWriter: rw}
					_ = fw.Initialize()
					if err := c08forward(fw, fr); err != nil {
						rep.Violation(fmt.Sprintf("msg=raw ver=%d enc=raw what=bytes", s.Version), "writer refused to forward: "+err.Error(), vh.Hex(w))
						return
					}
					cur = rw.all()
					if !bytes.Equal(cur, w) {
						rep.Violation(fmt.Sprintf("msg=raw ver=%d enc=raw what=bytes", s.Version), fmt.Sprintf("forwarded bytes differ from received bytes after hop %d (no dialect)", h+1),
							map[string]interface{}{"received": vh.Hex(w), "forwarded": vh.Hex(cur)})
						return
					}
				}
			})
			rep.Count("nodialect_hops", hops)
			if i < vh.Pick(600, 6000) {
				batch = append(batch, w)
			}
		}
		// a relay that drains a burst first and forwards afterwards: frames retained across later reads stay intact
		for rounds := 0; rounds < vh.Pick(6, 100); rounds++ {
			var specs [][]byte
			var stream []byte
			for i := 0; i < 8+r.Intn(20); i++ {
				cfg := c01cfg{version: 1 + r.Intn(2)}
				cfg.signed = cfg.version == 2 && r.Chance(2, 3)
				w := ref.Serialize(c01random(r, cfg))
				specs = append(specs, w)
				stream = append(stream, w...)
			}
			rd := &frame.Reader{ByteReader: &chunkReader{data: stream, r: r.Fork(), max: 300}}
			_ = rd.Initialize()
			var held []frame.Frame
			for range specs {
				fr, err := rd.Read()
				if err != nil {
					break
				}
				held = append(held, fr)
			}
			rw := &recWriter{}
			fw := &frame.Writer{ByteWriter: rw}
			_ = fw.Initialize()
			for i, fr := range held {
				rw.reset()
				_ = c08forward(fw, fr)
				rep.Eval(1)
				rep.Count("drained_then_forwarded", 1)
				if !bytes.Equal(rw.all(), specs[i]) {
					rep.Violation("msg=raw ver=0 enc=raw what=bytes", "a frame kept while later frames were read from the same reader is forwarded with different bytes",
						map[string]interface{}{"received": vh.Hex(specs[i]), "forwarded": vh.Hex(rw.all()), "index": i})
					break
				}
			}
		}
		rt, err := newRouter(nil, gomavlib.V2, nil, nil)
		if err != nil {
			t.Fatal(err)
		}
		outs := rt.forward(rep, batch, 1)
		rt.close()
		if len(outs) != len(batch) {
			rep.Violation("msg=raw ver=0 enc=raw what=bytes", fmt.Sprintf("Node router (no dialect) forwarded %d of %d frames", len(outs), len(batch)), nil)
		}
		for i := range outs {
			rep.Eval(1)
			rep.Count("node_router_frames", 1)
			if !bytes.Equal(outs[i], batch[i]) {
				rep.Violation("msg=raw ver=0 enc=raw what=bytes", "Node router without dialect changed the bytes of a forwarded frame",
					map[string]interface{}{"received": vh.Hex(batch[i]), "forwarded": vh.Hex(outs[i])})
				break
			}
		}
	}

	// (2) with dialect
	pick := pickMsgs(vh.Sub(seed, "c08-msgs"), all, vh.Pick(100, 0))
	// make sure messages with strings (base and extension) are present
	for _, mi := range all {
		for i := range mi.Layout.Fields {
			if mi.Layout.Fields[i].IsString && mi.Layout.Fields[i].Count > 2 && r.Chance(1, vh.Pick(4, 1)) {
				pick = append(pick, mi)
				break
			}
		}
	}
	genv, err := newGateEnv(pick)
	if err != nil {
		t.Fatal(err)
	}
	env := &c08env{rep: rep, genv: genv}
	var dmsgs []message.Message
	for _, mi := range genv.sorted() {
		dmsgs = append(dmsgs, mi.Msg)
	}
	type routed struct {
		mi    *msgInfo
		in    *ref.FrameSpec
		wire  []byte
		class string
	}
	var forRouter []routed
	nVals := vh.Pick(6, 12)
	for _, mi := range genv.sorted() {
		for _, version := range []int{1, 2} {
			if version == 1 && mi.Msg.GetID() > 255 {
				continue
			}
			for k := 0; k < nVals; k++ {
				val := reflect.New(mi.Type)
				mode := vh.ModeMixed
				if k%2 == 1 {
					mode = vh.ModeZeroTail
				}
				vh.FillMessage(r, mi.Layout, val, mode)
				for _, enc := range c08encodings(r, mi, val, version, deep) {
					signed := version == 2 && r.Chance(1, 3)
					s := c01random(r, c01cfg{version: version, signed: signed})
					s.MsgID = mi.Msg.GetID()
					s.Payload = enc.payload
					ref.Seal(s, mi.Layout.CRCExtra, nil)
					w := ref.Serialize(s)
					rep.Eval(1)
					rep.Distinct(w)
					rep.Count("dialect_encodings_"+enc.class, 1)
					if len(forRouter) < vh.Pick(1500, 20000) && r.Chance(1, 2) {
						forRouter = append(forRouter, routed{mi, s, w, enc.class})
					}
					cur := w
					guard(rep, fmt.Sprintf("msg=%s ver=%d enc=%s what=panic", mi.Name, version, enc.class), func() interface{} { return vh.Hex(w) }, func() {
						hops := 1 + r.Intn(3)
						for h := 0; h < hops; h++ {
							rd := &frame.Reader{ByteReader: bytes.NewReader(cur), DialectRW: genv.drw}
							_ = rd.Initialize()
							fr, err := rd.Read()
							if err != nil {
								if h == 0 {
									rep.Violation(fmt.Sprintf("msg=%s ver=%d enc=%s what=bytes", mi.Name, version, enc.class),
										"reader with dialect rejected a well-formed frame: "+err.Error(), vh.Hex(w))
								}
								return
							}
							rw := &recWriter{}
							fw := &frame.Writer{ByteWriter: rw, DialectRW: genv.drw}
							_ = fw.Initialize()
							if err := c08forward(fw, fr); err != nil {
								rep.Violation(fmt.Sprintf("msg=%s ver=%d enc=%s what=bytes", mi.Name, version, enc.class), "writer refused to forward: "+err.Error(), vh.Hex(w))
								return
							}
							cur = rw.all()
							env.checkForwarded("reader->writer", mi, s, w, cur, enc.class, nil)
							if k == 0 {
								// frame-level fan-out: the same frame object goes to a second link's writer (and to a log) - what each
								// of them emits is the same valid frame
								rw2 := &recWriter{}
								fw2 := &frame.Writer{ByteWriter: rw2, DialectRW: genv.drw}
								_ = fw2.Initialize()
								if err := c08forward(fw2, fr); err != nil {
									rep.Violation(fmt.Sprintf("msg=%s ver=%d enc=%s what=bytes", mi.Name, version, enc.class), "a second writer refused the frame the first one had taken: "+err.Error(), vh.Hex(w))
									return
								}
								rep.Count("frames_written_to_two_writers", 1)
								env.checkForwarded("reader->two-writers", mi, s, w, rw2.all(), enc.class, nil)
								if !bytes.Equal(rw2.all(), cur) {
									rep.Violation(fmt.Sprintf("msg=%s ver=%d enc=%s what=bytes", mi.Name, version, enc.class), "one frame object written to two writers came out with different bytes",
										map[string]interface{}{"first": vh.Hex(cur), "second": vh.Hex(rw2.all())})
									return
								}
							}
							if rep.NViolations() > 50 {
								return
							}
						}
					})
				}
			}
		}
	}
	// the same through a real Node used as a router, with the dialect; the version the router uses for what it originates
	// itself (OutVersion) has no say in how a frame it forwards is encoded
	for _, routerVersion := range []gomavlib.Version{gomavlib.V2, gomavlib.V1} {
		rt, err := newRouter(&dialect.Dialect{Version: 3, Messages: dmsgs}, routerVersion, nil, nil)
		if err != nil {
			t.Fatal(err)
		}
		rep.Count("router_out_versions", 1)
		wires := make([][]byte, len(forRouter))
		for i := range forRouter {
			wires[i] = forRouter[i].wire
		}
		outs := rt.forward(rep, wires, 1)
		rt.close()
		if len(outs) != len(wires) {
			rep.Violation("msg=* ver=0 enc=* what=bytes", fmt.Sprintf("Node router (dialect) forwarded %d of %d accepted frames", len(outs), len(wires)), nil)
		} else {
			for i := range outs {
				rep.Eval(1)
				rep.Count("node_router_dialect_frames", 1)
				env.checkForwarded("node-router", forRouter[i].mi, forRouter[i].in, wires[i], outs[i], forRouter[i].class, nil)
			}
		}
	}

	// frames whose id is NOT in the router's dialect travel through a dialect node byte for byte
	{
		rt, err := newRouter(&dialect.Dialect{Version: 3, Messages: dmsgs}, gomavlib.V2, nil, nil)
		if err != nil {
			t.Fatal(err)
		}
		var wires [][]byte
		for i := 0; i < vh.Pick(300, 5000); i++ {
			cfg := c01cfg{version: 1 + r.Intn(2)}
			cfg.signed = cfg.version == 2 && r.Chance(1, 2)
			s := c01random(r, cfg)
			for genv.drw.GetMessage(s.MsgID) != nil {
				s.MsgID = (s.MsgID + 1) & 0xFF
			}
			wires = append(wires, ref.Serialize(s))
		}
		outs := rt.forward(rep, wires, 1)
		rt.close()
		if len(outs) != len(wires) {
			rep.Violation("msg=unknown ver=0 enc=raw what=bytes", fmt.Sprintf("Node router (dialect) forwarded %d of %d frames with ids outside its dialect", len(outs), len(wires)), nil)
		}
		for i := range outs {
			rep.Eval(1)
			rep.Count("node_router_unknown_id_frames", 1)
			if !bytes.Equal(outs[i], wires[i]) {
				rep.Violation("msg=unknown ver=0 enc=raw what=bytes", "a frame with an id outside the router's dialect was forwarded with different bytes",
					map[string]interface{}{"received": vh.Hex(wires[i]), "forwarded": vh.Hex(outs[i])})
				break
			}
		}
	}

	// (3) edit + FixFrame
	for _, withKey := range []bool{false, true} {
		for _, mode := range []string{"edit-message", "edit-header", "forward-then-edit", "no-edit", "edit-signature-fields", "fan-out-copies"} {
			keyRaw := r.Bytes(32)
			inKeyRaw := keyRaw
			if mode == "no-edit" {
				inKeyRaw = r.Bytes(32) // a re-keying router: frames arrive signed under another key and leave signed under its own
			}
			var outKey *frame.V2Key
			if withKey {
				outKey = mkKey(keyRaw)
			}
			var fixErr error
			var rt *routerNode
			seenIn, baseA, baseB := 0, 0, 0
			edit := func(n *gomavlib.Node, fr frame.Frame) {
				switch mode {
				case "edit-message":
					m := reflect.ValueOf(frameMessage(fr)).Elem()
					mi := genv.layouts[frameMessage(fr).GetID()]
					// change the first numeric field
					for i := range mi.Layout.Fields {
						f := &mi.Layout.Fields[i]
						if !f.IsString && !f.IsArray && !f.IsEnum {
							vh.SetBits(m.Field(f.GoIndex), 0x2A)
							break
						}
					}
				case "edit-header":
					switch ff := fr.(type) {
					case *frame.V1Frame:
						ff.SystemID ^= 0x55
					case *frame.V2Frame:
						ff.SystemID ^= 0x55
					}
				case "no-edit":
					// nothing is changed: FixFrame alone makes the frame this node's (checksum, and signature under its key)
				case "edit-signature-fields":
					if ff, ok := fr.(*frame.V2Frame); ok {
						ff.SignatureLinkID ^= 0x5A
						ff.SignatureTimestamp += 12345
					}
				case "fan-out-copies":
					// two frames derived from the received one by value copy, each edited and fixed for its own link BEFORE either
					// is written: both are this node's frames and both validate at their next hop
					var cp frame.Frame
					switch ff := fr.(type) {
					case *frame.V1Frame:
						c := *ff
						c.SystemID ^= 0x21
						cp = &c
						ff.ComponentID ^= 0x33
					case *frame.V2Frame:
						c := *ff
						c.SystemID ^= 0x21
						cp = &c
						ff.ComponentID ^= 0x33
					}
					if err := n.FixFrame(cp); err != nil && fixErr == nil {
						fixErr = err
					}
					if err := n.FixFrame(fr); err != nil && fixErr == nil {
						fixErr = err
					}
					_ = n.WriteFrameExcept(nil, cp)
					return
				case "forward-then-edit":
					// forward the frame as received first (this encodes it in place), wait until every channel
					// writer has put it on the wire (the frame object is shared with them), then re-stamp and fix
					// (absolute counts: A gets one write per input, B two - the previous input's fixed frame may still be in flight)
					_ = n.WriteFrameExcept(nil, fr)
					rt.a.WaitWrites(baseA+seenIn+1, 3*time.Second)
					rt.b.WaitWrites(baseB+2*seenIn+1, 3*time.Second)
					seenIn++
					switch ff := fr.(type) {
					case *frame.V1Frame:
						ff.ComponentID ^= 0x33
					case *frame.V2Frame:
						ff.ComponentID ^= 0x33
					}
				}
				if err := n.FixFrame(fr); err != nil && fixErr == nil {
					fixErr = err
				}
			}
			perIn := 1
			if mode == "forward-then-edit" || mode == "fan-out-copies" {
				perIn = 2
			}
			rt, err = newRouter(&dialect.Dialect{Version: 3, Messages: dmsgs}, gomavlib.V2, outKey, edit)
			if err != nil {
				t.Fatal(err)
			}
			var wires [][]byte
			var infos []routed
			unsignedIn := map[int]bool{}
			for i := 0; i < vh.Pick(150, 3000) && i < len(forRouter); i++ {
				ro := forRouter[r.Intn(len(forRouter))]
				s := *ro.in
				// with an outgoing key the received frames are signed (by the same key: a signed link being re-stamped) ...
				if withKey && s.Version == 2 && i%4 != 3 {
					s.Signed, s.Incompat = true, 1
					s.Timestamp = uint64(1000 + i)
					ref.Seal(&s, ro.mi.Layout.CRCExtra, inKeyRaw)
				} else if withKey && s.Version == 2 {
					// ... except every fourth one, which arrives unsigned (the router checks no signatures): whatever FixFrame makes
					// of it (today: it leaves unsigned), it is one valid frame for a next hop that has the dialect and no key
					s.Signed, s.Incompat = false, 0
					ref.Seal(&s, ro.mi.Layout.CRCExtra, nil)
					unsignedIn[len(wires)] = true
				} else if withKey {
					continue
				}
				wires = append(wires, ref.Serialize(&s))
				infos = append(infos, routed{ro.mi, &s, nil, ro.class})
			}
			outs := rt.forward(rep, wires, perIn)
			rt.close()
			if fixErr != nil {
				rep.Violation("msg=* ver=0 enc=* what=fix", "FixFrame returned an error for a received dialect frame: "+fixErr.Error(), mode)
			}
			var nextKey *frame.V2Key
			if withKey {
				nextKey = outKey
			}
			// next hop for the fixed frames: dialect + InKey = OutKey. In forward-then-edit mode every other
			// output is the unfixed first forward of a signed frame with a dialect: for it the statement
			// promises checksum validity only, so it goes to a next hop without InKey.
			var fixedOuts, plainOuts [][]byte
			for i, o := range outs {
				if (perIn == 2 && i%2 == 0 && mode != "fan-out-copies") || unsignedIn[i/perIn] {
					plainOuts = append(plainOuts, o)
				} else {
					fixedOuts = append(fixedOuts, o)
				}
			}
			rdPlain := &frame.Reader{ByteReader: bytes.NewReader(bytes.Join(plainOuts, nil)), DialectRW: genv.drw}
			_ = rdPlain.Initialize()
			for i, o := range plainOuts {
				rep.Eval(1)
				if _, err := rdPlain.Read(); err != nil {
					rep.Violation(fmt.Sprintf("msg=* ver=0 enc=* what=checksum mode=%s key=%v", mode, withKey),
						"a frame forwarded unchanged by the router was rejected at a next hop with the dialect: "+err.Error(),
						map[string]interface{}{"forwarded": vh.Hex(o), "index": i})
					break
				}
			}
			rd := &frame.Reader{ByteReader: bytes.NewReader(bytes.Join(fixedOuts, nil)), DialectRW: genv.drw, InKey: nextKey}
			_ = rd.Initialize()
			for i, o := range fixedOuts {
				rep.Eval(1)
				rep.Count("fixframe_forwarded", 1)
				_, err := rd.Read()
				if err != nil {
					rep.Violation(fmt.Sprintf("msg=* ver=0 enc=* what=fix mode=%s key=%v", mode, withKey),
						"a frame edited and fixed with Node.FixFrame was rejected at the next hop: "+err.Error(),
						map[string]interface{}{"mode": mode, "with_out_key": withKey, "forwarded": vh.Hex(o), "index": i, "received": vh.Hex(wires[min(i, len(wires)-1)])})
					break
				}
			}
			if len(outs) != perIn*len(wires) {
				rep.Violation(fmt.Sprintf("msg=* ver=0 enc=* what=fix mode=%s key=%v", mode, withKey), fmt.Sprintf("router forwarded %d frames for %d received", len(outs), len(wires)), nil)
			}
			_ = infos
		}
	}
	rep.Observe("FixFrame on a frame received unsigned by a node with OutKey computes a signature but does not set the signed flag, so the frame is forwarded unsigned (not demanded by the statement as read here; signed received frames are re-signed and validate)")
	rep.Sample(map[string]interface{}{"kind": "dialect forward", "msg": forRouter[0].mi.Name, "enc": forRouter[0].class, "received": vh.Hex(forRouter[0].wire)})
	rep.Floor("dialect_encodings_afternul", 20)
	rep.Floor("dialect_encodings_tail", 50)
	rep.Floor("node_router_dialect_frames", 200)
	rep.Floor("fixframe_forwarded", 200)
}

var c08forwardCounter int

// c08forward forwards through one of the two routing entry points of frame.Writer in turn: Write and the deprecated
// WriteFrame (the same operation under its older name).
func c08forward(fw *frame.Writer, fr frame.Frame) error {
	c08forwardCounter++
	if c08forwardCounter%2 == 0 {
		return fw.WriteFrame(fr) //nolint:staticcheck
	}
	return fw.Write(fr)
}
