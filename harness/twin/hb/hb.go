// Package hb holds a hand-written HEARTBEAT: the standard message (same name, id, field names, wire layout, CRC_EXTRA 50)
// with its Go fields declared in wire order instead of definition order. It is a standard heartbeat to every peer.
package hb

import "github.com/bluenviron/gomavlib/v3/pkg/dialects/common"

// MessageHeartbeat is HEARTBEAT with the fields in wire order.
type MessageHeartbeat struct {
	CustomMode     uint32
	Type           common.MAV_TYPE      `mavenum:"uint8"`
	Autopilot      common.MAV_AUTOPILOT `mavenum:"uint8"`
	BaseMode       common.MAV_MODE_FLAG `mavenum:"uint8"`
	SystemStatus   common.MAV_STATE     `mavenum:"uint8"`
	MavlinkVersion uint8
}

// GetID implements message.Message.
func (*MessageHeartbeat) GetID() uint32 { return 0 }
