// Package common is a user package that happens to have the name of a shipped dialect package and defines
// messages with the names (and ids) of shipped messages, but with other definitions: a customised dialect
// generated from an edited XML. Nothing in the library may confuse these types with the shipped ones.
package common

// MessageHeartbeat has id 0 like the standard HEARTBEAT and another definition.
type MessageHeartbeat struct {
	Uptime   uint64
	Type     uint8
	Reserved [5]uint8
	Note     string `mavlen:"9"`
}

// GetID implements message.Message.
func (*MessageHeartbeat) GetID() uint32 { return 0 }

// MessageDebug is a revision of DEBUG (id 254) with one more base field.
type MessageDebug struct {
	TimeBootMs uint32
	Ind        uint8
	Value      float32
	Quality    uint16
}

// GetID implements message.Message.
func (*MessageDebug) GetID() uint32 { return 254 }

// MessageParamRequestRead keeps name, id and field names of PARAM_REQUEST_READ but widens one field.
type MessageParamRequestRead struct {
	TargetSystem    uint8
	TargetComponent uint8
	ParamId         string `mavlen:"20"`
	ParamIndex      int16
}

// GetID implements message.Message.
func (*MessageParamRequestRead) GetID() uint32 { return 20 }
