module verifharness

go 1.21.0

require (
	github.com/bluenviron/gomavlib/v3 v3.0.0
	go.bug.st/serial v1.6.3
)

require (
	github.com/creack/goselect v0.1.2 // indirect
	github.com/pion/logging v0.2.2 // indirect
	github.com/pion/transport/v2 v2.2.10 // indirect
	golang.org/x/net v0.33.0 // indirect
	golang.org/x/sys v0.28.0 // indirect
)

replace github.com/bluenviron/gomavlib/v3 => /repo
