// Package fake contains the transports the monitors plug into gomavlib:
// scripted, recording, blocking and failing io.ReadWriteClosers.
package fake

import (
	"errors"
	"io"
	"sync"
	"sync/atomic"
	"time"
)

// ErrClosed is returned by Read/Write after Close.
var ErrClosed = errors.New("fake transport closed")

var clock = time.Now()

// Now is the harness clock (monotonic, ns since process start).
func Now() int64 { return int64(time.Since(clock)) }

var seqCounter int64

var unordered int32

// SetUnordered switches the global event sequence off (NextSeq returns 0). An atomic read-modify-write on one
// process-wide counter orders every goroutine that records an event; under the race detector that hides races
// between the library goroutines calling into different transports. Race-detection workloads that do not need
// the global order switch it off.
func SetUnordered(b bool) {
	v := int32(0)
	if b {
		v = 1
	}
	atomic.StoreInt32(&unordered, v)
}

// NextSeq returns the next value of the global event sequence.
func NextSeq() int64 {
	if atomic.LoadInt32(&unordered) != 0 {
		return 0
	}
	return atomic.AddInt64(&seqCounter, 1)
}

// WriteRec is one Write call seen by a transport.
type WriteRec struct {
	Seq     int64
	T       int64
	Session int
	Data    []byte
	Failed  bool
}

type inItem struct {
	data []byte
	err  error
}

// Transport is an in-memory io.ReadWriteCloser for EndpointCustom.
type Transport struct {
	errWithData bool
	Name        string

	mu   sync.Mutex
	cond *sync.Cond

	in       []inItem
	closed   bool
	closes   int
	session  int // incremented each time Read returns an injected error
	readsN   int
	bytesIn  int
	consumed int // input bytes handed to the library

	writes      []WriteRec
	writeCalls  int
	blockWrites bool
	blockFrom   int // block from this 1-based call index on (0 = use blockWrites flag only)
	blocked     int // writers currently blocked
	failAt      int // 1-based call index that fails (0 = none)
	failErr     error
	failSticky  bool
	failPartial bool // the failing call reports that part of the buffer was written (n > 0 together with the error)
	onWrite     func(rec *WriteRec)
}

// NewTransport allocates a transport.
func NewTransport(name string) *Transport {
	t := &Transport{Name: name}
	t.cond = sync.NewCond(&t.mu)
	return t
}

// Feed queues bytes for the library to read (as one transport read unless larger than the caller's buffer).
func (t *Transport) Feed(b []byte) {
	t.mu.Lock()
	if t.closed {
		t.mu.Unlock()
		return
	}
	t.in = append(t.in, inItem{data: append([]byte(nil), b...)})
	t.bytesIn += len(b)
	t.cond.Broadcast()
	t.mu.Unlock()
}

// FeedError makes a later Read return err once (after the bytes queued so far).
func (t *Transport) FeedError(err error) {
	t.mu.Lock()
	t.in = append(t.in, inItem{err: err})
	t.cond.Broadcast()
	t.mu.Unlock()
}

// Read implements io.Reader. It blocks until input, an injected error or Close.
func (t *Transport) Read(p []byte) (int, error) {
	t.mu.Lock()
	defer t.mu.Unlock()
	t.readsN++
	for len(t.in) == 0 && !t.closed {
		t.cond.Wait()
	}
	if t.closed {
		// like a real connection: nothing can be read after Close, whatever is still queued
		return 0, io.EOF
	}
	it := &t.in[0]
	if it.err != nil {
		err := it.err
		t.in = t.in[1:]
		t.session++
		return 0, err
	}
	n := copy(p, it.data)
	it.data = it.data[n:]
	t.consumed += n
	if len(it.data) == 0 {
		t.in = t.in[1:]
		if t.errWithData && len(t.in) > 0 && t.in[0].err != nil {
			// the io.Reader contract allows the last bytes and the error in one call
			err := t.in[0].err
			t.in = t.in[1:]
			t.session++
			t.cond.Broadcast()
			return n, err
		}
	}
	t.cond.Broadcast()
	return n, nil
}

// FeedThenError queues bytes and, right behind them, an error (both under one lock: a reader that has drained everything
// before gets them in one Read when ErrWithData is on).
func (t *Transport) FeedThenError(b []byte, err error) {
	t.mu.Lock()
	if !t.closed {
		t.in = append(t.in, inItem{data: append([]byte(nil), b...)}, inItem{err: err})
		t.bytesIn += len(b)
		t.cond.Broadcast()
	}
	t.mu.Unlock()
}

// ErrsWithData reports whether ErrWithData is on.
func (t *Transport) ErrsWithData() bool {
	t.mu.Lock()
	defer t.mu.Unlock()
	return t.errWithData
}

// ErrWithData makes Read hand over the last queued bytes together with the error that follows them (n > 0, err != nil), as
// the io.Reader contract allows, instead of in two calls.
func (t *Transport) ErrWithData(b bool) {
	t.mu.Lock()
	t.errWithData = b
	t.mu.Unlock()
}

// Pending returns the number of fed bytes not yet read by the library.
func (t *Transport) Pending() int {
	t.mu.Lock()
	defer t.mu.Unlock()
	return t.bytesIn - t.consumed
}

// Session returns the number of injected read errors delivered so far.
func (t *Transport) Session() int {
	t.mu.Lock()
	defer t.mu.Unlock()
	return t.session
}

// Write implements io.Writer.
func (t *Transport) Write(p []byte) (int, error) {
	t.mu.Lock()
	t.writeCalls++
	call := t.writeCalls
	if t.closed {
		t.mu.Unlock()
		return 0, ErrClosed
	}
	if t.failAt != 0 && (call == t.failAt || (t.failSticky && call > t.failAt)) {
		rec := WriteRec{Seq: NextSeq(), T: Now(), Session: t.session, Data: append([]byte(nil), p...), Failed: true}
		t.writes = append(t.writes, rec)
		err := t.failErr
		n := 0
		if t.failPartial {
			n = len(p) / 2
		}
		t.mu.Unlock()
		return n, err
	}
	for (t.blockWrites || (t.blockFrom != 0 && call >= t.blockFrom)) && !t.closed {
		t.blocked++
		t.cond.Broadcast()
		t.cond.Wait()
		t.blocked--
	}
	if t.closed {
		t.mu.Unlock()
		return 0, ErrClosed
	}
	rec := WriteRec{Seq: NextSeq(), T: Now(), Session: t.session, Data: append([]byte(nil), p...)}
	t.writes = append(t.writes, rec)
	cb := t.onWrite
	t.cond.Broadcast()
	t.mu.Unlock()
	if cb != nil {
		cb(&rec)
	}
	return len(p), nil
}

// OnWrite installs a callback invoked (outside the lock) after every accepted Write.
func (t *Transport) OnWrite(f func(rec *WriteRec)) {
	t.mu.Lock()
	t.onWrite = f
	t.mu.Unlock()
}

// BlockWrites makes Write block (until UnblockWrites or Close).
func (t *Transport) BlockWrites() {
	t.mu.Lock()
	t.blockWrites = true
	t.mu.Unlock()
}

// BlockWritesFrom makes the k-th (1-based) and later Write calls block.
func (t *Transport) BlockWritesFrom(k int) {
	t.mu.Lock()
	t.blockFrom = k
	t.mu.Unlock()
}

// BlockAgainAfter lets the next n Write calls (a blocked one included) through and blocks the ones after them.
func (t *Transport) BlockAgainAfter(n int) {
	t.mu.Lock()
	t.blockWrites = false
	t.blockFrom = t.writeCalls + n
	t.cond.Broadcast()
	t.mu.Unlock()
}

// UnblockWrites releases blocked writers.
func (t *Transport) UnblockWrites() {
	t.mu.Lock()
	t.blockWrites = false
	t.blockFrom = 0
	t.cond.Broadcast()
	t.mu.Unlock()
}

// Blocked returns the number of Write calls currently blocked.
func (t *Transport) Blocked() int {
	t.mu.Lock()
	defer t.mu.Unlock()
	return t.blocked
}

// FailWriteAt makes the k-th Write call (1-based, counted over the transport's life) fail with err;
// sticky makes every later call fail too.
func (t *Transport) FailWriteAt(k int, err error, sticky bool) {
	t.mu.Lock()
	t.failAt, t.failErr, t.failSticky = k, err, sticky
	t.mu.Unlock()
}

// FailPartial makes the failing Write calls return n = len/2 together with the error.
func (t *Transport) FailPartial(b bool) {
	t.mu.Lock()
	t.failPartial = b
	t.mu.Unlock()
}

// StopFailing clears the write failure.
func (t *Transport) StopFailing() {
	t.mu.Lock()
	t.failAt, t.failSticky = 0, false
	t.mu.Unlock()
}

// Close implements io.Closer; it unblocks blocked readers and writers.
func (t *Transport) Close() error {
	t.mu.Lock()
	t.closes++
	t.closed = true
	t.cond.Broadcast()
	t.mu.Unlock()
	return nil
}

// Closes returns how many times Close was called.
func (t *Transport) Closes() int {
	t.mu.Lock()
	defer t.mu.Unlock()
	return t.closes
}

// WriteCalls returns the number of Write calls seen (accepted, failed or blocked).
func (t *Transport) WriteCalls() int {
	t.mu.Lock()
	defer t.mu.Unlock()
	return t.writeCalls
}

// Writes returns a copy of the recorded Write calls.
func (t *Transport) Writes() []WriteRec {
	t.mu.Lock()
	defer t.mu.Unlock()
	return append([]WriteRec(nil), t.writes...)
}

// WriteAt returns the i-th recorded write (0-based).
func (t *Transport) WriteAt(i int) WriteRec {
	t.mu.Lock()
	defer t.mu.Unlock()
	return t.writes[i]
}

// NWrites returns the number of recorded (accepted or failed) writes.
func (t *Transport) NWrites() int {
	t.mu.Lock()
	defer t.mu.Unlock()
	return len(t.writes)
}

// Output returns the concatenation of all accepted writes.
func (t *Transport) Output() []byte {
	t.mu.Lock()
	defer t.mu.Unlock()
	var out []byte
	for _, w := range t.writes {
		if !w.Failed {
			out = append(out, w.Data...)
		}
	}
	return out
}

// WaitWrites waits until at least n writes were recorded or the no-progress criterion fires:
// the count did not change over `quiet`. It returns the count.
func (t *Transport) WaitWrites(n int, quiet time.Duration) int {
	last := -1
	lastChange := time.Now()
	for {
		c := t.NWrites()
		if c >= n {
			return c
		}
		if c != last {
			last = c
			lastChange = time.Now()
		} else if time.Since(lastChange) > quiet {
			return c
		}
		time.Sleep(200 * time.Microsecond)
	}
}

// WaitDrained waits until the library has read everything fed (or no progress over quiet).
func (t *Transport) WaitDrained(quiet time.Duration) bool {
	last := -1
	lastChange := time.Now()
	for {
		p := t.Pending()
		if p == 0 {
			return true
		}
		if p != last {
			last = p
			lastChange = time.Now()
		} else if time.Since(lastChange) > quiet {
			return false
		}
		time.Sleep(200 * time.Microsecond)
	}
}
