package probe

import "reflect"

// ConstRec is an enum constant as compiled into a dialect package.
type ConstRec struct {
	Pkg   string `json:"pkg"`
	Enum  string `json:"enum"`
	Name  string `json:"name"`
	Value uint64 `json:"value"`
}

// AliasRec records whether a type included from another dialect is the very same Go type.
type AliasRec struct {
	Pkg    string `json:"pkg"`
	Name   string `json:"name"`
	Target string `json:"target"`
	Same   bool   `json:"same"`
	Kind   string `json:"kind"` // message | enum
}

// Output is what a probe program prints as JSON.
type Output struct {
	Consts  []ConstRec  `json:"consts"`
	Aliases []AliasRec  `json:"aliases"`
	Enums   EnumResult  `json:"enums"`
	Extra   interface{} `json:"extra,omitempty"`
}

// Const records a constant.
func (o *Output) Const(pkg, enum, name string, v uint64) {
	o.Consts = append(o.Consts, ConstRec{pkg, enum, name, v})
}

// Alias records a type identity observation.
func (o *Output) Alias(kind, pkg, name, target string, a, b reflect.Type) {
	o.Aliases = append(o.Aliases, AliasRec{Pkg: pkg, Name: name, Target: target, Same: a == b, Kind: kind})
}
