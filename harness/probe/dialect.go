package probe

import (
	"encoding/hex"
	"fmt"
	"math"
	"reflect"

	"github.com/bluenviron/gomavlib/v3/pkg/dialect"
	"github.com/bluenviron/gomavlib/v3/pkg/message"
)

// NVariants is the number of sample values encoded per message.
const NVariants = 5

func mix(a ...uint64) uint64 {
	h := uint64(0x9E3779B97F4A7C15)
	for _, x := range a {
		h ^= x + 0x9E3779B97F4A7C15 + (h << 6) + (h >> 2)
		h *= 0xBF58476D1CE4E5B9
		h ^= h >> 29
	}
	return h
}

// SampleBits chooses the bit pattern of element elem of the decl-th declared field.
func SampleBits(msgID uint32, decl, elem, variant int) uint64 {
	h := mix(uint64(msgID), uint64(decl), uint64(elem), uint64(variant))
	switch variant {
	case 0: // every byte non-zero
		return h | 0x0101010101010101
	case 1:
		return h
	case 2:
		return []uint64{0, 1, math.MaxUint64, 0x8080808080808080, 0x7F7F7F7F7F7F7F7F, 0x0807060504030201, 0xFD, 0xFE}[h%8]
	case 3: // zero tail: later declared fields are zero
		if decl >= 2 {
			return 0
		}
		return h | 1
	default:
		if h%3 == 0 {
			return 0
		}
		return h
	}
}

// SampleString chooses the value of a char / char[n] field.
func SampleString(msgID uint32, decl, n, variant int) string {
	h := mix(uint64(msgID), uint64(decl), 77, uint64(variant))
	ln := n
	switch variant {
	case 1:
		ln = int(h % uint64(n+1))
	case 2:
		ln = n + 2
	case 3:
		ln = 0
	case 4:
		ln = n - 1
	}
	if ln < 0 {
		ln = 0
	}
	b := make([]byte, ln)
	for i := range b {
		b[i] = byte('a' + (h>>uint(i%8*8)+uint64(i))%26)
	}
	return string(b)
}

func setBits(v reflect.Value, bits uint64) {
	switch v.Kind() {
	case reflect.Float32:
		*(v.Addr().Interface().(*float32)) = math.Float32frombits(uint32(bits))
	case reflect.Float64:
		*(v.Addr().Interface().(*float64)) = math.Float64frombits(bits)
	case reflect.Int8:
		v.SetInt(int64(int8(bits)))
	case reflect.Int16:
		v.SetInt(int64(int16(bits)))
	case reflect.Int32:
		v.SetInt(int64(int32(bits)))
	case reflect.Int64:
		v.SetInt(int64(bits))
	case reflect.Uint8:
		v.SetUint(bits & 0xFF)
	case reflect.Uint16:
		v.SetUint(bits & 0xFFFF)
	case reflect.Uint32:
		v.SetUint(bits & 0xFFFFFFFF)
	case reflect.Uint64:
		v.SetUint(bits)
	}
}

// MsgDump is what the real codec says about one generated message.
type MsgDump struct {
	ID        uint32            `json:"id"`
	GoName    string            `json:"go_name"`
	NumFields int               `json:"num_fields"`
	CRC       int               `json:"crc"`
	V1        [NVariants]string `json:"v1"`
	V2        [NVariants]string `json:"v2"`
	Err       string            `json:"err,omitempty"`
}

// DialectDump is what the real library says about one generated dialect.
type DialectDump struct {
	Name    string    `json:"name"`
	Version int       `json:"version"`
	InitErr string    `json:"init_err,omitempty"`
	Msgs    []MsgDump `json:"msgs"`
}

// DumpDialect initialises a generated dialect with the real library and encodes sample values.
func DumpDialect(name string, d *dialect.Dialect) (dd DialectDump) {
	dd.Name = name
	dd.Version = d.Version
	defer func() {
		if p := recover(); p != nil {
			dd.InitErr = fmt.Sprintf("panic: %v", p)
		}
	}()
	rw := &dialect.ReadWriter{Dialect: d}
	if err := rw.Initialize(); err != nil {
		dd.InitErr = err.Error()
		return dd
	}
	for _, m := range d.Messages {
		dd.Msgs = append(dd.Msgs, dumpMsg(rw, m))
	}
	return dd
}

func dumpMsg(rw *dialect.ReadWriter, m message.Message) (md MsgDump) {
	t := reflect.TypeOf(m).Elem()
	md.ID = m.GetID()
	md.GoName = t.Name()
	md.NumFields = t.NumField()
	defer func() {
		if p := recover(); p != nil {
			md.Err = fmt.Sprintf("panic: %v", p)
		}
	}()
	mrw := rw.GetMessage(m.GetID())
	if mrw == nil {
		md.Err = "GetMessage returned nil"
		return md
	}
	if reflect.TypeOf(mrw.Message) != reflect.TypeOf(m) {
		md.Err = "GetMessage returned the codec of another message"
		return md
	}
	md.CRC = int(mrw.CRCExtra())
	for variant := 0; variant < NVariants; variant++ {
		val := reflect.New(t)
		for i := 0; i < t.NumField(); i++ {
			fv := val.Elem().Field(i)
			switch fv.Kind() {
			case reflect.String:
				n := 1
				if s := t.Field(i).Tag.Get("mavlen"); s != "" {
					fmt.Sscanf(s, "%d", &n)
				}
				fv.SetString(SampleString(md.ID, i, n, variant))
			case reflect.Array:
				for k := 0; k < fv.Len(); k++ {
					setBits(fv.Index(k), SampleBits(md.ID, i, k, variant))
				}
			default:
				setBits(fv, SampleBits(md.ID, i, 0, variant))
			}
		}
		msg := val.Interface().(message.Message)
		md.V1[variant] = hex.EncodeToString(mrw.Write(msg, false).Payload)
		md.V2[variant] = hex.EncodeToString(mrw.Write(msg, true).Payload)
	}
	return md
}
