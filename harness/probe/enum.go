// Package probe holds the oracle code that generated probe programs link against
// (the programs themselves are generated at check time and only enumerate types and constants).
package probe

import (
	"fmt"
	"strconv"
	"strings"
)

// NamedValue is an enum constant.
type NamedValue struct {
	Name  string
	Value uint64
}

// EnumCase gives access to one enum type.
type EnumCase struct {
	Name      string // pkg.Type
	Bitmask   bool
	Consts    []NamedValue
	Marshal   func(uint64) (string, error)
	Unmarshal func(string) (uint64, error)
	// UnmarshalInto parses into a destination that already holds a value (optional)
	UnmarshalInto func(prefill uint64, text string) (uint64, error)
	String        func(uint64) string
}

// Finding is a violation found by a probe.
type Finding struct {
	Key     string      `json:"key"`
	What    string      `json:"what"`
	Witness interface{} `json:"witness"`
}

// EnumResult is the outcome of probing enums.
type EnumResult struct {
	Enums        int       `json:"enums"`
	Bitmask      int       `json:"bitmask_enums"`
	Values       int64     `json:"values"`
	Rejections   int64     `json:"rejections"`
	Findings     []Finding `json:"findings"`
	Observations []string  `json:"observations"`
	Samples      []string  `json:"samples"`
	obs          map[string]bool
	keys         map[string]bool
}

func (r *EnumResult) find(key, what string, wit interface{}) {
	if r.keys == nil {
		r.keys = map[string]bool{}
	}
	if r.keys[key] || len(r.Findings) > 200 {
		return
	}
	r.keys[key] = true
	r.Findings = append(r.Findings, Finding{key, what, wit})
}

func (r *EnumResult) observe(s string) {
	if r.obs == nil {
		r.obs = map[string]bool{}
	}
	if !r.obs[s] && len(r.Observations) < 20 {
		r.obs[s] = true
		r.Observations = append(r.Observations, s)
	}
}

type rng struct{ s uint64 }

func (r *rng) u64() uint64 {
	r.s += 0x9E3779B97F4A7C15
	z := r.s
	z = (z ^ (z >> 30)) * 0xBF58476D1CE4E5B9
	z = (z ^ (z >> 27)) * 0x94D049BB133111EB
	return z ^ (z >> 31)
}

// CheckEnum runs the C19 oracle on one enum type.
func CheckEnum(c EnumCase, seed uint64, nRandom int, otherNames []string, res *EnumResult) {
	res.Enums++
	if c.Bitmask {
		res.Bitmask++
	}
	r := &rng{s: seed ^ uint64(len(c.Name))*0x100000001B3}
	for _, ch := range c.Name {
		r.s = r.s*31 + uint64(ch)
	}
	byName := map[string]uint64{}
	firstName := map[uint64]string{}
	for _, nv := range c.Consts {
		byName[nv.Name] = nv.Value
		if _, ok := firstName[nv.Value]; !ok {
			firstName[nv.Value] = nv.Name
		}
	}
	safe := func(f func()) {
		defer func() {
			if p := recover(); p != nil {
				res.find(fmt.Sprintf("enum=%s what=panic", c.Name), fmt.Sprintf("panic: %v", p), nil)
			}
		}()
		f()
	}
	roundTrip := func(v uint64) (string, bool) {
		res.Values++
		text, err := c.Marshal(v)
		if err != nil {
			res.find(fmt.Sprintf("enum=%s value=%d what=roundtrip", c.Name, v), "MarshalText failed: "+err.Error(), v)
			return "", false
		}
		back, err := c.Unmarshal(text)
		if err != nil {
			res.find(fmt.Sprintf("enum=%s value=%d what=roundtrip", c.Name, v),
				fmt.Sprintf("text %q produced by MarshalText is rejected by UnmarshalText: %v", text, err), map[string]interface{}{"value": v, "text": text})
			return text, false
		}
		if back != v {
			res.find(fmt.Sprintf("enum=%s value=%d what=roundtrip", c.Name, v),
				fmt.Sprintf("value %d renders as %q which parses back to %d", v, text, back), map[string]interface{}{"value": v, "text": text, "back": back})
			return text, false
		}
		if c.UnmarshalInto != nil {
			// parsing does not depend on what the destination held before
			for _, pre := range []uint64{^uint64(0), 0x5555555555555555, v ^ 0xFF} {
				b2, err := c.UnmarshalInto(pre, text)
				if err != nil || b2 != v {
					res.find(fmt.Sprintf("enum=%s value=%d what=roundtrip", c.Name, v),
						fmt.Sprintf("text %q parsed into a variable already holding %d gives %d (err %v), expected %d", text, pre, b2, err, v),
						map[string]interface{}{"value": v, "text": text, "prefill": pre})
					return text, false
				}
			}
		}
		if s := c.String(v); s != text {
			res.find(fmt.Sprintf("enum=%s value=%d what=render", c.Name, v), fmt.Sprintf("String() = %q but MarshalText = %q", s, text), v)
		}
		return text, true
	}

	if !c.Bitmask {
		check := func(v uint64) {
			safe(func() {
				text, ok := roundTrip(v)
				if !ok {
					return
				}
				if name, defined := firstName[v]; defined {
					// a defined constant renders as its XML name (any name defined for that value)
					if bv, isName := byName[text]; !isName || bv != v {
						res.find(fmt.Sprintf("enum=%s value=%d what=render", c.Name, v),
							fmt.Sprintf("defined constant %s=%d renders as %q, not as its name", name, v, text), v)
					}
				} else {
					// any other value renders as a decimal number
					if u, err := strconv.ParseUint(text, 10, 64); err == nil {
						if u != v {
							res.find(fmt.Sprintf("enum=%s value=%d what=render", c.Name, v), fmt.Sprintf("renders as the number %q", text), v)
						}
					} else if i, err := strconv.ParseInt(text, 10, 64); err == nil {
						if uint64(i) != v {
							res.find(fmt.Sprintf("enum=%s value=%d what=render", c.Name, v), fmt.Sprintf("renders as the number %q", text), v)
						}
						res.observe("values >= 2^63 of ordinary enums render as negative decimal numbers (they parse back to the same value)")
					} else {
						res.find(fmt.Sprintf("enum=%s value=%d what=render", c.Name, v), fmt.Sprintf("undefined value renders as %q, which is not a decimal number", text), v)
					}
				}
			})
		}
		check(0)
		for _, nv := range c.Consts {
			check(nv.Value)
			check(nv.Value + 1)
			check(nv.Value - 1)
		}
		for _, v := range []uint64{1 << 31, 1<<31 - 1, 1 << 32, 1<<32 - 1, 1<<63 - 1, 1 << 63, 1<<63 + 1, 1<<64 - 1, 1<<64 - 2, 255, 256, 65535, 65536} {
			check(v)
		}
		for i := 0; i < nRandom; i++ {
			v := r.u64()
			switch i % 4 {
			case 1:
				v >>= 32
			case 2:
				v >>= 48
			case 3:
				v >>= uint(r.u64() % 64)
			}
			check(v)
		}
	} else {
		var flags []NamedValue
		var all uint64
		for _, nv := range c.Consts {
			if nv.Value != 0 {
				flags = append(flags, nv)
				all |= nv.Value
			}
		}
		check := func(v uint64) {
			safe(func() {
				text, ok := roundTrip(v)
				if !ok || v == 0 {
					return
				}
				var or uint64
				for _, piece := range strings.Split(text, " | ") {
					pv, isName := byName[piece]
					if !isName {
						res.find(fmt.Sprintf("enum=%s value=%d what=render", c.Name, v),
							fmt.Sprintf("combination of defined flags renders as %q: piece %q is not a flag name", text, piece), v)
						return
					}
					if pv&v != pv {
						res.find(fmt.Sprintf("enum=%s value=%d what=render", c.Name, v),
							fmt.Sprintf("rendering %q names flag %s which the value does not contain", text, piece), v)
						return
					}
					or |= pv
				}
				if or != v {
					res.find(fmt.Sprintf("enum=%s value=%d what=render", c.Name, v),
						fmt.Sprintf("rendering %q does not name all flags of the value", text), v)
				}
				// "the names of the flags it contains": every defined flag whose bits are all set is named, also one whose bits are
				// covered by other flags (a composite like AB = A | B)
				named := map[string]bool{}
				for _, piece := range strings.Split(text, " | ") {
					named[piece] = true
				}
				for _, f := range flags {
					if f.Value&v == f.Value && !named[f.Name] {
						res.find(fmt.Sprintf("enum=%s value=%d what=render", c.Name, v),
							fmt.Sprintf("rendering %q leaves out flag %s (%d), which the value contains", text, f.Name, f.Value), v)
						break
					}
				}
			})
		}
		check(0)
		for _, f := range flags {
			check(f.Value)
		}
		check(all)
		for i := 0; i < len(flags); i++ {
			for j := i + 1; j < len(flags) && j < i+4; j++ {
				check(flags[i].Value | flags[j].Value)
			}
		}
		for i := 0; i < nRandom && len(flags) > 0; i++ {
			var v uint64
			sel := r.u64()
			for k, f := range flags {
				if sel&(1<<uint(k%64)) != 0 {
					v |= f.Value
				}
			}
			if i%3 == 0 { // sparse combinations
				v = flags[r.u64()%uint64(len(flags))].Value | flags[r.u64()%uint64(len(flags))].Value
			}
			check(v)
		}
	}
	if len(res.Samples) < 6 && len(c.Consts) > 0 {
		t, _ := c.Marshal(c.Consts[len(c.Consts)-1].Value)
		res.Samples = append(res.Samples, fmt.Sprintf("%s: %d -> %q", c.Name, c.Consts[len(c.Consts)-1].Value, t))
	}

	// a number is accepted as such: whatever decimal text the parser accepts must give that number
	for _, n := range []uint64{0, 1, 3, 5, 64, 255, 4097, 65536} {
		nn := n
		safe(func() {
			res.Values++
			v, err := c.Unmarshal(strconv.FormatUint(nn, 10))
			if err == nil && v != nn {
				res.find(fmt.Sprintf("enum=%s value=%d what=number", c.Name, nn), fmt.Sprintf("the decimal text %d is accepted but parses to %d", nn, v), nn)
			}
			if c.Bitmask && len(c.Consts) > 0 && c.Consts[0].Value != 0 {
				// a name combined with a number
				txt := c.Consts[0].Name + " | " + strconv.FormatUint(nn, 10)
				if v, err := c.Unmarshal(txt); err == nil && v != c.Consts[0].Value|nn {
					res.find(fmt.Sprintf("enum=%s value=%d what=number", c.Name, nn), fmt.Sprintf("the text %q is accepted but parses to %d", txt, v), txt)
				}
			}
		})
	}

	// rejection
	bad := []string{"", " ", "foo", "NOT_A_NAME", "1.5", "0x10", "1e3", "--1", "NaN", "A |", " | ", "| A", "1 2", "٣"}
	if len(c.Consts) > 0 {
		n := c.Consts[0].Name
		// the name in the other letter case (names are case sensitive); for a name that is all lower-case already, upper-case
		flipped := strings.ToLower(n)
		if flipped == n {
			flipped = strings.ToUpper(n)
		}
		bad = append(bad, n+"X", "X"+n, n+" ", " "+n, n+" |", n+" |  "+n, n+"|"+n, n+" , "+n)
		if _, known := byName[flipped]; !known && flipped != n {
			bad = append(bad, flipped)
			if c.Bitmask {
				bad = append(bad, n+" | "+flipped)
			}
		}
		if c.Bitmask {
			bad = append(bad, n+" | ", " | "+n, n+" | foo")
		}
	}
	for _, o := range otherNames {
		if _, mine := byName[o]; !mine {
			bad = append(bad, o)
		}
	}
	for _, text := range bad {
		tx := text
		safe(func() {
			res.Rejections++
			if strings.ToLower(tx) != tx || tx == "" || strings.TrimSpace(tx) != tx || true {
				if _, isName := byName[tx]; isName {
					return
				}
			}
			v, err := c.Unmarshal(tx)
			if err == nil {
				res.find(fmt.Sprintf("enum=%s what=accepts:%s", c.Name, classify(tx)),
					fmt.Sprintf("UnmarshalText accepted %q (-> %d), which is neither a known name, a combination of names nor a number", tx, v), tx)
			}
		})
	}
}

func classify(t string) string {
	switch {
	case t == "":
		return "empty"
	case strings.TrimSpace(t) != t || strings.TrimSpace(t) == "":
		return "blank-padded"
	case strings.Contains(t, "|"):
		return "malformed-combination"
	case strings.ContainsAny(t, ".ex") && strings.ContainsAny(t, "0123456789") && !strings.ContainsAny(t, "ABCDFGHIJKLMNOPQRSTUVWYZ_"):
		return "non-decimal-number"
	case strings.ToLower(t) == t:
		return "lowercase"
	default:
		return "unknown-name"
	}
}
